//! mpdfacts — fact exporter (engine E0 of /verif/DESIGN.md).
//!
//! A `rustc_private` driver injected with RUSTC_WORKSPACE_WRAPPER under
//! `cargo +nightly check`.  It contains *no property logic*: for every workspace crate it
//! dumps the type-checked program as rustc sees it (MIR as built, before coroutine lowering,
//! with resolved callees; ADT tables; trait-impl tables; coroutine witnesses; named constants)
//! into one JSON file.  The rules live in /verif/mpdlint (Python).
#![feature(rustc_private)]
#![allow(rustc::internal)]

extern crate rustc_abi;
extern crate rustc_driver;
extern crate rustc_hir;
extern crate rustc_interface;
extern crate rustc_middle;
extern crate rustc_span;

use std::collections::HashMap;
use std::fmt::Write as _;

use rustc_driver::Compilation;
use rustc_hir::def::DefKind;
use rustc_hir::def_id::{DefId, LocalDefId};
use rustc_interface::interface::Compiler;
use rustc_middle::mir::{
    self, AggregateKind, BasicBlock, Body, Const, ConstValue, Operand, Place, ProjectionElem,
    Rvalue, StatementKind, TerminatorKind,
};
use rustc_middle::ty::print::{with_crate_prefix, with_no_trimmed_paths, with_no_visible_paths};
use rustc_middle::ty::{self, Instance, Ty, TyCtxt, TypingEnv};
use rustc_span::Span;

// ---------------------------------------------------------------------------------------------
// Minimal JSON value + writer (no dependencies).

enum J {
    Null,
    Bool(bool),
    Int(i128),
    Str(String),
    Arr(Vec<J>),
    Obj(Vec<(&'static str, J)>),
}

fn js(s: impl Into<String>) -> J {
    J::Str(s.into())
}

fn write_json(j: &J, out: &mut String) {
    match j {
        J::Null => out.push_str("null"),
        J::Bool(b) => out.push_str(if *b { "true" } else { "false" }),
        J::Int(i) => {
            let _ = write!(out, "{i}");
        }
        J::Str(s) => write_str(s, out),
        J::Arr(a) => {
            out.push('[');
            for (i, x) in a.iter().enumerate() {
                if i > 0 {
                    out.push(',');
                }
                write_json(x, out);
            }
            out.push(']');
        }
        J::Obj(o) => {
            out.push('{');
            for (i, (k, v)) in o.iter().enumerate() {
                if i > 0 {
                    out.push(',');
                }
                write_str(k, out);
                out.push(':');
                write_json(v, out);
            }
            out.push('}');
        }
    }
}

fn write_str(s: &str, out: &mut String) {
    out.push('"');
    for c in s.chars() {
        match c {
            '"' => out.push_str("\\\""),
            '\\' => out.push_str("\\\\"),
            '\n' => out.push_str("\\n"),
            '\r' => out.push_str("\\r"),
            '\t' => out.push_str("\\t"),
            c if (c as u32) < 0x20 => {
                let _ = write!(out, "\\u{:04x}", c as u32);
            }
            c => out.push(c),
        }
    }
    out.push('"');
}

// ---------------------------------------------------------------------------------------------

struct Ctx<'tcx> {
    tcx: TyCtxt<'tcx>,
    files: Vec<String>,
    file_idx: HashMap<String, usize>,
    exps: Vec<J>,
    exp_idx: HashMap<String, usize>,
    /// named constants referenced by MIR, evaluated after all bodies were read
    named_consts: Vec<DefId>,
}

impl<'tcx> Ctx<'tcx> {
    fn key(&self, did: DefId) -> String {
        let tcx = self.tcx;
        format!("{}{}", tcx.crate_name(did.krate), tcx.def_path(did).to_string_no_crate_verbose())
    }

    fn name(&self, did: DefId) -> String {
        self.tcx.def_path_str(did)
    }

    fn file(&mut self, name: String) -> usize {
        if let Some(i) = self.file_idx.get(&name) {
            return *i;
        }
        let i = self.files.len();
        self.files.push(name.clone());
        self.file_idx.insert(name, i);
        i
    }

    /// [file, line, col, expansion-index or -1]
    fn span(&mut self, sp: Span) -> J {
        let sm = self.tcx.sess.source_map();
        if sp.is_dummy() {
            return J::Null;
        }
        let lo = sm.lookup_char_pos(sp.lo());
        let fname = format!("{}", lo.file.name.prefer_local_unconditionally());
        let f = self.file(fname);
        let mut exp = -1i128;
        if sp.from_expansion() {
            let mut chain = Vec::new();
            let mut chain_key = String::new();
            for data in sp.macro_backtrace() {
                let kind = match data.kind {
                    rustc_span::ExpnKind::Macro(k, name) => format!("{:?}:{}", k, name),
                    rustc_span::ExpnKind::Desugaring(d) => format!("desugar:{:?}", d),
                    rustc_span::ExpnKind::AstPass(p) => format!("astpass:{:?}", p),
                    rustc_span::ExpnKind::Root => "root".to_string(),
                };
                let krate = match data.macro_def_id {
                    Some(d) => self.tcx.crate_name(d.krate).to_string(),
                    None => String::new(),
                };
                let cs = sm.lookup_char_pos(data.call_site.lo());
                let cs_hi = sm.lookup_char_pos(data.call_site.hi());
                let csf = format!("{}", cs.file.name.prefer_local_unconditionally());
                let _ = write!(chain_key, "{kind}|{krate}|{csf}|{}|{}|{}|{}|", cs.line, cs.col.0, cs_hi.line, cs_hi.col.0);
                chain.push((kind, krate, csf, cs.line, cs.col.0, cs_hi.line, cs_hi.col.0));
            }
            if let Some(i) = self.exp_idx.get(&chain_key) {
                exp = *i as i128;
            } else {
                let i = self.exps.len();
                let mut arr = Vec::new();
                for (kind, krate, csf, line, col, hi_line, hi_col) in chain {
                    let fi = self.file(csf);
                    arr.push(J::Obj(vec![
                        ("m", js(kind)),
                        ("crate", js(krate)),
                        ("cs", J::Arr(vec![J::Int(fi as i128), J::Int(line as i128)])),
                        // extent of the macro invocation: [lo line, lo col, hi line, hi col]
                        ("ext", J::Arr(vec![J::Int(line as i128), J::Int(col as i128), J::Int(hi_line as i128), J::Int(hi_col as i128)])),
                    ]));
                }
                self.exps.push(J::Arr(arr));
                self.exp_idx.insert(chain_key, i);
                exp = i as i128;
            }
        }
        J::Arr(vec![
            J::Int(f as i128),
            J::Int(lo.line as i128),
            J::Int(lo.col.0 as i128 + 1),
            J::Int(exp),
        ])
    }

    fn ty(&self, t: Ty<'tcx>) -> J {
        js(format!("{t}"))
    }

    fn adt_variants(&self, t: Ty<'tcx>) -> J {
        // variant tables for enums (and for coroutines nothing)
        let t = match t.kind() {
            ty::Ref(_, inner, _) => *inner,
            _ => t,
        };
        if let ty::Adt(adt, _) = t.kind() {
            if adt.is_enum() {
                let mut v = Vec::new();
                for (idx, discr) in adt.discriminants(self.tcx) {
                    v.push(J::Arr(vec![
                        J::Int(discr.val as i128),
                        js(adt.variant(idx).name.to_string()),
                        J::Int(idx.as_u32() as i128),
                    ]));
                }
                return J::Obj(vec![("adt", js(self.key(adt.did()))), ("variants", J::Arr(v))]);
            }
        }
        J::Null
    }

    fn place(&self, body: &Body<'tcx>, p: &Place<'tcx>) -> J {
        let tcx = self.tcx;
        let mut proj = Vec::new();
        for (base, elem) in p.iter_projections() {
            let j = match elem {
                ProjectionElem::Deref => js("*"),
                ProjectionElem::Field(f, fty) => {
                    let bty = base.ty(&body.local_decls, tcx);
                    let mut name = J::Null;
                    if let ty::Adt(adt, _) = bty.ty.kind() {
                        let vi = bty.variant_index.unwrap_or(rustc_abi::FIRST_VARIANT);
                        if vi.as_usize() < adt.variants().len() {
                            let v = adt.variant(vi);
                            if f.as_usize() < v.fields.len() {
                                name = js(v.fields[f].name.to_string());
                            }
                        }
                    }
                    J::Obj(vec![
                        ("f", J::Int(f.as_u32() as i128)),
                        ("n", name),
                        ("ty", self.ty(fty)),
                    ])
                }
                ProjectionElem::Downcast(sym, vi) => J::Obj(vec![
                    ("v", J::Int(vi.as_u32() as i128)),
                    ("n", match sym {
                        Some(s) => js(s.to_string()),
                        None => J::Null,
                    }),
                ]),
                ProjectionElem::Index(l) => J::Obj(vec![("idx", J::Int(l.as_u32() as i128))]),
                ProjectionElem::ConstantIndex { offset, min_length, from_end } => J::Obj(vec![
                    ("cidx", J::Int(offset as i128)),
                    ("min", J::Int(min_length as i128)),
                    ("from_end", J::Bool(from_end)),
                ]),
                ProjectionElem::Subslice { from, to, from_end } => J::Obj(vec![
                    ("sub", J::Arr(vec![J::Int(from as i128), J::Int(to as i128)])),
                    ("from_end", J::Bool(from_end)),
                ]),
                ProjectionElem::OpaqueCast(_) => js("opaquecast"),
                ProjectionElem::UnwrapUnsafeBinder(_) => js("unwrapbinder"),
            };
            proj.push(j);
        }
        J::Obj(vec![("l", J::Int(p.local.as_u32() as i128)), ("p", J::Arr(proj))])
    }

    fn generic_args(&self, args: ty::GenericArgsRef<'tcx>) -> J {
        J::Arr(args.iter().map(|a| js(format!("{a}"))).collect())
    }

    fn fn_def(&self, owner: LocalDefId, did: DefId, args: ty::GenericArgsRef<'tcx>) -> Vec<(&'static str, J)> {
        let tcx = self.tcx;
        let mut v = vec![
            ("def", js(self.key(did))),
            ("name", js(self.name(did))),
            ("args", self.generic_args(args)),
        ];
        if let Some(tr) = tcx.trait_of_assoc(did) {
            v.push(("trait", js(self.key(tr))));
        }
        // Try to resolve trait method calls to the selected impl.
        let env = TypingEnv::post_analysis(tcx, owner.to_def_id());
        let resolvable = !args.iter().any(|a| {
            use rustc_middle::ty::TypeVisitableExt;
            a.has_infer() || a.has_escaping_bound_vars()
        });
        if resolvable {
            if let Ok(Some(inst)) = Instance::try_resolve(tcx, env, did, args) {
                let idid = inst.def_id();
                if idid != did {
                    v.push(("inst", js(self.key(idid))));
                    v.push(("inst_name", js(self.name(idid))));
                }
                if let ty::InstanceKind::Virtual(..) = inst.def {
                    v.push(("virtual", J::Bool(true)));
                }
            }
        }
        v
    }

    fn constant(&mut self, owner: LocalDefId, c: &mir::ConstOperand<'tcx>) -> J {
        let tcx = self.tcx;
        let cty = c.const_.ty();
        let mut v: Vec<(&'static str, J)> = vec![("c", js(format!("{}", c.const_))), ("ty", self.ty(cty))];
        match cty.kind() {
            ty::FnDef(did, args) => {
                v.push(("fn", J::Obj(self.fn_def(owner, *did, args))));
            }
            ty::Closure(did, _) | ty::Coroutine(did, _) | ty::CoroutineClosure(did, _) => {
                v.push(("closure", js(self.key(*did))));
            }
            _ => {}
        }
        match c.const_ {
            Const::Val(val, ty) => {
                if let Some(b) = self.const_bytes(val, ty) {
                    v.push(("bytes", b));
                }
                if let ConstValue::Scalar(mir::interpret::Scalar::Int(i)) = val {
                    if ty.is_integral() || ty.is_char() || ty.is_bool() {
                        let bits = i.to_bits(i.size());
                        v.push(("int", J::Int(bits as i128)));
                    }
                }
            }
            Const::Unevaluated(uv, _) => {
                v.push(("named", js(self.key(uv.def))));
                if uv.promoted.is_none() && uv.args.is_empty() && !self.named_consts.contains(&uv.def) {
                    self.named_consts.push(uv.def);
                }
            }
            Const::Ty(_, ct) => {
                if let Some(v2) = ct.try_to_target_usize(tcx) {
                    v.push(("int", J::Int(v2 as i128)));
                }
            }
        }
        J::Obj(v)
    }

    /// Bytes of `&str`, `&[u8]` and `&[u8; N]` constants.
    fn const_bytes(&self, val: ConstValue, ty: Ty<'tcx>) -> Option<J> {
        let tcx = self.tcx;
        let bytes: Vec<u8> = match (val, ty.kind()) {
            (ConstValue::Slice { .. }, ty::Ref(_, inner, _))
                if inner.is_str() || matches!(inner.kind(), ty::Slice(e) if *e == tcx.types.u8) =>
            {
                val.try_get_slice_bytes_for_diagnostics(tcx)?.to_vec()
            }
            (ConstValue::Scalar(mir::interpret::Scalar::Ptr(ptr, _)), ty::Ref(_, inner, _)) => {
                if let ty::Array(e, len) = inner.kind() {
                    if *e != tcx.types.u8 {
                        return None;
                    }
                    let len = len.try_to_target_usize(tcx)? as usize;
                    let (prov, off) = ptr.into_raw_parts();
                    let alloc = tcx.global_alloc(prov.alloc_id());
                    let mem = match alloc {
                        mir::interpret::GlobalAlloc::Memory(m) => m,
                        _ => return None,
                    };
                    let start = off.bytes() as usize;
                    mem.inner()
                        .inspect_with_uninit_and_ptr_outside_interpreter(start..start + len)
                        .to_vec()
                } else {
                    return None;
                }
            }
            _ => return None,
        };
        Some(match String::from_utf8(bytes.clone()) {
            Ok(s) => J::Obj(vec![("s", js(s))]),
            Err(_) => J::Obj(vec![("b", J::Arr(bytes.iter().map(|b| J::Int(*b as i128)).collect()))]),
        })
    }

    fn operand(&mut self, owner: LocalDefId, body: &Body<'tcx>, o: &Operand<'tcx>) -> J {
        match o {
            Operand::Copy(p) => J::Obj(vec![("copy", self.place(body, p))]),
            Operand::Move(p) => J::Obj(vec![("move", self.place(body, p))]),
            Operand::Constant(c) => J::Obj(vec![("const", self.constant(owner, c))]),
            other => J::Obj(vec![("opaque", js(format!("{other:?}")))]),
        }
    }

    fn rvalue(&mut self, owner: LocalDefId, body: &Body<'tcx>, rv: &Rvalue<'tcx>) -> J {
        let tcx = self.tcx;
        match rv {
            Rvalue::Use(o, ..) => J::Obj(vec![("k", js("use")), ("op", self.operand(owner, body, o))]),
            Rvalue::Repeat(o, n) => J::Obj(vec![
                ("k", js("repeat")),
                ("op", self.operand(owner, body, o)),
                ("n", js(format!("{n}"))),
            ]),
            Rvalue::Ref(_, bk, p) => J::Obj(vec![
                ("k", js("ref")),
                ("mut", J::Bool(matches!(bk, mir::BorrowKind::Mut { .. }))),
                ("bk", js(format!("{bk:?}"))),
                ("place", self.place(body, p)),
            ]),
            Rvalue::RawPtr(_, p) => J::Obj(vec![("k", js("rawptr")), ("place", self.place(body, p))]),
            Rvalue::Cast(kind, o, t) => J::Obj(vec![
                ("k", js("cast")),
                ("cast", js(format!("{kind:?}"))),
                ("op", self.operand(owner, body, o)),
                ("ty", self.ty(*t)),
            ]),
            Rvalue::BinaryOp(op, ab) => J::Obj(vec![
                ("k", js("binop")),
                ("op", js(format!("{op:?}"))),
                ("a", self.operand(owner, body, &ab.0)),
                ("b", self.operand(owner, body, &ab.1)),
            ]),
            Rvalue::UnaryOp(op, o) => J::Obj(vec![
                ("k", js("unop")),
                ("op", js(format!("{op:?}"))),
                ("a", self.operand(owner, body, o)),
            ]),
            Rvalue::Discriminant(p) => {
                let pty = p.ty(&body.local_decls, tcx).ty;
                J::Obj(vec![
                    ("k", js("discr")),
                    ("place", self.place(body, p)),
                    ("ty", self.ty(pty)),
                    ("enum", self.adt_variants(pty)),
                ])
            }
            Rvalue::Aggregate(kind, ops) => {
                let mut v: Vec<(&'static str, J)> = vec![("k", js("agg"))];
                match &**kind {
                    AggregateKind::Array(t) => {
                        v.push(("agg", js("array")));
                        v.push(("ty", self.ty(*t)));
                    }
                    AggregateKind::Tuple => v.push(("agg", js("tuple"))),
                    AggregateKind::Adt(did, vi, args, _, active) => {
                        v.push(("agg", js("adt")));
                        v.push(("adt", js(self.key(*did))));
                        v.push(("adt_name", js(self.name(*did))));
                        v.push(("args", self.generic_args(args)));
                        let adt = tcx.adt_def(*did);
                        let var = adt.variant(*vi);
                        v.push(("variant", js(var.name.to_string())));
                        v.push(("vi", J::Int(vi.as_u32() as i128)));
                        v.push((
                            "fields",
                            J::Arr(var.fields.iter().map(|f| js(f.name.to_string())).collect()),
                        ));
                        if let Some(a) = active {
                            v.push(("active", J::Int(a.as_u32() as i128)));
                        }
                    }
                    AggregateKind::Closure(did, _) => {
                        v.push(("agg", js("closure")));
                        v.push(("def", js(self.key(*did))));
                    }
                    AggregateKind::Coroutine(did, _) => {
                        v.push(("agg", js("coroutine")));
                        v.push(("def", js(self.key(*did))));
                    }
                    AggregateKind::CoroutineClosure(did, _) => {
                        v.push(("agg", js("coroutine_closure")));
                        v.push(("def", js(self.key(*did))));
                    }
                    AggregateKind::RawPtr(..) => v.push(("agg", js("rawptr"))),
                }
                let ops_j: Vec<J> = ops.iter().map(|o| self.operand(owner, body, o)).collect();
                v.push(("ops", J::Arr(ops_j)));
                J::Obj(v)
            }
            Rvalue::CopyForDeref(p) => J::Obj(vec![
                ("k", js("use")),
                ("op", J::Obj(vec![("copy", self.place(body, p))])),
            ]),
            other => J::Obj(vec![("k", js("opaque")), ("text", js(format!("{other:?}")))]),
        }
    }

    fn body(&mut self, ldid: LocalDefId, body: &Body<'tcx>) -> J {
        let tcx = self.tcx;
        // locals
        let mut names: HashMap<u32, String> = HashMap::new();
        for vdi in &body.var_debug_info {
            if let mir::VarDebugInfoContents::Place(p) = vdi.value {
                if p.projection.is_empty() {
                    names.entry(p.local.as_u32()).or_insert_with(|| vdi.name.to_string());
                }
            }
        }
        let mut locals = Vec::new();
        for (l, decl) in body.local_decls.iter_enumerated() {
            locals.push(J::Obj(vec![
                ("ty", self.ty(decl.ty)),
                ("name", match names.get(&l.as_u32()) {
                    Some(n) => js(n.clone()),
                    None => J::Null,
                }),
                ("user", J::Bool(decl.is_user_variable())),
            ]));
        }
        // upvar debuginfo for closures: name -> projection on _1
        let mut upvars = Vec::new();
        for vdi in &body.var_debug_info {
            if let mir::VarDebugInfoContents::Place(p) = vdi.value {
                if !p.projection.is_empty() {
                    upvars.push(J::Obj(vec![("name", js(vdi.name.to_string())), ("place", self.place(body, &p))]));
                }
            }
        }
        let mut blocks = Vec::new();
        for (_bb, data) in body.basic_blocks.iter_enumerated() {
            let mut stmts = Vec::new();
            for st in &data.statements {
                let sp = st.source_info.span;
                match &st.kind {
                    StatementKind::Assign(b) => {
                        let (p, rv) = &**b;
                        let place = self.place(body, p);
                        let rv = self.rvalue(ldid, body, rv);
                        let span = self.span(sp);
                        stmts.push(J::Obj(vec![("k", js("assign")), ("place", place), ("rv", rv), ("span", span)]));
                    }
                    StatementKind::SetDiscriminant { place, variant_index } => {
                        let pj = self.place(body, place);
                        let span = self.span(sp);
                        stmts.push(J::Obj(vec![
                            ("k", js("setdiscr")),
                            ("place", pj),
                            ("vi", J::Int(variant_index.as_u32() as i128)),
                            ("span", span),
                        ]));
                    }
                    StatementKind::Intrinsic(i) => {
                        let span = self.span(sp);
                        stmts.push(J::Obj(vec![("k", js("intrinsic")), ("text", js(format!("{i:?}"))), ("span", span)]));
                    }
                    // FakeRead / StorageLive / StorageDead / PlaceMention / AscribeUserType /
                    // Coverage / Nop / ConstEvalCounter / BackwardIncompatibleDropHint carry no
                    // data flow.
                    _ => {}
                }
            }
            let term = data.terminator();
            let tspan = self.span(term.source_info.span);
            let bbi = |b: BasicBlock| J::Int(b.as_u32() as i128);
            let unwind = |u: &mir::UnwindAction| match u {
                mir::UnwindAction::Cleanup(b) => J::Int(b.as_u32() as i128),
                _ => J::Null,
            };
            let t = match &term.kind {
                TerminatorKind::Goto { target } => J::Obj(vec![("k", js("goto")), ("target", bbi(*target))]),
                TerminatorKind::FalseEdge { real_target, .. } => {
                    J::Obj(vec![("k", js("goto")), ("target", bbi(*real_target)), ("false_edge", J::Bool(true))])
                }
                TerminatorKind::FalseUnwind { real_target, .. } => {
                    J::Obj(vec![("k", js("goto")), ("target", bbi(*real_target)), ("false_unwind", J::Bool(true))])
                }
                TerminatorKind::SwitchInt { discr, targets } => {
                    let d = self.operand(ldid, body, discr);
                    let dty = discr.ty(&body.local_decls, tcx);
                    let mut ts = Vec::new();
                    for (val, bb) in targets.iter() {
                        ts.push(J::Arr(vec![J::Int(val as i128), bbi(bb)]));
                    }
                    J::Obj(vec![
                        ("k", js("switch")),
                        ("discr", d),
                        ("ty", self.ty(dty)),
                        ("targets", J::Arr(ts)),
                        ("otherwise", bbi(targets.otherwise())),
                    ])
                }
                TerminatorKind::Return => J::Obj(vec![("k", js("return"))]),
                TerminatorKind::Unreachable => J::Obj(vec![("k", js("unreachable"))]),
                TerminatorKind::UnwindResume => J::Obj(vec![("k", js("resume"))]),
                TerminatorKind::UnwindTerminate(_) => J::Obj(vec![("k", js("abort"))]),
                TerminatorKind::CoroutineDrop => J::Obj(vec![("k", js("coroutine_drop"))]),
                TerminatorKind::Drop { place, target, unwind: u, .. } => J::Obj(vec![
                    ("k", js("drop")),
                    ("place", self.place(body, place)),
                    ("target", bbi(*target)),
                    ("unwind", unwind(u)),
                ]),
                TerminatorKind::Call { func, args, destination, target, unwind: u, fn_span, .. } => {
                    let f = self.operand(ldid, body, func);
                    let a: Vec<J> = args.iter().map(|a| self.operand(ldid, body, &a.node)).collect();
                    let fty = func.ty(&body.local_decls, tcx);
                    J::Obj(vec![
                        ("k", js("call")),
                        ("func", f),
                        ("fty", self.ty(fty)),
                        ("args", J::Arr(a)),
                        ("dest", self.place(body, destination)),
                        ("target", match target {
                            Some(t) => bbi(*t),
                            None => J::Null,
                        }),
                        ("unwind", unwind(u)),
                        ("fn_span", self.span(*fn_span)),
                    ])
                }
                TerminatorKind::TailCall { func, args, .. } => {
                    let f = self.operand(ldid, body, func);
                    let a: Vec<J> = args.iter().map(|a| self.operand(ldid, body, &a.node)).collect();
                    J::Obj(vec![("k", js("tailcall")), ("func", f), ("args", J::Arr(a))])
                }
                TerminatorKind::Assert { cond, expected, msg, target, unwind: u } => {
                    let kind = match &**msg {
                        mir::AssertKind::BoundsCheck { .. } => "bounds".to_string(),
                        mir::AssertKind::Overflow(op, ..) => format!("overflow:{op:?}"),
                        mir::AssertKind::OverflowNeg(_) => "overflow:Neg".to_string(),
                        mir::AssertKind::DivisionByZero(_) => "div_zero".to_string(),
                        mir::AssertKind::RemainderByZero(_) => "rem_zero".to_string(),
                        mir::AssertKind::ResumedAfterReturn(_) => "resumed_after_return".to_string(),
                        mir::AssertKind::ResumedAfterPanic(_) => "resumed_after_panic".to_string(),
                        mir::AssertKind::ResumedAfterDrop(_) => "resumed_after_drop".to_string(),
                        mir::AssertKind::MisalignedPointerDereference { .. } => "misaligned".to_string(),
                        mir::AssertKind::NullPointerDereference => "null_deref".to_string(),
                        mir::AssertKind::InvalidEnumConstruction(_) => "invalid_enum".to_string(),
                    };
                    let mut ops = Vec::new();
                    match &**msg {
                        mir::AssertKind::BoundsCheck { len, index } => {
                            ops.push(self.operand(ldid, body, len));
                            ops.push(self.operand(ldid, body, index));
                        }
                        mir::AssertKind::Overflow(_, a, b) => {
                            ops.push(self.operand(ldid, body, a));
                            ops.push(self.operand(ldid, body, b));
                        }
                        mir::AssertKind::OverflowNeg(a)
                        | mir::AssertKind::DivisionByZero(a)
                        | mir::AssertKind::RemainderByZero(a) => {
                            ops.push(self.operand(ldid, body, a));
                        }
                        _ => {}
                    }
                    J::Obj(vec![
                        ("k", js("assert")),
                        ("cond", self.operand(ldid, body, cond)),
                        ("expected", J::Bool(*expected)),
                        ("kind", js(kind)),
                        ("ops", J::Arr(ops)),
                        ("target", bbi(*target)),
                        ("unwind", unwind(u)),
                    ])
                }
                TerminatorKind::Yield { value, resume, resume_arg, drop } => J::Obj(vec![
                    ("k", js("yield")),
                    ("value", self.operand(ldid, body, value)),
                    ("target", bbi(*resume)),
                    ("resume_arg", self.place(body, resume_arg)),
                    ("drop", match drop {
                        Some(d) => bbi(*d),
                        None => J::Null,
                    }),
                ]),
                TerminatorKind::InlineAsm { .. } => J::Obj(vec![("k", js("asm"))]),
            };
            blocks.push(J::Obj(vec![
                ("s", J::Arr(stmts)),
                ("t", t),
                ("ts", tspan),
                ("cleanup", J::Bool(data.is_cleanup)),
            ]));
        }
        J::Obj(vec![
            ("argc", J::Int(body.arg_count as i128)),
            ("locals", J::Arr(locals)),
            ("upvars", J::Arr(upvars)),
            ("blocks", J::Arr(blocks)),
        ])
    }

    fn impl_info(&self, impl_did: DefId) -> J {
        let tcx = self.tcx;
        let self_ty = tcx.type_of(impl_did).instantiate_identity().skip_norm_wip();
        let mut v: Vec<(&'static str, J)> = vec![
            ("impl", js(self.key(impl_did))),
            ("self", self.ty(self_ty)),
            ("derived", J::Bool(tcx.is_automatically_derived(impl_did))),
        ];
        if let ty::Adt(adt, _) = self_ty.kind() {
            v.push(("self_adt", js(self.key(adt.did()))));
        }
        if let ty::Tuple(ts) = self_ty.kind() {
            v.push(("self_tuple_arity", J::Int(ts.len() as i128)));
        }
        if let Some(tr) = tcx.impl_opt_trait_ref(impl_did) {
            let tr = tr.instantiate_identity().skip_norm_wip();
            v.push(("trait", js(self.key(tr.def_id))));
            v.push(("trait_name", js(self.name(tr.def_id))));
            v.push(("trait_ref", js(format!("{tr}"))));
            v.push(("trait_args", self.generic_args(tr.args)));
        }
        J::Obj(v)
    }
}

fn export(tcx: TyCtxt<'_>) {
    let crate_name = tcx.crate_name(rustc_hir::def_id::LOCAL_CRATE).to_string();
    let out_dir = match std::env::var("MPDFACTS_OUT") {
        Ok(d) => d,
        Err(_) => return,
    };
    let only = std::env::var("MPDFACTS_CRATES").unwrap_or_else(|_| "mpd_protocol,mpd_client".into());
    if !only.split(',').any(|c| c == crate_name) {
        return;
    }
    let run = std::env::var("MPDFACTS_RUN").unwrap_or_default();
    let cfg = std::env::var("MPDFACTS_CFG").unwrap_or_default();

    let mut cx = Ctx {
        tcx,
        files: Vec::new(),
        file_idx: HashMap::new(),
        exps: Vec::new(),
        exp_idx: HashMap::new(),
        named_consts: Vec::new(),
    };

    // Anonymous constants (array lengths, const-generic defaults) carry no behaviour and asking
    // for their MIR this early trips a delayed bug in rustc; skip them.
    let owners: Vec<LocalDefId> = tcx
        .hir_body_owners()
        .filter(|l| !matches!(tcx.def_kind(l.to_def_id()), DefKind::AnonConst))
        .collect();
    let mut bodies = Vec::new();
    // Pass 0: clone every body's MIR as built, before any other query can steal it
    // (resolving instances or printing opaque types may run borrowck, which steals `mir_built`).
    let cloned: Vec<(LocalDefId, Body<'_>)> =
        owners.iter().map(|&l| (l, tcx.mir_built(l).borrow().clone())).collect();
    // Pass 1: convert.
    for (ldid, body) in &cloned {
        let ldid = *ldid;
        let did = ldid.to_def_id();
        let kind = tcx.def_kind(did);
        let mir_j = cx.body(ldid, body);
        let root = tcx.typeck_root_def_id(did);
        let parent = if tcx.is_typeck_child(did) { js(cx.key(tcx.parent(did))) } else { J::Null };
        let (is_pub, exported) = match kind {
            DefKind::Fn | DefKind::AssocFn => {
                (tcx.visibility(did).is_public(), tcx.effective_visibilities(()).is_reachable(ldid))
            }
            _ => (false, false),
        };
        let coroutine = match tcx.coroutine_kind(did) {
            Some(k) => js(format!("{k:?}")),
            None => J::Null,
        };
        let imp = match tcx.impl_of_assoc(root) {
            Some(i) => cx.impl_info(i),
            None => J::Null,
        };
        let span = cx.span(tcx.def_span(did));
        let mut v: Vec<(&'static str, J)> = vec![
            ("id", js(cx.key(did))),
            ("name", js(cx.name(did))),
            ("kind", js(format!("{kind:?}"))),
            ("root", js(cx.key(root))),
            ("parent", parent),
            ("pub", J::Bool(is_pub)),
            ("exported", J::Bool(exported)),
            ("coroutine", coroutine),
            ("impl", imp),
            ("span", span),
            ("derived", J::Bool(tcx.is_automatically_derived(root) || tcx.impl_of_assoc(root).map_or(false, |i| tcx.is_automatically_derived(i)))),
            ("mir", mir_j),
        ];
        if matches!(kind, DefKind::Fn | DefKind::AssocFn) {
            let sig = tcx.fn_sig(did).instantiate_identity().skip_norm_wip();
            v.push(("sig", js(format!("{sig}"))));
        }
        bodies.push((ldid, v));
    }

    // Pass 2: queries that may steal mir_built.
    let mut bodies_j = Vec::new();
    for (ldid, mut v) in bodies {
        let did = ldid.to_def_id();
        if tcx.is_coroutine(did) {
            if let Some(layout) = tcx.mir_coroutine_witnesses(did) {
                let mut w = Vec::new();
                for (i, f) in layout.field_tys.iter_enumerated() {
                    let name = match layout.field_names.get(i) {
                        Some(Some(s)) => js(s.to_string()),
                        _ => J::Null,
                    };
                    let span = cx.span(f.source_info.span);
                    w.push(J::Obj(vec![
                        ("ty", cx.ty(f.ty)),
                        ("name", name),
                        ("ignore_for_traits", J::Bool(f.ignore_for_traits)),
                        ("span", span),
                    ]));
                }
                v.push(("witness", J::Arr(w)));
            }
        }
        bodies_j.push(J::Obj(v));
    }

    // named constants
    let mut consts = Vec::new();
    let named = std::mem::take(&mut cx.named_consts);
    for did in named {
        let ty = tcx.type_of(did).instantiate_identity().skip_norm_wip();
        let mut v: Vec<(&'static str, J)> = vec![("def", js(cx.key(did))), ("ty", cx.ty(ty))];
        if let Ok(val) = tcx.const_eval_poly(did) {
            v.push(("c", js(format!("{}", Const::Val(val, ty)))));
            if let Some(b) = cx.const_bytes(val, ty) {
                v.push(("bytes", b));
            }
            if let ConstValue::Scalar(mir::interpret::Scalar::Int(i)) = val {
                if ty.is_integral() || ty.is_char() || ty.is_bool() {
                    v.push(("int", J::Int(i.to_bits(i.size()) as i128)));
                }
            }
        }
        consts.push(J::Obj(v));
    }

    // ADTs and impls
    let mut adts = Vec::new();
    let mut impls = Vec::new();
    let mut fns = Vec::new();
    for ldid in tcx.hir_crate_items(()).definitions() {
        let did = ldid.to_def_id();
        match tcx.def_kind(did) {
            DefKind::Struct | DefKind::Enum | DefKind::Union => {
                let adt = tcx.adt_def(did);
                let mut vars = Vec::new();
                for (vi, var) in adt.variants().iter_enumerated() {
                    let mut fields = Vec::new();
                    for f in &var.fields {
                        let fty = tcx.type_of(f.did).instantiate_identity().skip_norm_wip();
                        fields.push(J::Obj(vec![
                            ("name", js(f.name.to_string())),
                            ("ty", cx.ty(fty)),
                            ("pub", J::Bool(f.vis.is_public())),
                            ("vis", js(format!("{:?}", f.vis))),
                        ]));
                    }
                    vars.push(J::Obj(vec![
                        ("name", js(var.name.to_string())),
                        ("idx", J::Int(vi.as_u32() as i128)),
                        ("fields", J::Arr(fields)),
                    ]));
                }
                let span = cx.span(tcx.def_span(did));
                adts.push(J::Obj(vec![
                    ("id", js(cx.key(did))),
                    ("name", js(cx.name(did))),
                    ("kind", js(format!("{:?}", tcx.def_kind(did)))),
                    ("pub", J::Bool(tcx.visibility(did).is_public())),
                    ("exported", J::Bool(tcx.effective_visibilities(()).is_reachable(ldid))),
                    ("variants", J::Arr(vars)),
                    ("span", span),
                ]));
            }
            DefKind::Impl { .. } => {
                let mut items = Vec::new();
                for &it in tcx.associated_item_def_ids(did) {
                    items.push(J::Obj(vec![
                        ("def", js(cx.key(it))),
                        ("name", js(tcx.item_name(it).to_string())),
                        ("kind", js(format!("{:?}", tcx.def_kind(it)))),
                    ]));
                }
                let info = cx.impl_info(did);
                let span = cx.span(tcx.def_span(did));
                impls.push(J::Obj(vec![("info", info), ("items", J::Arr(items)), ("span", span)]));
            }
            DefKind::Fn | DefKind::AssocFn => {
                // signature table also for bodiless trait methods
                let sig = tcx.fn_sig(did).instantiate_identity().skip_norm_wip();
                fns.push(J::Obj(vec![
                    ("id", js(cx.key(did))),
                    ("name", js(cx.name(did))),
                    ("sig", js(format!("{sig}"))),
                    ("pub", J::Bool(tcx.visibility(did).is_public())),
                    ("exported", J::Bool(tcx.effective_visibilities(()).is_reachable(ldid))),
                ]));
            }
            _ => {}
        }
    }

    let root = J::Obj(vec![
        ("crate", js(crate_name.clone())),
        ("run", js(run)),
        ("cfg", js(cfg.clone())),
        ("files", J::Arr(cx.files.iter().map(|f| js(f.clone())).collect())),
        ("exps", J::Arr(std::mem::take(&mut cx.exps))),
        ("consts", J::Arr(consts)),
        ("adts", J::Arr(adts)),
        ("impls", J::Arr(impls)),
        ("fns", J::Arr(fns)),
        ("bodies", J::Arr(bodies_j)),
    ]);
    let mut s = String::new();
    write_json(&root, &mut s);
    let path = format!("{out_dir}/{crate_name}.{cfg}.json");
    let tmp = format!("{path}.tmp{}", std::process::id());
    std::fs::write(&tmp, s).expect("mpdfacts: cannot write fact file");
    std::fs::rename(&tmp, &path).expect("mpdfacts: cannot rename fact file");
}

struct Cb;

impl rustc_driver::Callbacks for Cb {
    fn after_expansion<'tcx>(&mut self, _c: &Compiler, tcx: TyCtxt<'tcx>) -> Compilation {
        with_no_trimmed_paths!(with_no_visible_paths!(with_crate_prefix!(export(tcx))));
        Compilation::Continue
    }
}

fn main() {
    let mut args: Vec<String> = std::env::args().collect();
    // RUSTC_WORKSPACE_WRAPPER: argv[1] is the real rustc
    if args.len() > 1 {
        args.remove(1);
    }
    rustc_driver::run_compiler(&args, &mut Cb);
}
