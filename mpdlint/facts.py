"""Loading of the fact files written by the mpdfacts exporter and basic accessors.

A `Program` holds the facts of one build configuration (all workspace crates).
"""
import json
import os
import re


class Body:
    __slots__ = ("prog", "raw", "id", "name", "kind", "root", "parent", "mir", "blocks",
                 "locals", "crate", "impl", "witness", "children", "_succ", "_pred", "span")

    def __init__(self, prog, raw, crate):
        self.prog = prog
        self.raw = raw
        self.id = raw["id"]
        self.name = raw["name"]
        self.kind = raw["kind"]
        self.root = raw["root"]
        self.parent = raw["parent"]
        self.mir = raw["mir"]
        self.blocks = self.mir["blocks"]
        self.locals = self.mir["locals"]
        self.crate = crate
        self.impl = raw.get("impl")
        self.witness = raw.get("witness")
        self.children = []
        self._succ = None
        self._pred = None
        self.span = raw.get("span")

    # ---- CFG -------------------------------------------------------------------------------
    def term(self, bb):
        return self.blocks[bb]["t"]

    def succ(self, bb, unwind=False):
        """Successor blocks of `bb` (normal control flow; unwind edges only on request)."""
        t = self.blocks[bb]["t"]
        k = t["k"]
        out = []
        if k == "goto":
            out = [t["target"]]
        elif k == "switch":
            out = [x[1] for x in t["targets"]] + [t["otherwise"]]
            # `if false { loop {} }` type-hint blocks emitted by #[tracing::instrument]: a switch on a
            # constant assigned in the same block has one feasible successor
            cv = self._const_switch_value(bb, t)
            if cv is not None:
                hit = [x[1] for x in t["targets"] if x[0] == cv]
                out = [hit[0]] if hit else [t["otherwise"]]
        elif k in ("call", "drop", "assert"):
            if t.get("target") is not None:
                out = [t["target"]]
        elif k == "yield":
            out = [t["target"]]
        if unwind and t.get("unwind") is not None:
            out = out + [t["unwind"]]
        if unwind and k == "yield" and t.get("drop") is not None:
            out = out + [t["drop"]]
        # de-duplicate, keep order
        seen = []
        for b in out:
            if b not in seen:
                seen.append(b)
        return seen

    def _const_switch_value(self, bb, t):
        d = t["discr"]
        if "const" in d:
            return d["const"].get("int")
        p = d.get("move") or d.get("copy")
        if p is None or p["p"]:
            return None
        val = None
        for s in self.blocks[bb]["s"]:
            if s["k"] == "assign" and s["place"]["l"] == p["l"] and not s["place"]["p"]:
                rv = s["rv"]
                if rv["k"] == "use" and "const" in rv["op"] and rv["op"]["const"].get("int") is not None:
                    val = rv["op"]["const"]["int"]
                else:
                    val = None
        return val

    def succs(self):
        if self._succ is None:
            self._succ = [self.succ(i) for i in range(len(self.blocks))]
        return self._succ

    def preds(self):
        if self._pred is None:
            p = [[] for _ in self.blocks]
            for i, ss in enumerate(self.succs()):
                for s in ss:
                    p[s].append(i)
            self._pred = p
        return self._pred

    def reachable(self, start=0):
        seen = {start}
        st = [start]
        sc = self.succs()
        while st:
            b = st.pop()
            for s in sc[b]:
                if s not in seen:
                    seen.add(s)
                    st.append(s)
        return seen

    # ---- helpers ---------------------------------------------------------------------------
    def local_ty(self, l):
        return self.locals[l]["ty"]

    def local_name(self, l):
        return self.locals[l]["name"]

    def loc(self, span):
        return self.prog.loc(self.crate, span)

    def calls(self):
        """Yield (bb, terminator) for every call terminator reachable on normal edges."""
        for bb in sorted(self.reachable()):
            t = self.blocks[bb]["t"]
            if t["k"] == "call":
                yield bb, t

    def stmts(self):
        for bb in sorted(self.reachable()):
            for i, s in enumerate(self.blocks[bb]["s"]):
                yield bb, i, s


class Program:
    """Facts of one configuration."""

    def __init__(self, cfg, files):
        self.cfg = cfg
        self.crates = {}
        self.bodies = {}
        self.adts = {}
        self.impls = []
        self.fns = {}
        self.consts = {}
        for f in files:
            with open(f) as fh:
                text = fh.read()
            m = re.search(r'"crate":"([A-Za-z0-9_]+)"', text[:200])
            # local paths are printed as `crate::…`; make them crate-qualified like foreign ones
            text = re.sub(r'(?<![A-Za-z0-9_])crate::', m.group(1) + "::", text)
            raw = json.loads(text)
            c = raw["crate"]
            self.crates[c] = raw
            for b in raw["bodies"]:
                self.bodies[b["id"]] = Body(self, b, c)
            for a in raw["adts"]:
                self.adts[a["id"]] = a
            for i in raw["impls"]:
                i["crate"] = c
                self.impls.append(i)
            for fn in raw["fns"]:
                self.fns[fn["id"]] = fn
            for k in raw["consts"]:
                self.consts[k["def"]] = k
                NAMED_CONSTS[k["def"]] = k
        for b in self.bodies.values():
            if b.parent and b.parent in self.bodies:
                self.bodies[b.parent].children.append(b.id)

    def loc(self, crate, span):
        if not span:
            return "?"
        raw = self.crates[crate]
        f = raw["files"][span[0]]
        s = "%s:%d" % (f, span[1])
        if span[3] >= 0:
            chain = raw["exps"][span[3]]
            outer = chain[-1]
            s += " (in %s, expanded at %s:%d)" % (
                chain[0]["m"], raw["files"][outer["cs"][0]], outer["cs"][1])
        return s

    def exp_chain(self, crate, span):
        """Macro expansion chain of a span: list of (macro, defining crate); [] for user code."""
        if not span or span[3] < 0:
            return []
        raw = self.crates[crate]
        return [(e["m"], e["crate"]) for e in raw["exps"][span[3]]]

    def body(self, id_):
        return self.bodies.get(id_)

    def find_bodies(self, pred):
        return [b for b in self.bodies.values() if pred(b)]

    def root_of(self, body):
        return self.bodies.get(body.root, body)

    def family(self, root_id):
        """All bodies (closures, coroutines) whose typeck root is `root_id`, incl. itself."""
        return [b for b in self.bodies.values() if b.root == root_id]

    def impls_of(self, trait_suffix):
        """Impl records whose trait def key ends with `trait_suffix` (e.g. 'commands::Command')."""
        out = []
        for i in self.impls:
            t = i["info"].get("trait")
            if t and (t == trait_suffix or t.endswith("::" + trait_suffix)):
                out.append(i)
        return out


# ---- operand / place helpers ---------------------------------------------------------------

def op_place(op):
    """Place of a copy/move operand or None."""
    if op is None:
        return None
    if "copy" in op:
        return op["copy"]
    if "move" in op:
        return op["move"]
    return None


NAMED_CONSTS = {}      # def path -> exported constant record (filled when a Program is loaded)


_ESC = {"n": 10, "r": 13, "t": 9, "0": 0, "\\": 92, "'": 39, '"': 34}


def _char_value(text):
    """code point of a Rust char literal as printed by rustc (`'a'`, `'\\n'`, `'\\u{7f}'`), or None"""
    if len(text) < 3 or text[0] != "'" or text[-1] != "'":
        return None
    body = text[1:-1]
    if len(body) == 1:
        return ord(body)
    if body.startswith("\\u{") and body.endswith("}"):
        try:
            return int(body[3:-1], 16)
        except ValueError:
            return None
    if len(body) == 2 and body[0] == "\\":
        return _ESC.get(body[1])
    return None


def op_const(op):
    if op is not None and "const" in op:
        c = op["const"]
        # a named constant of the workspace (`LINE_TERMINATOR`, `COMMAND_LIST_PREFIX`): its value is in the program's constant
        # table — an operand that names it is that value
        nv = NAMED_CONSTS.get(c.get("named")) if c.get("named") else None
        if nv is not None:
            for k in ("int", "bytes"):
                if c.get(k) is None and nv.get(k) is not None:
                    c[k] = nv[k]
        # constants of range patterns (`'a'..='z'`) are exported without their scalar value: recover it from the literal
        if c.get("ty") == "char" and c.get("int") is None and isinstance(c.get("c"), str):
            v = _char_value(c["c"])
            if v is not None:
                c["int"] = v
        return c
    return None


def op_local(op):
    """Local index when the operand is a bare local, else None."""
    p = op_place(op)
    if p is not None and not p["p"]:
        return p["l"]
    return None


def parse_rust_literal(text):
    """Value of a Rust string / byte-string literal as printed by rustc (`"a\\n"`, `b"OK\\n"`)."""
    t = text.strip()
    if t.startswith("const "):
        t = t[6:]
    is_bytes = t.startswith('b"')
    if is_bytes:
        t = t[1:]
    if len(t) < 2 or t[0] != '"' or t[-1] != '"':
        return None
    t = t[1:-1]
    out = []
    i = 0
    simple = {"n": "\n", "t": "\t", "r": "\r", "0": "\0", "\\": "\\", '"': '"', "'": "'"}
    while i < len(t):
        ch = t[i]
        if ch != "\\":
            out.append(ch)
            i += 1
            continue
        if i + 1 >= len(t):
            return None
        e = t[i + 1]
        if e in simple:
            out.append(simple[e])
            i += 2
        elif e == "x" and i + 3 < len(t) + 1:
            out.append(chr(int(t[i + 2:i + 4], 16)))
            i += 4
        elif e == "u" and t[i + 2:i + 3] == "{":
            j = t.index("}", i)
            out.append(chr(int(t[i + 3:j], 16)))
            i = j + 1
        else:
            return None
    return "".join(out)


def const_str(c):
    """String value of a &str/&[u8] constant, or None."""
    if c is None:
        return None
    b = c.get("bytes")
    if b is None:
        ty = c.get("ty", "")
        if ty.endswith("str") or "[u8" in ty:
            return parse_rust_literal(c.get("c", ""))
        return None
    if "s" in b:
        return b["s"]
    return bytes(b["b"]).decode("latin-1")


def const_int(c):
    if c is None:
        return None
    return c.get("int")


def callee(t):
    """(def key, pretty name, fn-record) of a call terminator with a statically known callee."""
    c = op_const(t["func"])
    if c is None or "fn" not in c:
        return None
    return c["fn"]


def callee_name(t):
    f = callee(t)
    return f["name"] if f else None


def strip_generics(name):
    """Remove `::<...>` generic argument lists from a pretty def path."""
    out = []
    depth = 0
    i = 0
    while i < len(name):
        ch = name[i]
        if ch == "<":
            # `::<` opens generic args; `<impl ...>`/`<T as Trait>` also use <>; drop all
            depth += 1
            # remove a preceding '::'
            if depth == 1 and len(out) >= 2 and out[-1] == ":" and out[-2] == ":" and False:
                pass
        elif ch == ">":
            depth -= 1
        elif depth == 0:
            out.append(ch)
        i += 1
    s = "".join(out)
    s = re.sub(r"::(::)+", "::", s)
    return s


def place_str(body, p):
    s = "_%d" % p["l"]
    n = body.locals[p["l"]]["name"]
    if n:
        s += "{%s}" % n
    for e in p["p"]:
        if e == "*":
            s = "(*%s)" % s
        elif isinstance(e, dict):
            if "f" in e:
                s += ".%s" % (e["n"] if e["n"] is not None else e["f"])
            elif "v" in e:
                s += " as %s" % (e["n"] if e["n"] is not None else e["v"])
            elif "idx" in e:
                s += "[_%d]" % e["idx"]
            elif "cidx" in e:
                s += "[%s%d]" % ("-" if e["from_end"] else "", e["cidx"])
            elif "sub" in e:
                s += "[%d..%d]" % tuple(e["sub"])
        else:
            s += "<%s>" % e
    return s


def op_str(body, o):
    if o is None:
        return "?"
    if "copy" in o:
        return place_str(body, o["copy"])
    if "move" in o:
        return "move " + place_str(body, o["move"])
    if "const" in o:
        c = o["const"]
        if "fn" in c:
            return "fn " + c["fn"]["name"]
        return c["c"]
    return str(o)


def rv_str(body, rv):
    k = rv["k"]
    if k == "use":
        return op_str(body, rv["op"])
    if k == "ref":
        return ("&mut " if rv["mut"] else "&") + place_str(body, rv["place"])
    if k == "discr":
        return "discriminant(%s)" % place_str(body, rv["place"])
    if k == "binop":
        return "%s(%s, %s)" % (rv["op"], op_str(body, rv["a"]), op_str(body, rv["b"]))
    if k == "unop":
        return "%s(%s)" % (rv["op"], op_str(body, rv["a"]))
    if k == "cast":
        return "%s as %s [%s]" % (op_str(body, rv["op"]), rv["ty"], rv["cast"])
    if k == "agg":
        a = rv["agg"]
        ops = ", ".join(op_str(body, o) for o in rv["ops"])
        if a == "adt":
            return "%s::%s{%s}" % (rv["adt_name"], rv["variant"], ops)
        if a in ("closure", "coroutine", "coroutine_closure"):
            return "%s[%s](%s)" % (a, rv["def"], ops)
        return "%s(%s)" % (a, ops)
    if k == "repeat":
        return "[%s; %s]" % (op_str(body, rv["op"]), rv["n"])
    if k == "rawptr":
        return "&raw " + place_str(body, rv["place"])
    return rv.get("text", k)


def dump_body(body, out=None):
    import sys
    out = out or sys.stdout
    w = out.write
    w("== %s  [%s] kind=%s coroutine=%s\n" % (body.id, body.name, body.kind, body.raw.get("coroutine")))
    for i, l in enumerate(body.locals):
        w("   let _%d: %s%s\n" % (i, l["ty"], ("  // " + l["name"]) if l["name"] else ""))
    for bb, blk in enumerate(body.blocks):
        w(" bb%d%s:\n" % (bb, " (cleanup)" if blk["cleanup"] else ""))
        for s in blk["s"]:
            if s["k"] == "assign":
                exp = "" if not s["span"] or s["span"][3] < 0 else "  [exp]"
                w("    %s = %s%s\n" % (place_str(body, s["place"]), rv_str(body, s["rv"]), exp))
            else:
                w("    %s\n" % s["k"])
        t = blk["t"]
        k = t["k"]
        exp = "" if not blk["ts"] or blk["ts"][3] < 0 else "  [exp %s]" % body.prog.exp_chain(body.crate, blk["ts"])[0][0]
        if k == "call":
            w("    %s = %s(%s) -> bb%s unwind %s   @%s%s\n" % (
                place_str(body, t["dest"]), op_str(body, t["func"]),
                ", ".join(op_str(body, a) for a in t["args"]), t["target"], t["unwind"],
                blk["ts"][1] if blk["ts"] else "?", exp))
            f = callee(t)
            if f and "inst_name" in f:
                w("        -> resolved %s\n" % f["inst_name"])
        elif k == "switch":
            w("    switchInt(%s) -> %s otherwise bb%d%s\n" % (
                op_str(body, t["discr"]), ", ".join("%d: bb%d" % (v, b) for v, b in t["targets"]),
                t["otherwise"], exp))
        elif k == "goto":
            w("    goto bb%d\n" % t["target"])
        elif k == "drop":
            w("    drop(%s) -> bb%d\n" % (place_str(body, t["place"]), t["target"]))
        elif k == "assert":
            w("    assert(%s == %s, %s) -> bb%d\n" % (op_str(body, t["cond"]), t["expected"], t["kind"], t["target"]))
        elif k == "yield":
            w("    %s = yield(%s) -> bb%d\n" % (place_str(body, t["resume_arg"]), op_str(body, t["value"]), t["target"]))
        else:
            w("    %s\n" % k)


def load_program(cfg, directory):
    files = sorted(
        os.path.join(directory, f) for f in os.listdir(directory) if f.endswith(".%s.json" % cfg))
    if not files:
        raise FileNotFoundError("no fact files for configuration %s in %s" % (cfg, directory))
    return Program(cfg, files)
