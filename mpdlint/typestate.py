"""A4 — wire-protocol typestate interpreter over the MIR of the client's connection loop, and
A9 — inventory of futures that may be dropped before completion (DESIGN.md §3).

The loop is a single task, so scheduling non-determinism appears only as CFG branching (which
select branch completed, timeout or not, channel closed or not, Ok or Err of an operation).
Exhausting (block x abstract state) therefore covers every schedule of the loop with respect to
what it writes and in which state it continues.
"""
import re

from .callgraph import norm
from .common import callee_names, const_value_of, family
from .facts import callee, op_const, op_local, op_place

AC = "mpd_protocol::connection::AsyncConnection::"
RECV = "tokio::sync::mpsc::unbounded::UnboundedReceiver::recv"
EVSEND = "tokio::sync::mpsc::unbounded::UnboundedSender::send"
ONESEND = "tokio::sync::oneshot::Sender::send"
TIMEOUT = "tokio::time::timeout::timeout"
INTO_FUTURE = "core::future::into_future::IntoFuture::into_future"
INSTRUMENT = {"tracing::instrument::Instrument::instrument", "tracing::instrument::Instrument::in_current_span"}
CMDNEW = {"mpd_protocol::command::Command::new", "mpd_protocol::command::Command::build"}

# documented cancel-safe external futures (one line of reason each)
CANCEL_SAFE_EXTERNAL = {
    RECV: "tokio docs: `recv` is cancel safe — if dropped before completion no message has been taken out of the channel",
    "tokio::sync::oneshot::Sender::closed": "only observes the channel state, consumes nothing",
    "tokio::time::sleep::sleep": "timer only",
}
# types that own input already removed from the connection's persistent receive buffer
CARRIERS = ("ResponseBuilder", "ResponseState", "mpd_protocol::response::Response", "mpd_protocol::response::frame::Frame",
            "mpd_protocol::parser::ParsedComponent")


class AbsState:
    __slots__ = ("wire", "ls", "closed", "pending", "qclosed")

    def __init__(self, wire="Q", ls=None, closed=False, pending=False, qclosed=False):
        self.wire, self.ls, self.closed, self.pending, self.qclosed = wire, ls, closed, pending, qclosed

    def key(self):
        return (self.wire, self.ls, self.closed, self.pending, self.qclosed)

    def copy(self, **kw):
        s = AbsState(*self.key())
        for k, v in kw.items():
            setattr(s, k, v)
        return s

    def __repr__(self):
        return "wire=%s loop_state=%s%s%s%s" % (self.wire, self.ls or "?", " closed" if self.closed else "",
                                                " item-pending" if self.pending else "", " queue-closed" if self.qclosed else "")


class BodyInfo:
    """State-independent facts of one coroutine / function body."""

    def __init__(self, an, body):
        self.an = an
        self.body = body
        prog = an.prog
        b = body
        self.fut = {}          # local -> descriptor
        self.await_at = {}     # into_future call bb -> (descriptor, result local)
        self.result_locals = set()
        self.selects = {}      # switch bb -> {variant name: (descriptor, index)}, all descriptors
        self.select_payload = {}
        # pass 1: future-creating calls (iterate to propagate through moves / instrument / timeout)
        calls = list(b.calls())
        changed = True
        rounds = 0
        while changed and rounds < 8:
            changed = False
            rounds += 1
            for bb, t in calls:
                dst = t["dest"]["l"]
                if t["dest"]["p"] or dst in self.fut:
                    continue
                ns = callee_names(t)
                d = None
                if AC + "send" in ns:
                    d = ("conn", "send", self.word(bb, t), bb)
                elif AC + "send_list" in ns:
                    d = ("conn", "send_list", None, bb)
                elif AC + "receive" in ns:
                    d = ("conn", "receive", None, bb)
                elif AC + "command" in ns or AC + "command_list" in ns:
                    d = ("conn", "roundtrip", None, bb)
                elif RECV in ns:
                    d = ("ext", RECV, None, bb)
                elif TIMEOUT in ns:
                    inner = self.fut_of(op_local(t["args"][1]))
                    if inner is not None:
                        d = ("timeout", inner, None, bb)
                elif any(n in INSTRUMENT for n in ns) or INTO_FUTURE in ns:
                    inner = self.fut_of(op_local(t["args"][0]))
                    if inner is not None:
                        d = inner
                else:
                    f = callee(t)
                    if f is not None:
                        tid = f.get("inst") or f["def"]
                        tb = prog.bodies.get(tid)
                        if tb is not None and an.coroutine_of(tb) is not None:
                            d = ("ws", tid, tuple(op_local(a) for a in t["args"]), bb)
                        elif tb is None and self.returns_future(t):
                            d = ("ext", ns[0], None, bb)
                if d is not None:
                    self.fut[dst] = d
                    changed = True
            # async blocks created in this body
            for bb, i, s in b.stmts():
                if s["k"] == "assign" and not s["place"]["p"] and s["place"]["l"] not in self.fut:
                    rv = s["rv"]
                    if rv["k"] == "agg" and rv["agg"] == "coroutine" and rv["def"] in prog.bodies:
                        self.fut[s["place"]["l"]] = ("block", rv["def"], None, bb)
                        changed = True
                    elif rv["k"] == "use":
                        src = op_local(rv["op"])
                        if src in self.fut:
                            self.fut[s["place"]["l"]] = self.fut[src]
                            changed = True
        # pass 2: awaits and selects
        for bb, t in calls:
            if INTO_FUTURE not in callee_names(t):
                continue
            chain = prog.exp_chain(b.crate, b.blocks[bb]["ts"])
            d = self.fut_of(op_local(t["args"][0]))
            if any(m == "desugar:Await" for m, _ in chain):
                res = self.await_result(t["dest"]["l"])
                self.await_at[bb] = (d, res)
                if res is not None:
                    self.result_locals.add(res)
        self.find_selects()

    def returns_future(self, t):
        ty = self.body.local_ty(t["dest"]["l"])
        return "impl core::future::future::Future" in ty or "impl Future" in ty or ty.startswith("tokio::") and "<" in ty and "Future" in ty

    def fut_of(self, local, depth=6):
        b = self.body
        for _ in range(depth):
            if local is None:
                return None
            if local in self.fut:
                return self.fut[local]
            defs = [s for bb, i, s in b.stmts() if s["k"] == "assign" and s["place"]["l"] == local and not s["place"]["p"]]
            if len(defs) != 1 or defs[0]["rv"]["k"] != "use":
                return None
            p = op_place(defs[0]["rv"]["op"])
            if p is None:
                return None
            if len(p["p"]) == 1 and isinstance(p["p"][0], dict) and "f" in p["p"][0]:
                # element of a tuple of futures (select! moves its branches through one)
                tdefs = [s for bb, i, s in b.stmts() if s["k"] == "assign" and s["place"]["l"] == p["l"] and not s["place"]["p"]
                         and s["rv"]["k"] == "agg" and s["rv"]["agg"] == "tuple"]
                if len(tdefs) == 1 and p["p"][0]["f"] < len(tdefs[0]["rv"]["ops"]):
                    local = op_local(tdefs[0]["rv"]["ops"][p["p"][0]["f"]])
                    continue
                return None
            if p["p"]:
                return None
            local = p["l"]
        return None

    def word(self, bb, t):
        """constant command word of the command handed to a send"""
        b = self.body
        prog = self.an.prog
        words = set()
        work = [op_local(t["args"][1])]
        seen = set()
        while work:
            l = work.pop()
            if l is None or l in seen:
                continue
            seen.add(l)
            for bb2, i2, s2 in b.stmts():
                if s2["k"] == "assign" and s2["place"]["l"] == l and s2["rv"]["k"] == "use":
                    work.append(op_local(s2["rv"]["op"]))
            for bb2, t2 in b.calls():
                if t2["dest"]["l"] != l:
                    continue
                ns = callee_names(t2)
                if any(n in CMDNEW for n in ns):
                    words.add(const_value_of(prog, b, t2["args"][0]))
                elif "mpd_protocol::command::Command::argument" in ns:
                    work.append(op_local(t2["args"][0]))
                else:
                    f = callee(t2)
                    hb = prog.bodies.get(f["def"]) if f else None
                    if hb is not None and hb.crate == "mpd_client":
                        for bb3, t3 in hb.calls():
                            if any(n in CMDNEW for n in callee_names(t3)):
                                words.add(const_value_of(prog, hb, t3["args"][0]))
        if len(words) == 1:
            return next(iter(words))
        return None

    def await_result(self, awaitee_src):
        """local that receives the value of `<poll result> as Ready.0` for this await"""
        b = self.body
        # awaitee local: `_a = move <into_future result>`
        aw = {awaitee_src}
        for _ in range(3):
            for bb, i, s in b.stmts():
                if s["k"] == "assign" and s["rv"]["k"] == "use" and op_local(s["rv"]["op"]) in aw and not s["place"]["p"]:
                    aw.add(s["place"]["l"])
        # &mut awaitee -> Pin::new_unchecked -> poll
        refs = set()
        for bb, i, s in b.stmts():
            if s["k"] == "assign" and s["rv"]["k"] == "ref" and s["rv"]["place"]["l"] in aw | refs:
                refs.add(s["place"]["l"])
        for _ in range(2):
            for bb, i, s in b.stmts():
                if s["k"] == "assign" and s["rv"]["k"] == "ref" and s["rv"]["place"]["l"] in refs:
                    refs.add(s["place"]["l"])
        pins = set()
        for bb, t in b.calls():
            if "core::pin::Pin::new_unchecked" in callee_names(t) and op_local(t["args"][0]) in refs:
                pins.add(t["dest"]["l"])
        polls = set()
        for bb, t in b.calls():
            if "core::future::future::Future::poll" in callee_names(t) and op_local(t["args"][0]) in pins:
                polls.add(t["dest"]["l"])
        for bb, i, s in b.stmts():
            if s["k"] == "assign" and s["rv"]["k"] == "use":
                p = op_place(s["rv"]["op"])
                if p is not None and p["l"] in polls and any(isinstance(e, dict) and e.get("n") == "Ready" for e in p["p"]):
                    cur = s["place"]["l"]
                    # follow the plain move to the user-visible temporary
                    for _ in range(3):
                        nxt = [s2["place"]["l"] for bb2, i2, s2 in b.stmts() if s2["k"] == "assign" and s2["rv"]["k"] == "use"
                               and op_local(s2["rv"]["op"]) == cur and not s2["place"]["p"]]
                        if len(nxt) == 1:
                            self.result_locals.add(cur)
                            cur = nxt[0]
                        else:
                            break
                    return cur
        return None

    @staticmethod
    def is_future_type(ty):
        return ty.startswith(("impl core::future::future::Future", "{async ", "core::pin::Pin<alloc::boxed::Box<dyn core::future::future::Future")) \
            or "::Future<" in ty.split("<")[0] or ty.split("<")[0].rsplit("::", 1)[-1] in ("Recv", "Timeout", "Sleep", "Instrumented", "Closed", "JoinHandle", "Receiver")

    def origin_name(self, local, depth=6):
        """name of the call that produced a (moved) local, else its type"""
        b = self.body
        for _ in range(depth):
            for bb, t in b.calls():
                if t["dest"]["l"] == local and not t["dest"]["p"]:
                    ns = callee_names(t)
                    if INTO_FUTURE in ns or any(n in INSTRUMENT for n in ns):
                        break
                    return ns[0] if ns else "?"
            else:
                defs = [s for bb, i, s in b.stmts() if s["k"] == "assign" and s["place"]["l"] == local and not s["place"]["p"] and s["rv"]["k"] == "use"]
                if len(defs) == 1 and op_local(defs[0]["rv"]["op"]) is not None:
                    local = op_local(defs[0]["rv"]["op"])
                    continue
                return "type:" + b.local_ty(local)
            # transparent wrapper: look at its argument
            for bb, t in b.calls():
                if t["dest"]["l"] == local and not t["dest"]["p"]:
                    local = op_local(t["args"][0])
                    break
        return "?"

    def find_selects(self):
        b = self.body
        prog = self.an.prog
        # tuple of branch futures built inside tokio's select! expansion
        tuples = []
        for bb, i, s in b.stmts():
            if s["k"] == "assign" and s["rv"]["k"] == "agg" and s["rv"]["agg"] == "tuple" and s["rv"]["ops"]:
                chain = prog.exp_chain(b.crate, s["span"])
                if not any("select" in m and c in ("tokio", "tokio_macros") for m, c in chain):
                    continue
                ds = []
                for o in s["rv"]["ops"]:
                    d = self.fut_of(op_local(o))
                    if d is None and op_local(o) is not None and self.is_future_type(b.local_ty(op_local(o))):
                        # a future this analysis has no model for: keep it as an opaque external one
                        d = ("ext", self.origin_name(op_local(o)), None, bb)
                    ds.append(d)
                if ds and all(d is not None for d in ds):
                    tuples.append((bb, ds))
        if not tuples:
            return
        for bb in sorted(b.reachable()):
            blk = b.blocks[bb]
            t = blk["t"]
            if t["k"] != "switch":
                continue
            dl = op_local(t["discr"])
            d = None
            for s in blk["s"]:
                if s["k"] == "assign" and s["place"]["l"] == dl and s["rv"]["k"] == "discr":
                    d = s["rv"]
            if d is None or not d.get("enum") or not re.search(r"__tokio_select_util(#\d+)?::Out$", d["enum"]["adt"]):
                continue
            # nearest preceding tuple of futures (dominating): take the last one defined before in block order
            cands = [x for x in tuples if x[0] <= bb]
            if not cands:
                continue
            ds = cands[-1][1]
            arms = {}
            for val, name, idx in d["enum"]["variants"]:
                tgt = [x for v, x in t["targets"] if v == val]
                tgt = tgt[0] if tgt else t["otherwise"]
                if name.startswith("_") and name[1:].isdigit() and int(name[1:]) < len(ds):
                    arms[name] = (int(name[1:]), tgt)
                else:
                    arms[name] = (None, tgt)
            self.selects[bb] = (arms, ds, d["place"]["l"])


class Analysis:
    def __init__(self, prog):
        self.prog = prog
        self.infos = {}
        self.violations = []       # (rule, key, body, bb, message)
        self.summaries = {}
        self.in_progress = set()
        self.states_seen = 0
        self.transitions = 0
        self.events = {}           # (body id, bb) -> {"kind":..., "pre": set of wire states}
        self.dropped = {}          # (body id, site bb, descriptor key) -> {"pre": set, "how": select|timeout}
        self.boundary = []
        self.iteration_fn = None

    # ---- helpers ------------------------------------------------------------------------------
    def coroutine_of(self, fn_body):
        """the coroutine body created by an `async fn` item — with the private sync helpers of its module spliced in (see
        spliced_coroutine_of): the engine and every rule over the loop functions see the same bodies, so an event send or a
        connection operation moved into `fn notify_closed(events, e)` is still seen where it happens"""
        return self.spliced_coroutine_of(fn_body)

    def _raw_coroutine_of(self, fn_body):
        """the coroutine body created by an `async fn` item (its closure#0), or None"""
        for bb, i, s in fn_body.stmts():
            if s["k"] == "assign" and s["rv"]["k"] == "agg" and s["rv"]["agg"] == "coroutine" and s["rv"]["def"] in self.prog.bodies:
                return self.prog.bodies[s["rv"]["def"]]
        return None

    def spliced_coroutine_of(self, fn_body):
        """coroutine_of(fn) with the private *sync* helpers of its module spliced in (A12): structural rules over the loop functions
        keep seeing e.g. the event-forwarding loop after it was moved into `fn forward_subsystem_changes(..)`.  Block numbers of
        the original coroutine are preserved (spliced blocks are appended), so event / await tables keyed by block stay valid."""
        co = self._raw_coroutine_of(fn_body)
        if co is None:
            return None
        cache = self.__dict__.setdefault("_spliced", {})
        if co.id not in cache:
            from .inline import inlined, module_private_helpers
            base = module_private_helpers(co)
            # only helpers that hand something to a channel (an event or a reply) are spliced — what the engine and the rules track;
            # constructors of commands (`idle()`), the frame -> Subsystem conversion etc. stay calls, they are anchors
            prog = self.prog

            def sends(cb, depth=2):
                for _, t in cb.calls():
                    ns = callee_names(t)
                    if any(n.startswith("tokio::sync::") and n.endswith("::send") for n in ns):
                        return True
                    f = callee(t)
                    tb = prog.bodies.get((f or {}).get("inst") or (f or {}).get("def")) if f else None
                    if depth > 0 and tb is not None and tb.crate == cb.crate and tb.kind in ("Fn", "AssocFn") and not tb.raw.get("coroutine") and sends(tb, depth - 1):
                        return True
                return False
            def sets_loop_state(cb):
                # `State::idling(connection, commands, events)`: a private constructor / setter of the abstract loop state
                for _, _, st in cb.stmts():
                    if st["k"] == "assign" and (self._is_ls_place(st["place"]) or (st["rv"]["k"] == "agg" and "loop_state" in (st["rv"].get("fields") or []))):
                        return True
                return False
            nb = inlined(prog, co, lambda cb: not cb.raw.get("coroutine") and base(cb) and "client::Subsystem" not in cb.local_ty(0)
                         and (sends(cb) or sets_loop_state(cb)))
            nb = nb if nb.raw.get("inlined") else co
            # closures that hand something to a channel from inside `map_err(|e| ..)` & co: the adaptor is written out as its match
            from .inline import desugar_adaptors
            cache[co.id] = desugar_adaptors(prog, nb, lambda cb: cb is None or not prog.exp_chain(cb.crate, cb.span))
        return cache[co.id]

    def info(self, body):
        i = self.infos.get(body.id)
        if i is None:
            i = BodyInfo(self, body)
            self.infos[body.id] = i
        return i

    def violate(self, rule, key, body, bb, msg, st):
        self.violations.append({"rule": rule, "key": key, "body": body, "bb": bb, "msg": msg, "state": repr(st)})

    def note_event(self, body, bb, kind, st, extra=None):
        e = self.events.setdefault((body.id, bb), {"kind": kind, "pre": set(), "extra": extra})
        e["pre"].add(st.wire)

    # ---- effects ------------------------------------------------------------------------------
    def complete(self, d, st, body, bb, env=None):
        """Apply the completion of future `d` in state st: list of (state, outcome env tuple or None)."""
        fn = norm(self.prog.bodies[body.root].name) if body.root in self.prog.bodies else body.name
        kind = d[0]
        if kind == "conn":
            op = d[1]
            site = d[3]
            if st.closed:
                self.violate("C08.close-terminal", "%s:%s after close" % (fn, op), body, site,
                             "connection operation `%s` after the closing event was emitted" % op, st)
            if st.qclosed and op != "receive":
                self.violate("C08.queue-closed", "%s:%s after queue closed" % (fn, op), body, site,
                             "the loop keeps writing (%s) although the command queue reported closed (all client handles dropped)" % op, st)
            if op == "send":
                w = d[2]
                self.note_event(body, site, "send:%s" % w, st)
                if w == "idle":
                    if st.wire != "Q":
                        self.violate("C05.discipline", "%s:idle from %s" % (fn, st.wire), body, site,
                                     "idle is written while %s" % WIRE_TEXT[st.wire], st)
                    return [(st.copy(wire="I"), None)]
                if w == "noidle":
                    if st.wire != "I":
                        self.violate("C05.discipline", "%s:noidle from %s" % (fn, st.wire), body, site,
                                     "noidle is written while %s (MPD ignores it without a reply: the client would wait forever)" % WIRE_TEXT[st.wire], st)
                    return [(st.copy(wire="N"), None)]
                # any other single command: a request
                if st.wire != "Q":
                    self.violate("C05.discipline", "%s:command %s from %s" % (fn, w, st.wire), body, site,
                                 "a command (%s) is written while %s" % (w, WIRE_TEXT[st.wire]), st)
                return [(st.copy(wire="R"), None)]
            if op == "send_list":
                self.note_event(body, site, "send_list", st)
                if st.wire != "Q":
                    self.violate("C05.discipline", "%s:request from %s" % (fn, st.wire), body, site,
                                 "a request is written while %s" % WIRE_TEXT[st.wire], st)
                if not st.pending:
                    self.violate("C01.fifo", "%s:send_list without a queued item" % fn, body, site,
                                 "a request is written that was not just taken from the command queue", st)
                return [(st.copy(wire="R", pending=False), None)]
            if op == "receive":
                self.note_event(body, site, "receive", st)
                if st.wire == "Q":
                    self.violate("C05.discipline", "%s:receive from Q" % fn, body, site,
                                 "a reply is awaited although nothing is outstanding (the loop would hang)", st)
                return [(st.copy(wire="Q"), None)]
            if op == "roundtrip":
                self.note_event(body, site, "roundtrip", st)
                if st.wire != "Q":
                    self.violate("C05.discipline", "%s:roundtrip from %s" % (fn, st.wire), body, site, "a command round trip is started while %s" % WIRE_TEXT[st.wire], st)
                return [(st, None)]
        if kind == "ext":
            if d[1] == RECV:
                site = d[3]
                self.note_event(body, site, "recv", st)
                if st.pending:
                    self.violate("C01.fifo", "%s:recv with an unsent item" % fn, body, site,
                                 "another request is taken from the queue before the previous one was written", st)
                return [(st.copy(pending=True), ("Some",)), (st.copy(qclosed=True), ("None",))]
            return [(st, None)]
        if kind == "ws":
            tb = self.prog.bodies[d[1]]
            co = self.coroutine_of(tb)
            arg_envs = tuple((env or {}).get(l) for l in (d[2] or ()))
            outs = self.run_body(co, st, arg_envs)
            res = []
            for (k, ret) in outs:
                ns = AbsState(*k)
                if self.iteration_fn == tb.id and ret and ret[0] == "Ok":
                    self.check_boundary(ns, body, d[3])
                res.append((ns, ret))
            return res
        if kind == "block":
            co = self.prog.bodies[d[1]]
            outs = self.run_body(co, st)
            return [(AbsState(*k), ret) for k, ret in outs]
        if kind == "timeout":
            inner = d[1]
            res = []
            for ns, oenv in self.complete(inner, st, body, bb, env):
                res.append((ns, ("Ok",) + (oenv or ())))
            self.drop(inner, st, body, d[3], "timeout")
            res.append((st, ("Err",)))
            return res
        return [(st, None)]

    def drop(self, d, st, body, bb, how):
        key = (body.id, bb, self.dkey(d), how)
        e = self.dropped.setdefault(key, {"pre": set(), "d": d})
        e["pre"].add(st.wire)

    @staticmethod
    def dkey(d):
        if d[0] == "conn":
            return "conn:" + d[1]
        if d[0] == "ws":
            return "ws:" + d[1]
        if d[0] == "block":
            return "block:" + d[1]
        if d[0] == "timeout":
            return "timeout(" + Analysis.dkey(d[1]) + ")"
        return "ext:" + d[1]

    def check_boundary(self, st, body, bb):
        self.boundary.append(st.key())
        fn = "iteration boundary"
        ok = (st.ls, st.wire) in (("Idling", "I"), ("WaitingForCommandReply", "R"))
        if not ok:
            self.violate("C05.invariant", "boundary:%s/%s" % (st.ls, st.wire), body, bb,
                         "the loop continues with loop_state=%s while %s: the state must be Idling exactly when an idle is outstanding and "
                         "WaitingForCommandReply exactly when a request is outstanding" % (st.ls, WIRE_TEXT[st.wire]), st)
        if st.closed:
            self.violate("C08.close-terminal", "boundary:closed", body, bb, "the loop continues after the closing event", st)
        if st.pending:
            self.violate("C01.fifo", "boundary:item dropped", body, bb, "a request taken from the queue was neither written nor answered before the loop went on", st)
        if st.qclosed:
            self.violate("C08.queue-closed", "boundary:queue closed", body, bb,
                         "the loop continues although the command queue reported closed (the last client handle was dropped): the transport is never released", st)

    # ---- interpreter --------------------------------------------------------------------------
    def run_body(self, body, entry, arg_envs=()):
        """Interpret one body from `entry`; returns set of (exit state key, ret variant tuple).
        arg_envs: known variants of the arguments of the async fn (captured as upvars _1.i)."""
        mkey = (body.id, entry.key(), arg_envs)
        if mkey in self.summaries:
            return self.summaries[mkey]
        if mkey in self.in_progress:
            return set()
        self.in_progress.add(mkey)
        info = self.info(body)
        b = body
        succs = b.succs()
        exits = set()
        seen = set()
        work = [(0, entry, {})]
        while work:
            bb, st, env = work.pop()
            k = (bb, st.key(), tuple(sorted(env.items())))
            if k in seen:
                continue
            seen.add(k)
            self.states_seen += 1
            blk = b.blocks[bb]
            env = dict(env)
            # ---- statements
            for s in blk["s"]:
                if s["k"] != "assign":
                    continue
                dst = s["place"]
                rv = s["rv"]
                if dst["p"]:
                    # write into a field: loop_state?
                    if self._is_ls_place(dst):
                        v = self._variant_of(rv, env)
                        st = st.copy(ls=v[0] if v else None)
                    continue
                l = dst["l"]
                if rv["k"] == "agg" and rv["agg"] == "adt":
                    rest = ()
                    if len(rv["ops"]) == 1:
                        ol = op_local(rv["ops"][0])
                        rest = env.get(ol, ()) if ol is not None else ()
                    env[l] = (rv["variant"],) + tuple(rest)
                    if "loop_state" in rv.get("fields", []):
                        ol = op_local(rv["ops"][rv["fields"].index("loop_state")])
                        v = env.get(ol)
                        st = st.copy(ls=v[0] if v else None)
                elif rv["k"] == "use":
                    p = op_place(rv["op"])
                    if p is None:
                        env.pop(l, None)
                    elif not p["p"]:
                        if p["l"] in env:
                            env[l] = env[p["l"]]
                        elif l not in info.result_locals:
                            env.pop(l, None)
                    elif p["l"] == 1 and len(p["p"]) == 1 and isinstance(p["p"][0], dict) and "f" in p["p"][0] \
                            and p["p"][0]["f"] < len(arg_envs) and arg_envs[p["p"][0]["f"]] is not None:
                        env[l] = arg_envs[p["p"][0]["f"]]
                    else:
                        v = env.get(p["l"])
                        downs = [e.get("n") for e in p["p"] if isinstance(e, dict) and "v" in e]
                        fields = [e for e in p["p"] if isinstance(e, dict) and "f" in e]
                        if v and len(downs) == 1 and len(fields) == 1 and v[0] == downs[0] and len(v) > 1:
                            env[l] = v[1:]
                        elif l not in info.result_locals or any(isinstance(e, dict) and e.get("n") == "Ready" for e in p["p"]) is False:
                            if not (l in info.result_locals and l in env):
                                env.pop(l, None)
                elif rv["k"] == "ref" and not rv["place"]["p"] and rv["place"]["l"] in env and not rv.get("mut"):
                    env[l] = env[rv["place"]["l"]]       # `&result` handed to `is_err()`
                elif rv["k"] == "unop" and rv["op"] == "Not" and env.get(op_local(rv["a"])) in (("#true",), ("#false",)):
                    env[l] = ("#false",) if env[op_local(rv["a"])] == ("#true",) else ("#true",)
                else:
                    env.pop(l, None)
            t = blk["t"]
            kind = t["k"]
            nxt = []       # list of (bb, st, env)
            if kind == "call":
                ns = callee_names(t)
                dst = t["dest"]["l"] if not t["dest"]["p"] else None
                tgt = t["target"]
                if tgt is None:
                    continue
                if bb in info.await_at:
                    d, res = info.await_at[bb]
                    if d is None:
                        nxt.append((tgt, st, env))
                    else:
                        for ns2, out in self.complete(d, st, body, bb, env):
                            e2 = dict(env)
                            if res is not None:
                                if out is not None:
                                    e2[res] = out
                                else:
                                    e2.pop(res, None)
                            nxt.append((tgt, ns2, e2))
                else:
                    self._call_env(ns, t, env, dst, body)
                    if ("core::mem::replace" in ns or "core::mem::take" in ns) and t["args"]:
                        # `mem::replace(&mut state.loop_state, X)`: a write of the abstract loop state
                        rl = op_local(t["args"][0])
                        is_ls = False
                        for _ in range(3):       # through reborrows `&mut *r`
                            nxt_rl = None
                            for s2 in [x for bb2 in b.reachable() for x in b.blocks[bb2]["s"]]:
                                if s2["k"] == "assign" and s2["place"]["l"] == rl and s2["rv"]["k"] == "ref":
                                    if self._is_ls_place(s2["rv"]["place"]):
                                        is_ls = True
                                    elif s2["rv"]["place"]["p"] == ["*"]:
                                        nxt_rl = s2["rv"]["place"]["l"]
                            if is_ls or nxt_rl is None:
                                break
                            rl = nxt_rl
                        if is_ls:
                            if dst is not None:
                                if st.ls:
                                    env[dst] = (st.ls,)
                                else:
                                    env.pop(dst, None)
                            nv = env.get(op_local(t["args"][1])) if len(t["args"]) > 1 else None
                            st = st.copy(ls=nv[0] if nv else None)
                    if EVSEND in ns and len(t["args"]) > 1:
                        v = env.get(op_local(t["args"][1]))
                        if v and v[0] == "ConnectionClosed":
                            fn = norm(self.prog.bodies[body.root].name)
                            self.note_event(body, bb, "event:closed", st)
                            if st.closed:
                                self.violate("C08.close-terminal", "%s:second closing event" % fn, body, bb, "a second closing event is emitted", st)
                            st = st.copy(closed=True)
                        elif v and v[0] == "SubsystemChange":
                            self.note_event(body, bb, "event:change", st)
                            if st.closed:
                                self.violate("C08.close-terminal", "%s:event after close" % norm(self.prog.bodies[body.root].name), body, bb, "an event is emitted after the closing event", st)
                    if ONESEND in ns:
                        self.note_event(body, bb, "respond", st)
                    nxt.append((tgt, st, env))
            elif kind == "switch":
                if bb in info.selects:
                    arms, ds, outl = info.selects[bb]
                    for name, (idx, tgt) in arms.items():
                        if idx is None:
                            continue      # `Disabled`: no branch can run (panics without an else branch)
                        for j, dj in enumerate(ds):
                            if j != idx:
                                self.drop(dj, st, body, bb, "select")
                        # a connection future created as a select branch
                        for ns2, out in self.complete(ds[idx], st, body, bb, env):
                            e2 = dict(env)
                            e2[outl] = (name,) + (out or ())
                            nxt.append((tgt, ns2, e2))
                else:
                    sel = self._switch(b, bb, t, st, env)
                    for tgt, st2 in sel:
                        nxt.append((tgt, st2, env))
            elif kind == "return":
                exits.add((st.key(), env.get(0)))
                continue
            elif kind in ("goto", "drop", "assert", "yield"):
                nxt.append((t["target"], st, env))
            else:
                continue
            for n in nxt:
                self.transitions += 1
                work.append(n)
        self.in_progress.discard(mkey)
        self.summaries[mkey] = exits
        return exits

    @staticmethod
    def _is_ls_place(p):
        name = None
        for e in p["p"]:
            if isinstance(e, dict) and "f" in e and e.get("n") is not None:
                name = e["n"]
        return name == "loop_state"

    def _variant_of(self, rv, env):
        if rv["k"] == "use":
            l = op_local(rv["op"])
            return env.get(l)
        if rv["k"] == "agg" and rv["agg"] == "adt":
            return (rv["variant"],)
        return None

    def _call_env(self, ns, t, env, dst, body):
        """variant tracking through the few Option/Result adaptors the loop uses"""
        if dst is None:
            return
        a0 = env.get(op_local(t["args"][0])) if t["args"] else None
        out = None
        n = set(ns)
        if "core::ops::try_trait::Try::branch" in n and a0:
            out = (("Continue",) + a0[1:]) if a0[0] in ("Ok", "Some") else ("Break",)
        elif "core::ops::try_trait::FromResidual::from_residual" in n:
            ty = body.local_ty(dst)
            out = ("None",) if ty.startswith("core::option::Option") else ("Err",)
        elif n & {"core::option::Option::ok_or", "core::option::Option::ok_or_else"} and a0:
            out = (("Ok",) + a0[1:]) if a0[0] == "Some" else ("Err",)
        elif "core::result::Result::transpose" in n and a0:
            if a0[0] == "Err":
                out = ("Some", "Err")
            elif len(a0) > 1:
                out = ("Some", "Ok") + a0[2:] if a0[1] == "Some" else ("None",)
        elif "core::option::Option::transpose" in n and a0:
            if a0[0] == "None":
                out = ("Ok", "None")
            elif len(a0) > 1:
                out = ("Ok", "Some") + a0[2:] if a0[1] == "Ok" else ("Err",)
        elif n & {"core::result::Result::map_err", "core::result::Result::map", "core::option::Option::map", "core::convert::Into::into",
                  "core::convert::From::from"} and a0:
            out = a0
        elif a0 and a0[0] in ("Ok", "Err", "Some", "None") and any(x.rsplit("::", 1)[-1] in ("is_some", "is_none", "is_ok", "is_err")
                                                                    and ("Option" in x or "Result" in x) for x in n):
            # `helper(..).await.is_err()`: the boolean is carried as a pseudo-variant and decides the switch on it
            short = next(x.rsplit("::", 1)[-1] for x in n if x.rsplit("::", 1)[-1] in ("is_some", "is_none", "is_ok", "is_err"))
            truth = {"is_some": a0[0] == "Some", "is_none": a0[0] == "None", "is_ok": a0[0] == "Ok", "is_err": a0[0] == "Err"}[short]
            out = ("#true",) if truth else ("#false",)
        if out is not None:
            env[dst] = out
        else:
            env.pop(dst, None)

    def _switch(self, b, bb, t, st, env):
        """feasible targets of a switch: [(target, state)]"""
        blk = b.blocks[bb]
        dl = op_local(t["discr"])
        d = None
        for s in blk["s"]:
            if s["k"] == "assign" and s["place"]["l"] == dl and s["rv"]["k"] == "discr":
                d = s["rv"]
        all_t = []
        for v, x in t["targets"]:
            if x not in all_t:
                all_t.append(x)
        if t["otherwise"] not in all_t:
            all_t.append(t["otherwise"])
        if d is None and dl is not None and env.get(dl) in (("#true",), ("#false",)):
            val = 1 if env[dl] == ("#true",) else 0
            hit = [x for v, x in t["targets"] if v == val]
            return [(hit[0] if hit else t["otherwise"], st)]
        if d is None or not d.get("enum"):
            return [(x, st) for x in all_t]
        place = d["place"]
        by_name = {name: val for val, name, idx in d["enum"]["variants"]}

        def target_of(name):
            val = by_name.get(name)
            hit = [x for v, x in t["targets"] if v == val]
            return hit[0] if hit else t["otherwise"]
        if self._is_ls_place(place):
            if st.ls in by_name:
                return [(target_of(st.ls), st)]
            return [(target_of(n), st.copy(ls=n)) for n in by_name]
        v = env.get(place["l"])
        depth = sum(1 for e in place["p"] if isinstance(e, dict) and "v" in e)
        if v and len(v) > depth and v[depth] in by_name:
            # the outer variants along the path must match what the place projects
            downs = [e.get("n") for e in place["p"] if isinstance(e, dict) and "v" in e]
            if list(v[:depth]) == downs:
                return [(target_of(v[depth]), st)]
        return [(x, st) for x in all_t]

    # ---- entry --------------------------------------------------------------------------------
    def run(self, spawn_root_fn, iteration_fn=None):
        """spawn_root_fn: body of the `async fn` handed to tokio::spawn (run_loop)."""
        self.iteration_fn = iteration_fn.id if iteration_fn is not None else None
        co = self.coroutine_of(spawn_root_fn)
        if co is None:
            raise RuntimeError("loop root is not an async fn")
        return self.run_body(co, AbsState("Q"))


WIRE_TEXT = {"Q": "nothing is outstanding", "I": "the server is waiting in idle", "N": "the reply to noidle/idle is still outstanding",
             "R": "a request is outstanding"}
