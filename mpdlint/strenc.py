"""A15 — abstract interpretation of a string encoder over a finite quotient of its inputs.

An encoder of the shape `fn(&str) -> Cow<str> | String` that looks at its input only through membership questions
(`contains(<set>)`, `chars().filter(p).count()`, `any` / `all`, `is_empty`) and builds its output with `push` / `push_str` from
literal characters and the characters of the input is, as a function, determined by

    (prefix literals, per-character image, suffix literals)   for each *set of character classes* present in the input,

where the classes are the cells of the partition of the code points induced by every constant and every predicate the encoder
(and the reference decoder) can tell apart.  The interpreter below walks the MIR once per subset of classes (a few hundred), with
the loop over the characters summarised as one abstract iteration per class present (twice each, in both orders — an encoder
whose treatment of a character depends on position or history is *opaque* and fails closed).  Nothing of /repo is executed: the
values are abstract (`bool`, zero / non-zero counts, "the argument", "the output buffer", "a character of class c").
"""
from .callgraph import norm
from .charset import _Eval, Opaque, MAXC
from .facts import callee, op_const, op_place, const_str


class EncOpaque(Exception):
    pass


UNK = ("unk",)
ARG = ("arg",)
OUT = ("out",)

PASS_THROUGH = ("::index", "::as_slice", "::as_ref", "::deref", "::borrow", "::into_iter", "::as_str", "::by_ref", "::into", "::from")
NEW_STRING = ("alloc::string::String::with_capacity", "alloc::string::String::new")
OWNING = ("alloc::string::String::from", "alloc::borrow::ToOwned::to_owned", "alloc::string::ToString::to_string",
          "alloc::str::<impl str>::to_owned", "alloc::str::<impl str>::to_string", "alloc::str::<impl alloc::borrow::ToOwned for str>::to_owned")


def pred_on_cell(prog, body, cell):
    """exact truth value of a character predicate (`fn(char|&char|u8|&u8) -> bool`, closure or function) on one cell"""
    ev = _Eval(prog)
    argc = body.mir["argc"]
    first = 2 if body.kind == "Closure" else 1
    vals = []
    n = 0
    for i in range(1, argc + 1):
        if i < first:
            vals.append(("unk",))
            continue
        sh = ev.shape_of_type(body.local_ty(i))
        vals.append(sh)
        n += 1
    if n != 1:
        raise EncOpaque("predicate %s does not take exactly one character" % body.name)
    try:
        return bool(ev.run(body, vals, cell))
    except Opaque as e:
        raise EncOpaque("predicate %s is opaque: %s" % (body.name, e))


def char_constants(prog, body, seen=None, cuts=None):
    """every character constant (typed `char` / `u8`) the body, its closures and its workspace callees mention, plus the cut
    points of the character predicates among them (classifier calls, range tests)"""
    seen = seen if seen is not None else set()
    if body.id in seen:
        return set()
    seen.add(body.id)
    out = set()

    def add(op):
        c = op_const(op)
        if c is not None and c.get("int") is not None and c.get("ty") in ("char", "u8"):
            out.add(c["int"])

    def is_pred(b):
        if "bool" not in b.local_ty(0):
            return False
        first = 2 if b.kind == "Closure" else 1
        tys = [b.local_ty(i) for i in range(first, b.mir["argc"] + 1)]
        return len(tys) == 1 and tys[0].replace("&", "").replace("mut ", "").strip().split(" ")[-1] in ("char", "u8")

    if is_pred(body) and cuts is not None:
        cuts |= {c for c in _Eval(prog).cut_points(body) if 0 <= c <= MAXC + 1}
    for bb in body.reachable():
        blk = body.blocks[bb]
        for s in blk["s"]:
            if s["k"] != "assign":
                continue
            rv = s["rv"]
            for key in ("op", "a", "b"):
                if isinstance(rv.get(key), dict):
                    add(rv[key])
            for o in rv.get("ops", []) or []:
                add(o)
            if rv["k"] == "agg" and rv.get("agg") == "closure" and rv.get("def") in prog.bodies:
                out |= char_constants(prog, prog.bodies[rv["def"]], seen, cuts)
        t = blk["t"]
        if t["k"] == "switch" and t.get("ty") in ("char", "u8"):
            for v, _ in t["targets"]:
                out.add(v)
        elif t["k"] == "call":
            for a in t["args"]:
                add(a)
            f = callee(t)
            if f is not None:
                for tid in (f.get("inst"), f["def"]):
                    if tid in prog.bodies:
                        out |= char_constants(prog, prog.bodies[tid], seen, cuts)
                        break
    return out


def partition(consts, reference_cuts):
    cuts = {0, MAXC + 1}
    for c in consts:
        if 0 <= c <= MAXC:
            cuts.add(c)
            cuts.add(c + 1)
    cuts |= {c for c in reference_cuts if 0 <= c <= MAXC + 1}
    cuts = sorted(cuts)
    return [(a, b - 1) for a, b in zip(cuts, cuts[1:])]


class Result:
    def __init__(self, kind, prefix, per_cell, suffix):
        self.kind = kind            # 'identity' (the argument itself) | 'built'
        self.prefix = prefix
        self.per_cell = per_cell
        self.suffix = suffix

    def key(self):
        return (self.kind, tuple(self.prefix), tuple(sorted(self.per_cell.items())), tuple(self.suffix))


class EncEval:
    def __init__(self, prog, body, param=1):
        self.prog = prog
        self.body = body
        self.param = param
        self.steps = 0

    # ---- values ---------------------------------------------------------------------------------
    def read_place(self, env, place):
        v = env.get(place["l"], UNK)
        for e in place["p"]:
            if e == "*":
                continue
            if isinstance(e, dict) and "v" in e:
                continue
            if isinstance(e, dict) and "f" in e:
                if v[0] == "some" and e["f"] == 0:
                    v = ("cell", v[1])
                elif v[0] == "somei" and e["f"] == 0:
                    v = ("tuple", [("pos", v[2]), ("cell", v[1])])        # item of char_indices(): (byte position, character)
                elif v[0] == "tuple":
                    v = v[1][e["f"]] if e["f"] < len(v[1]) else UNK
                elif v[0] == "cow":
                    v = v[1]
                else:
                    v = UNK
            else:
                v = UNK
        return v

    def read_op(self, env, op):
        p = op_place(op)
        if p is not None:
            return self.read_place(env, p)
        c = op_const(op)
        if c is not None:
            if c.get("ty") == "bool":
                return ("bool", bool(c.get("int")))
            if c.get("int") is not None:
                return ("int", c["int"])
            sv = const_str(c)
            if isinstance(sv, (bytes, str)):
                return ("strconst", sv)
            if "fn" in c:
                return ("fnitem", c["fn"].get("inst") or c["fn"]["def"], c["fn"]["def"])
        return UNK

    def cell_of(self, code):
        for c in self.cells:
            if c[0] <= code <= c[1]:
                return c
        return None

    def pred_value(self, v, cell):
        """truth of predicate value `v` (closure / fn item / set / char constant) on `cell`"""
        if v[0] == "set":
            return cell in v[1]
        if v[0] == "int":
            return cell[0] <= v[1] <= cell[1] and cell[0] == cell[1]
        if v[0] == "strconst" and isinstance(v[1], (bytes, str)) and len(v[1]) == 1:
            code = v[1][0] if isinstance(v[1], bytes) else ord(v[1])
            return cell == (code, code)
        if v[0] == "closure" and v[1] in self.prog.bodies:
            return pred_on_cell(self.prog, self.prog.bodies[v[1]], cell)
        if v[0] == "fnitem":
            for tid in v[1:]:
                if tid in self.prog.bodies:
                    return pred_on_cell(self.prog, self.prog.bodies[tid], cell)
        raise EncOpaque("pattern / predicate value %r is not understood" % (v[:1],))

    def iter_cells(self, it, S):
        cs = [c for c in S]
        for p in it[1]:
            cs = [c for c in cs if self.pred_value(p, c)]
        return cs

    # ---- one abstract run ---------------------------------------------------------------------------
    def run(self, S, cells, descending=False):
        self.cells = cells
        body = self.body
        env = {self.param: ARG}
        prefix, suffix, per_cell = [], [], {}
        loops = []                      # finished loops: (header, emitted anything)
        loop = None                     # active loop: dict(header, queue, cur, items, emitted)
        whole_arg = False
        argmap = None                   # per-class image after `replace` calls on the whole argument
        tape = None                     # copy-the-runs form: ordered output events with positions, resolved at the end
        self.tape_cells = []            # class of the k-th character of the indexed walk

        def lits_of(v):
            if v[0] == "strconst":
                txt = v[1].decode("utf-8", "replace") if isinstance(v[1], bytes) else v[1]
                return tuple(("lit", ord(ch)) for ch in txt)
            if v[0] == "int":
                return (("lit", v[1]),)
            raise EncOpaque("replacement text is not a constant")

        def emit(item):
            nonlocal whole_arg
            if tape is not None:
                in_iter = loop is not None and loop.get("indexed") and loop["cur"] is not None
                if item == ("arg",):
                    raise EncOpaque("the whole argument is written while its characters are copied by position")
                if item == ("cell",):
                    if not in_iter:
                        raise EncOpaque("a character is written outside the iteration that produced it")
                    tape.append(("char", loop["k"]))
                else:
                    tape.append(("lit", item[1], loop["k"] if in_iter else "after"))
                return
            if loop is not None and loop["cur"] is not None:
                loop["items"].append(item)
                loop["emitted"] = True
                return
            if item == ("arg",):
                if whole_arg or any(l[1] for l in loops):
                    raise EncOpaque("the argument is written out twice")
                whole_arg = True
                return
            if whole_arg or any(l[1] for l in loops):
                suffix.append(item)
            else:
                prefix.append(item)

        bb = 0
        while True:
            self.steps += 1
            if self.steps > 400000:
                raise EncOpaque("abstract run does not terminate")
            blk = body.blocks[bb]
            for s in blk["s"]:
                if s["k"] != "assign":
                    continue
                if s["place"]["p"]:
                    continue
                env[s["place"]["l"]] = self._rvalue(env, s["rv"])
            t = blk["t"]
            k = t["k"]
            if k == "goto":
                bb = t["target"]
            elif k in ("drop", "assert"):
                if t.get("target") is None:
                    raise EncOpaque("diverging %s" % k)
                bb = t["target"]
            elif k == "return":
                if loop is not None and (loop["emitted"] or loop["cur"] is not None and loop["items"] or loop.get("indexed") and tape):
                    raise EncOpaque("the loop that writes the output is left early")
                r = env.get(0, UNK)
                if r[0] == "cow":
                    r = r[1]
                if r == ARG:
                    if prefix or suffix or per_cell or whole_arg:
                        pass        # a buffer was built and dropped; what is returned is the argument itself
                    return Result("identity", [], {c: (("cell",),) for c in S}, [])
                if r == OUT and tape is not None:
                    n = len(self.tape_cells)
                    seq = []
                    for ev in tape:
                        if ev[0] == "run":
                            a2 = n if ev[1] == "END" else ev[1]
                            b2 = n if ev[2] == "END" else ev[2]
                            if not (0 <= a2 <= b2 <= n):
                                raise EncOpaque("a slice of the argument runs backwards or past the end")
                            seq.extend(("c", j) for j in range(a2, b2))
                        elif ev[0] == "char":
                            seq.append(("c", ev[1]))
                        else:
                            seq.append(ev)
                    if [x[1] for x in seq if x[0] == "c"] != list(range(n)):
                        raise EncOpaque("the characters of the argument are not copied exactly once and in order (positions %s of %d)"
                                        % ([x[1] for x in seq if x[0] == "c"][:8], n))
                    images = {j: [[], []] for j in range(n)}
                    pending = []
                    last = None
                    for x in seq:
                        if x[0] == "lit":
                            pending.append(x)
                            continue
                        j = x[1]
                        for l in pending:
                            if l[2] == j:
                                images[j][0].append(("lit", l[1]))
                            elif last is not None and l[2] == last and not images[j][0]:
                                images[last][1].append(("lit", l[1]))
                            else:
                                raise EncOpaque("a literal written while handling one character lands next to another")
                        pending = []
                        last = j
                    for l in pending:
                        if l[2] == "after":
                            suffix.append(("lit", l[1]))
                        elif last is not None and l[2] == last and not any(q[2] == "after" for q in pending[:pending.index(l)]):
                            images[last][1].append(("lit", l[1]))
                        else:
                            raise EncOpaque("a literal written while handling one character lands next to another")
                    per_cell = {}
                    for j in range(n):
                        c = self.tape_cells[j]
                        img = tuple(images[j][0]) + (("cell",),) + tuple(images[j][1])
                        if per_cell.get(c, img) != img:
                            raise EncOpaque("a character is written differently depending on position or history")
                        per_cell[c] = img
                    for c in S:
                        per_cell.setdefault(c, ())
                    return Result("built", prefix, per_cell, suffix)
                if r == OUT:
                    if argmap is not None:
                        per_cell = dict(argmap)
                    elif whole_arg:
                        per_cell = {c: (("cell",),) for c in S}
                    elif not any(l[1] for l in loops):
                        per_cell = {c: () for c in S}       # no loop wrote anything: every character is dropped
                    return Result("built", prefix, per_cell, suffix)
                raise EncOpaque("the returned value is neither the argument nor the buffer built from it (%r)" % (r[:1],))
            elif k == "switch":
                d = self.read_op(env, t["discr"])
                if d[0] == "bool":
                    val = 1 if d[1] else 0
                elif d[0] == "int":
                    val = d[1]
                elif d[0] == "cell":
                    lo, hi = d[1]
                    hit = [v for v, _ in t["targets"] if lo <= v <= hi]
                    if hit and lo != hi:
                        raise EncOpaque("class straddles a match value")
                    val = hit[0] if hit else None
                elif d[0] == "nz" and all(v == 0 for v, _ in t["targets"]):
                    val = None if d[1] else 0        # `match count { 0 => .., _ => .. }`
                else:
                    raise EncOpaque("branch on a value the abstraction does not determine (bb%d, %r)" % (bb, d[:1]))
                nxt = [b2 for v, b2 in t["targets"] if v == val]
                bb = nxt[0] if nxt else t["otherwise"]
            elif k == "call":
                f = callee(t)
                if f is None:
                    raise EncOpaque("indirect call")
                names = {norm(f["name"])}
                if f.get("inst_name"):
                    names.add(norm(f["inst_name"]))
                args = [self.read_op(env, a) for a in t["args"]]
                dst = t.get("dest")
                dl = dst["l"] if dst is not None and not dst["p"] else None
                res = UNK
                handled = False

                def has(*suffixes):
                    return any(n.endswith(sfx) for n in names for sfx in suffixes)

                if has("Iterator::next") and args and args[0][0] == "chars":
                    handled = True
                    indexed = len(args[0]) > 2 and args[0][2] == ("indexed",)
                    if loop is None or loop["header"] != bb:
                        if tape is not None and (loop is None or not loop.get("indexed") or loop["header"] != bb):
                            if tape or self.tape_cells:
                                raise EncOpaque("another loop over the argument after the one that copies by position")
                        if loop is not None:
                            if loop["emitted"]:
                                raise EncOpaque("nested or interleaved loops over the argument")
                            loops.append((loop["header"], False))
                        if any(l[1] for l in loops):
                            cs0 = self.iter_cells(args[0], S)
                            # a second loop after the one that wrote the output may only look, not write
                            loop = {"header": bb, "queue": [c for c in cs0 for _ in (0, 1)], "cur": None, "items": [], "emitted": False, "second": True}
                        else:
                            cs0 = sorted(self.iter_cells(args[0], S), reverse=descending)
                            loop = {"header": bb, "queue": [c for c in cs0 for _ in (0, 1)], "cur": None, "items": [], "emitted": False}
                            if indexed:
                                if any(l[1] for l in loops):
                                    raise EncOpaque("copy by position after another loop wrote the output")
                                loop["indexed"] = True
                                tape = []
                                self.tape_cells = []
                    if loop["cur"] is not None:
                        got = tuple(loop["items"])
                        if loop["emitted"] or got:
                            if loop.get("second"):
                                raise EncOpaque("two loops write the output")
                            old = per_cell.get(loop["cur"])
                            if old is not None and old != got:
                                raise EncOpaque("a character is written differently depending on position or history")
                            per_cell[loop["cur"]] = got
                    if loop["queue"] and loop.get("indexed"):
                        loop["cur"] = loop["queue"].pop(0)
                        loop["items"] = []
                        loop["k"] = len(self.tape_cells)
                        self.tape_cells.append(loop["cur"])
                        res = ("somei", loop["cur"], loop["k"])
                    elif loop["queue"]:
                        loop["cur"] = loop["queue"].pop(0)
                        loop["items"] = []
                        res = ("some", loop["cur"])
                    else:
                        if loop["emitted"]:
                            for c in S:
                                per_cell.setdefault(c, ())      # filtered out by the iterator: dropped
                        loops.append((loop["header"], loop["emitted"]))
                        loop = None
                        res = ("none",)
                elif has("<impl str>::contains") and len(args) == 2 and args[0] == ARG:
                    handled = True
                    res = ("bool", any(self.pred_value(args[1], c) for c in S))
                elif has("<impl str>::chars") and args and args[0] == ARG:
                    handled, res = True, ("chars", ())
                elif has("<impl str>::char_indices") and args and args[0] == ARG:
                    handled, res = True, ("chars", (), ("indexed",))
                elif has("char::methods::<impl char>::len_utf8", "<impl char>::len_utf8") and args and args[0][0] == "cell" and loop is not None and loop.get("indexed"):
                    handled, res = True, ("clen", loop["k"])
                elif has("Index::index") and len(args) == 2 and args[0] == ARG and args[1][0] == "range":
                    handled = True

                    def bnd(v):
                        if v == "END":
                            return "END"
                        if v == ("int", 0):
                            return 0
                        if v[0] == "pos":
                            return v[1]
                        raise EncOpaque("slice bound is not a position the abstraction tracks")
                    a2, b2 = bnd(args[1][1]), bnd(args[1][2])
                    res = ARG if (a2, b2) == (0, "END") and tape is None else ("slice", a2, b2)
                elif has("Index::index") and len(args) == 2 and args[0] == ARG:
                    raise EncOpaque("the argument is indexed by something that is not a tracked range")
                elif has("Iterator::filter") and len(args) == 2 and args[0][0] == "chars":
                    handled, res = True, ("chars", args[0][1] + (args[1],))
                elif has("Iterator::count") and args and args[0][0] == "chars":
                    handled, res = True, ("nz", bool(self.iter_cells(args[0], S)))
                elif has("Iterator::any") and len(args) == 2 and args[0][0] == "chars":
                    handled, res = True, ("bool", any(self.pred_value(args[1], c) for c in self.iter_cells(args[0], S)))
                elif has("Iterator::all") and len(args) == 2 and args[0][0] == "chars":
                    handled, res = True, ("bool", all(self.pred_value(args[1], c) for c in self.iter_cells(args[0], S)))
                elif has("<impl str>::is_empty") and args and args[0] == ARG:
                    handled, res = True, ("bool", not S)
                elif has("<impl str>::len") and args and args[0] == ARG:
                    handled, res = True, ("nz", bool(S))
                elif names & set(NEW_STRING):
                    handled, res = True, OUT
                elif has("String::push") and len(args) == 2 and args[0] == OUT:
                    handled = True
                    v = args[1]
                    if v[0] == "int":
                        emit(("lit", v[1]))
                    elif v[0] == "cell":
                        if loop is None or loop["cur"] != v[1]:
                            raise EncOpaque("a character is written outside the iteration that produced it")
                        emit(("cell",))
                    else:
                        raise EncOpaque("push of a value that is neither a literal nor the current character")
                elif has("String::push_str") and len(args) == 2 and args[0] == OUT:
                    handled = True
                    v = args[1]
                    if v == ARG:
                        emit(("arg",))
                    elif v[0] == "slice":
                        if tape is None:
                            raise EncOpaque("a slice of the argument is written without a walk over its positions")
                        tape.append(("run", v[1], v[2]))
                    elif v[0] == "strconst" and isinstance(v[1], (bytes, str)):
                        for ch in (v[1].decode("utf-8", "replace") if isinstance(v[1], bytes) else v[1]):
                            emit(("lit", ord(ch)))
                    else:
                        raise EncOpaque("push_str of a value that is neither a literal nor the argument")
                elif pure_call(self, names, args) is not None:
                    handled, res = True, pure_call(self, names, args)
                elif has("Iterator::flat_map", "Iterator::map") and len(args) == 2 and args[0][0] == "chars" and len(args[0]) == 2 and args[1][0] in ("fnitem", "closure"):
                    handled, res = True, ("chars", args[0][1], ("flat" if has("Iterator::flat_map") else "map", args[1]))
                elif has("Extend::extend", "String::extend") and len(args) == 2 and args[0] == OUT:
                    handled = True
                    v = args[1]
                    items = seq_items(v)
                    if items is not None:
                        for it in items:
                            if it[0] == "int":
                                emit(("lit", it[1]))
                            elif it[0] == "cell" and loop is not None and loop["cur"] == it[1]:
                                emit(("cell",))
                            else:
                                raise EncOpaque("extend with an item that is neither a literal nor the current character")
                    elif v[0] == "chars":
                        # `out.extend(argument.chars().flat_map(f))`: the image of every character is what `f` yields for it
                        if argmap is not None or whole_arg or any(l[1] for l in loops) or loop is not None:
                            raise EncOpaque("the argument is written out twice")
                        kept = set(self.iter_cells(v, S))
                        am = {}
                        for c in S:
                            if c not in kept:
                                am[c] = ()
                                continue
                            if len(v) == 2:
                                am[c] = (("cell",),)
                                continue
                            kind, fv = v[2]
                            fb = None
                            for tid in ((fv[1], fv[2]) if fv[0] == "fnitem" else (fv[1],)):
                                if tid in self.prog.bodies:
                                    fb = self.prog.bodies[tid]
                                    break
                            if fb is None:
                                raise EncOpaque("mapping function not found")
                            fargs = [("cell", c)] if fb.kind != "Closure" else [UNK, ("cell", c)]
                            r = eval_helper(self, fb, fargs)
                            its = seq_items(r) if kind == "flat" else ([r] if r[0] in ("cell", "int") else None)
                            if its is None:
                                raise EncOpaque("mapping function yields a value the abstraction does not model")
                            img = []
                            for it in its:
                                if it[0] == "int":
                                    img.append(("lit", it[1]))
                                elif it == ("cell", c):
                                    img.append(("cell",))
                                else:
                                    raise EncOpaque("mapping function yields another character")
                            am[c] = tuple(img)
                        whole_arg = True
                        argmap = am
                    else:
                        raise EncOpaque("extend with a value the abstraction does not model")
                elif has("<impl str>::replace") and len(args) == 3 and args[0] in (ARG, OUT):
                    # `value.replace(pat, "..")`: every character the pattern matches becomes the constant text; applied to the
                    # buffer of an earlier replace it rewrites that buffer's images (literals and characters alike)
                    handled, res = True, OUT
                    to = lits_of(args[2])
                    if args[0] == ARG:
                        if argmap is not None or whole_arg or prefix or suffix or loops or loop is not None:
                            raise EncOpaque("replace on the argument while another output is being built")
                        whole_arg = True
                        argmap = {c: (to if self.pred_value(args[1], c) else (("cell",),)) for c in S}
                    else:
                        if argmap is None or prefix or suffix:
                            raise EncOpaque("replace on a buffer that was not produced by replace")
                        new_map = {}
                        for c, img in argmap.items():
                            out_img = []
                            for it in img:
                                if it == ("cell",):
                                    hit = self.pred_value(args[1], c)
                                else:
                                    lc = self.cell_of(it[1])
                                    hit = lc is not None and lc[0] == lc[1] and self.pred_value(args[1], lc)
                                out_img.extend(to if hit else (it,))
                            new_map[c] = tuple(out_img)
                        argmap = new_map
                elif names & set(OWNING) and args and args[0] == ARG:
                    handled, res = True, OUT
                    emit(("arg",))
                elif has(*PASS_THROUGH) and args and args[0][0] in ("set", "arg", "out", "cow", "chars", "closure", "fnitem", "opt", "seq", "slice"):
                    handled, res = True, args[0]
                else:
                    tgt = None
                    for tid in (f.get("inst"), f["def"]):
                        if tid in self.prog.bodies:
                            tgt = self.prog.bodies[tid]
                            break
                    cellargs = [a for a in args if a[0] == "cell"]
                    if tgt is not None and len(cellargs) == 1 and len(args) == 1 and "bool" in tgt.local_ty(0):
                        handled, res = True, ("bool", pred_on_cell(self.prog, tgt, cellargs[0][1]))
                if not handled:
                    if any(a == OUT for a in args):
                        raise EncOpaque("the output buffer is handed to %s, which the abstraction does not model" % sorted(names)[0])
                    if any(a[0] == "cell" for a in args):
                        res = UNK
                if dl is not None:
                    env[dl] = res
                if t.get("target") is None:
                    raise EncOpaque("diverging call")
                bb = t["target"]
            else:
                raise EncOpaque("terminator %s" % k)

    def _rvalue(self, env, rv):
        k = rv["k"]
        if k == "use":
            return self.read_op(env, rv["op"])
        if k == "ref":
            return self.read_place(env, rv["place"])
        if k == "agg":
            if rv.get("agg") == "array":
                cs = set()
                for o in rv["ops"]:
                    v = self.read_op(env, o)
                    if v[0] != "int":
                        return UNK
                    c = self.cell_of(v[1])
                    if c is None or c[0] != c[1]:
                        raise EncOpaque("array constant not isolated by the partition")
                    cs.add(c)
                return ("set", frozenset(cs))
            if rv.get("agg") == "closure":
                return ("closure", rv.get("def"))
            if rv.get("agg") == "adt" and norm(rv.get("adt_name") or "").endswith("borrow::Cow") and len(rv["ops"]) == 1:
                return ("cow", self.read_op(env, rv["ops"][0]))
            if rv.get("agg") == "tuple":
                return ("tuple", [self.read_op(env, o) for o in rv["ops"]])
            an = norm(rv.get("adt_name") or "")
            if rv.get("agg") == "adt" and an.startswith("core::ops::range::Range"):
                ops = [self.read_op(env, o) for o in rv["ops"]]
                if an.endswith("::RangeFull"):
                    return ("range", ("int", 0), "END")
                if an.endswith("::Range") and len(ops) == 2:
                    return ("range", ops[0], ops[1])
                if an.endswith("::RangeFrom") and len(ops) == 1:
                    return ("range", ops[0], "END")
                if an.endswith("::RangeTo") and len(ops) == 1:
                    return ("range", ("int", 0), ops[0])
                return UNK
            if rv.get("agg") == "adt" and norm(rv.get("adt_name") or "").endswith("option::Option"):
                if rv.get("variant") == "Some" and len(rv["ops"]) == 1:
                    return ("opt", self.read_op(env, rv["ops"][0]))
                if rv.get("variant") == "None":
                    return ("opt", None)
            return UNK
        if k == "unop":
            a = self.read_op(env, rv["a"])
            if rv["op"] == "Not" and a[0] == "bool":
                return ("bool", not a[1])
            return UNK
        if k == "discr":
            v = self.read_place(env, rv["place"])
            if v[0] in ("some", "somei"):
                return ("int", 1)
            if v[0] == "none":
                return ("int", 0)
            return UNK
        if k == "cast":
            a = self.read_op(env, rv["op"])
            if a[0] == "cell":
                return a
            return UNK
        if k == "binop":
            a = self.read_op(env, rv["a"])
            b = self.read_op(env, rv["b"])
            op = rv["op"]
            if op.startswith("Add") and {a[0], b[0]} == {"pos", "clen"}:
                pv, cv = (a, b) if a[0] == "pos" else (b, a)
                r = ("pos", pv[1] + 1) if cv[1] == pv[1] else UNK       # position of a character + its own length = the next boundary
                return ("tuple", [r, ("bool", False)]) if op.endswith("WithOverflow") else r
            if op.startswith("Add") and {a[0], b[0]} == {"pos", "int"} and ("int", 1) in (a, b):
                pv = a if a[0] == "pos" else b
                cell = self.tape_cells[pv[1]] if pv[1] < len(getattr(self, "tape_cells", [])) else None
                if cell is None or cell[1] >= 0x80:
                    raise EncOpaque("a byte position is advanced by 1 over a character that may be longer than one byte")
                r = ("pos", pv[1] + 1)
                return ("tuple", [r, ("bool", False)]) if op.endswith("WithOverflow") else r
            if op.startswith("Add") and a[0] in ("int", "nz") and b[0] in ("int", "nz"):
                # counters (`escape_count += 1`): known exactly while both are constants, afterwards only as zero / non-zero
                if a[0] == "int" and b[0] == "int":
                    r = ("int", a[1] + b[1])
                else:
                    nza = a[1] if a[0] == "nz" else a[1] != 0
                    nzb = b[1] if b[0] == "nz" else b[1] != 0
                    r = ("nz", bool(nza or nzb))
                return ("tuple", [r, ("bool", False)]) if op.endswith("WithOverflow") else r
            if op.endswith("WithOverflow"):
                return ("tuple", [UNK, ("bool", False)])
            import operator
            CMP = {"Eq": operator.eq, "Ne": operator.ne, "Lt": operator.lt, "Le": operator.le, "Gt": operator.gt, "Ge": operator.ge}
            if op in CMP:
                if a[0] == "int" and b[0] == "int":
                    return ("bool", CMP[op](a[1], b[1]))
                if a[0] == "bool" and b[0] == "bool" and op in ("Eq", "Ne"):
                    return ("bool", CMP[op](a[1], b[1]))
                if a[0] == "nz" and b == ("int", 0):
                    return {"Eq": ("bool", not a[1]), "Ne": ("bool", a[1]), "Gt": ("bool", a[1]), "Le": ("bool", not a[1]),
                            "Ge": ("bool", True), "Lt": ("bool", False)}[op]
                if a == ("int", 0) and b[0] == "nz":
                    return {"Eq": ("bool", not b[1]), "Ne": ("bool", b[1]), "Lt": ("bool", b[1]), "Ge": ("bool", not b[1]),
                            "Le": ("bool", True), "Gt": ("bool", False)}[op]
                if a[0] == "nz" and b == ("int", 1) and op in ("Ge", "Lt"):
                    return ("bool", a[1] if op == "Ge" else not a[1])
                if a[0] == "cell" and b[0] == "int" or a[0] == "int" and b[0] == "cell":
                    (lo, hi), kk = (a[1], b[1]) if a[0] == "cell" else (b[1], a[1])
                    if lo < kk <= hi or lo <= kk < hi:
                        raise EncOpaque("class straddles a constant")
                    repv = lo
                    return ("bool", CMP[op](repv, kk) if a[0] == "cell" else CMP[op](kk, repv))
                return UNK
            if op in ("BitAnd", "BitOr", "BitXor") and a[0] == "bool" and b[0] == "bool":
                return ("bool", {"BitAnd": a[1] and b[1], "BitOr": a[1] or b[1], "BitXor": a[1] != b[1]}[op])
            return UNK
        return UNK


def seq_items(v):
    """items of an Option / chained iterator value, or None"""
    if v[0] == "opt":
        return [] if v[1] is None else [v[1]]
    if v[0] == "seq":
        return list(v[1])
    return None


def pure_call(ev, names, args):
    """value of a call that only builds small iterator values out of characters (`b.then_some(x)`, `opt.into_iter()`,
    `a.chain(b)`, `iter::once(x)`), or None when the call is something else"""
    def has(*suffixes):
        return any(n.endswith(sfx) for n in names for sfx in suffixes)
    if has("<impl bool>::then_some") and len(args) == 2 and args[0][0] == "bool":
        return ("opt", args[1] if args[0][1] else None)
    if has("Iterator::chain") and len(args) == 2 and seq_items(args[0]) is not None and seq_items(args[1]) is not None:
        return ("seq", tuple(seq_items(args[0]) + seq_items(args[1])))
    if has("iter::sources::once::once", "iter::once") and len(args) == 1:
        return ("seq", (args[0],))
    if has("IntoIterator::into_iter") and args and args[0][0] in ("opt", "seq"):
        return args[0]
    return None


def eval_helper(ev, body, argvals, depth=0):
    """value returned by a small workspace helper `fn(char) -> impl Iterator<Item = char> | char | Option<char>` for a character of
    a given class: straight-line / branching code over character predicates and the pure calls above"""
    if depth > 4:
        raise EncOpaque("helper recursion")
    env = {i + 1: v for i, v in enumerate(argvals)}
    bb = 0
    for _ in range(2000):
        blk = body.blocks[bb]
        for s in blk["s"]:
            if s["k"] == "assign" and not s["place"]["p"]:
                env[s["place"]["l"]] = ev._rvalue(env, s["rv"])
        t = blk["t"]
        k = t["k"]
        if k == "goto":
            bb = t["target"]
        elif k in ("drop", "assert") and t.get("target") is not None:
            bb = t["target"]
        elif k == "return":
            return env.get(0, UNK)
        elif k == "switch":
            d = ev.read_op(env, t["discr"])
            if d[0] == "bool":
                val = 1 if d[1] else 0
            elif d[0] == "int":
                val = d[1]
            elif d[0] == "cell":
                lo, hi = d[1]
                hit = [v for v, _ in t["targets"] if lo <= v <= hi]
                if hit and lo != hi:
                    raise EncOpaque("class straddles a match value")
                val = hit[0] if hit else None
            else:
                raise EncOpaque("helper branches on a value the abstraction does not determine")
            nxt = [b2 for v, b2 in t["targets"] if v == val]
            bb = nxt[0] if nxt else t["otherwise"]
        elif k == "call":
            f = callee(t)
            if f is None or t.get("target") is None:
                raise EncOpaque("helper: indirect or diverging call")
            names = {norm(f["name"])}
            if f.get("inst_name"):
                names.add(norm(f["inst_name"]))
            args = [ev.read_op(env, a) for a in t["args"]]
            res = pure_call(ev, names, args)
            if res is None:
                tgt = None
                for tid in (f.get("inst"), f["def"]):
                    if tid in ev.prog.bodies:
                        tgt = ev.prog.bodies[tid]
                        break
                cellargs = [a for a in args if a[0] == "cell"]
                if tgt is not None and len(args) == 1 and len(cellargs) == 1 and "bool" in tgt.local_ty(0):
                    res = ("bool", pred_on_cell(ev.prog, tgt, cellargs[0][1]))
                elif tgt is not None and len(args) == 1 and len(cellargs) == 1:
                    res = eval_helper(ev, tgt, args, depth + 1)
                else:
                    raise EncOpaque("helper calls %s, which the abstraction does not model" % sorted(names)[0])
            if t["dest"] is not None and not t["dest"]["p"]:
                env[t["dest"]["l"]] = res
            bb = t["target"]
        else:
            raise EncOpaque("helper terminator %s" % k)
    raise EncOpaque("helper does not terminate abstractly")


def transducer(prog, body, S, cells):
    """(Result) of the encoder for inputs whose characters are exactly of the classes S — evaluated in both iteration orders"""
    r1 = EncEval(prog, body).run(S, cells, descending=False)
    r2 = EncEval(prog, body).run(S, cells, descending=True)
    if r1.key() != r2.key():
        raise EncOpaque("the result depends on the order of the characters")
    return r1
