"""Character-scan idioms of validators (shared by C07, C12, C20): `iter().find/position/any/all(closure)` and the `for`-loop
form, with the exact set of characters that count as a hit (A5) and the provenance of what is scanned."""
from . import charset, tables
from .cfg import Cfg, reach
from .common import callee_names
from .facts import op_local
from .flow import Flow

def closure_of_local(prog, body, local):
    for bb, i, s in body.stmts():
        if s["k"] == "assign" and s["place"]["l"] == local and not s["place"]["p"] and s["rv"]["k"] == "agg" \
                and s["rv"]["agg"] == "closure":
            return prog.bodies.get(s["rv"]["def"])
    return None



def only_err_returns(body, start):
    """Every return reachable from `start` (not re-entering) assigns _0 = Result::Err on the way."""
    from .cfg import reach
    succs = body.succs()
    # blocks that construct Ok into _0
    ok_blocks = set()
    err_blocks = set()
    for bb, i, s in body.stmts():
        if s["k"] == "assign" and s["place"]["l"] == 0 and not s["place"]["p"] and s["rv"]["k"] == "agg" \
                and s["rv"].get("adt_name", "").endswith("result::Result"):
            (ok_blocks if s["rv"]["variant"] == "Ok" else err_blocks).add(bb)
    region = reach(succs, [start])
    if region & ok_blocks:
        return False
    # must reach a return at all and pass an Err construction: every path from start to return
    rets = [b for b in region if body.blocks[b]["t"]["k"] == "return"]
    if not rets:
        return False
    no_err = reach(succs, [start], avoid=err_blocks)
    return not any(body.blocks[b]["t"]["k"] == "return" for b in no_err) or start in err_blocks



SCANS = {"core::iter::traits::iterator::Iterator::find": "found=Some", "core::iter::traits::iterator::Iterator::position": "found=Some",
         "core::iter::traits::iterator::Iterator::any": "found=true", "core::iter::traits::iterator::Iterator::all": "found=false",
         # searching from the back decides "is there such a character" the same way (only the reported position differs)
         "core::iter::traits::double_ended::DoubleEndedIterator::rfind": "found=Some",
         "core::iter::traits::iterator::Iterator::rposition": "found=Some",
         "core::iter::traits::iterator::Iterator::find_map": "found=Some"}
# receivers of a scan may be derived from the validated string only through these
SCAN_RECEIVER_OK = {"core::str::<impl str>::char_indices", "core::str::<impl str>::chars", "core::str::<impl str>::bytes",
                    "core::slice::<impl [T]>::iter", "core::str::<impl str>::as_bytes", "core::iter::traits::iterator::Iterator::enumerate",
                    "core::ops::deref::Deref::deref", "core::iter::traits::collect::IntoIterator::into_iter",
                    "core::iter::traits::iterator::Iterator::copied", "core::iter::traits::iterator::Iterator::cloned"}


def with_scan_helpers(prog, body):
    """`body`, or — when the character scan was given a name (`fn first_invalid_char(s: &str) -> Option<(usize, char)>`) — `body`
    with the private helpers of its module that contain a scan spliced in (A12): the scan, its outcome and what follows are then
    read in one body."""
    def has_scan(b):
        return any(n in SCANS for _, t in b.calls() for n in callee_names(t))
    if has_scan(body):
        return body
    from .inline import inlined, module_private_helpers
    base = module_private_helpers(body)
    nb = inlined(prog, body, lambda cb: base(cb) and has_scan(cb), depth=1)
    return nb if nb.raw.get("inlined") else body


def scan_of(prog, body, param=1):
    """The single character scan in a validator: returns dict(found_edge, notfound_edge, bad set,
    width, receiver_ok, scan_bb) or raises Opaque."""
    scans = []
    for bb, t in body.calls():
        ns = callee_names(t)
        kind = next((SCANS[n] for n in ns if n in SCANS), None)
        if kind is None:
            continue
        clos = None
        for a in t["args"]:
            l = op_local(a)
            if l is not None and "closure@" in body.local_ty(l):
                clos = closure_of_local(prog, body, l)
        if clos is not None:
            scans.append((bb, t, clos, kind))
    if len(scans) > 1:
        # scans over something else than characters (a lookup in a table of names) are not the validation
        def over_chars(t):
            l = op_local(t["args"][0])
            ty = body.local_ty(l) if l is not None else ""
            return any(w in ty for w in ("Chars", "CharIndices", "Bytes", "u8", "char"))
        chars_only = [x for x in scans if over_chars(x[1])]
        if len(chars_only) == 1:
            scans = chars_only
    if not scans:
        loop = _loop_scan(prog, body, param)
        if loop is not None:
            return loop
    if len(scans) != 1:
        raise charset.Opaque("expected exactly one character scan (find/position/any/all with a closure, or one `for` loop over the characters), found %d" % len(scans))
    bb, t, clos, kind = scans[0]
    sw = body.blocks[t["target"]]["t"]
    if sw["k"] != "switch":
        # the result may be handed back by a spliced helper first (plain moves through its return): follow it to its test
        cur, nb2 = t["dest"]["l"], t["target"]
        for _ in range(8):
            blk2 = body.blocks[nb2]
            dl = None
            for st in blk2["s"]:
                if st["k"] == "assign" and not st["place"]["p"] and st["rv"]["k"] == "use" and op_local(st["rv"]["op"]) == cur \
                        and not (st["rv"]["op"].get("copy") or st["rv"]["op"].get("move"))["p"]:
                    cur = st["place"]["l"]
                elif st["k"] == "assign" and st["rv"]["k"] == "discr" and st["rv"]["place"]["l"] == cur and not st["rv"]["place"]["p"]:
                    dl = st["place"]["l"]
            t2 = blk2["t"]
            if t2["k"] == "switch" and (op_local(t2["discr"]) == dl or (kind != "found=Some" and op_local(t2["discr"]) == cur)):
                sw = t2
                break
            if t2["k"] != "goto":
                break
            nb2 = t2["target"]
    if sw["k"] != "switch":
        raise charset.Opaque("the scan result is not tested directly")
    if kind == "found=Some":
        found = [b for v, b in sw["targets"] if v == 1]
        notfound = [b for v, b in sw["targets"] if v == 0] or [sw["otherwise"]]
        if not found and [b for v, b in sw["targets"] if v == 0]:
            found = [sw["otherwise"]]
    else:
        zero = [b for v, b in sw["targets"] if v == 0]
        if kind == "found=true":
            found, notfound = [sw["otherwise"]], zero
        else:
            found, notfound = zero, [sw["otherwise"]]
    if not found or not notfound:
        raise charset.Opaque("cannot see both outcomes of the scan")
    acc, width, ncells = charset.accept_set(prog, clos)
    if kind == "found=false":   # all(valid): the closure accepts valid chars, 'found' = a char that is not accepted
        acc = charset.complement(acc, width)
    # receiver provenance
    fl = Flow(body)
    recv = op_local(t["args"][0])
    leaves, _ = fl.sources([recv] if recv is not None else [], through_call=lambda t2, k=None: (0,), follow_mut=False)
    bad_calls = []
    for leaf in leaves:
        if leaf[0] == "call":
            ns = callee_names(body.blocks[leaf[1]]["t"])
            if not any(n in SCAN_RECEIVER_OK for n in ns):
                bad_calls.append(ns[0])
    receiver_ok = ("param", param) in leaves and not bad_calls and not any(x[0] == "const" for x in leaves)
    return {"found": found[0], "notfound": notfound[0], "bad": acc, "width": width, "receiver_ok": receiver_ok,
            "receiver_via": sorted(bad_calls), "bb": bb, "cells": ncells}


def _loop_scan(prog, body, param):
    """`for x in input.chars()/iter()/char_indices()/.. { if bad(x) { return Err(..) } }` — the loop form of the scan."""
    IT_NEXT = "core::iter::traits::iterator::Iterator::next"
    nexts = [(bb, t) for bb, t in body.calls() if IT_NEXT in callee_names(t)]
    if len(nexts) != 1:
        return None
    hbb, ht = nexts[0]
    if ht.get("dest") is None or ht["dest"]["p"] or ht.get("target") is None:
        return None
    opt = ht["dest"]["l"]
    sw = [x for x in tables.discr_switches(body) if x["place"]["l"] == opt and not x["place"]["p"]]
    if len(sw) != 1:
        return None
    some_bb = sw[0]["arms"].get("Some")
    none_bb = sw[0]["arms"].get("None", sw[0]["otherwise"])
    if some_bb is None:
        some_bb = sw[0]["otherwise"]
    g = Cfg(body)
    if hbb not in reach(g.succs, [some_bb]):
        return None   # not a loop
    bad, err_ok, width, ncells = charset.loop_scan_set(prog, body, some_bb, hbb, opt)
    # receiver provenance: the iterator is made from the validated input itself
    fl = Flow(body)
    recv = op_local(ht["args"][0])
    leaves, _ = fl.sources([recv] if recv is not None else [], through_call=lambda t2, k=None: (0,), follow_mut=False)
    bad_calls = []
    for leaf in leaves:
        if leaf[0] == "call" and leaf[1] != hbb:
            ns = callee_names(body.blocks[leaf[1]]["t"])
            if not any(n in SCAN_RECEIVER_OK for n in ns):
                bad_calls.append(ns[0])
    receiver_ok = ("param", param) in leaves and not bad_calls and not any(x[0] == "const" for x in leaves)
    return {"found": None, "err_ok": err_ok, "notfound": none_bb, "bad": bad, "width": width, "receiver_ok": receiver_ok,
            "receiver_via": sorted(bad_calls), "bb": hbb, "cells": ncells, "form": "loop"}


def found_rejects(V, sc):
    """a hit of the scan always leads to an Err return"""
    if sc["found"] is None:
        return bool(sc.get("err_ok")) and bool(sc["bad"])
    return only_err_returns(V, sc["found"])




def delegated_validator(prog, body, param=1):
    """`fn try_from(raw) { validate(raw)?; .. }`: the private function of the crate that `body` calls unconditionally as its first
    action with the validated parameter and whose `Result<(), _>` it propagates with `?` — the validator proper — or None."""
    from .facts import callee
    bb = 0
    for _ in range(12):
        t = body.blocks[bb]["t"]
        if t["k"] == "goto":
            bb = t["target"]
            continue
        if t["k"] != "call":
            return None
        f = callee(t)
        hb = prog.bodies.get((f or {}).get("inst") or (f or {}).get("def")) if f else None
        if hb is not None and hb.crate == body.crate and hb.kind in ("Fn", "AssocFn") and not hb.raw.get("pub") and not hb.raw.get("exported") \
                and hb.local_ty(0).replace(" ", "").startswith("core::result::Result<(),") and t["args"]:
            # argument = the parameter (through reborrows / copies)
            l = op_local(t["args"][0])
            for _ in range(4):
                if l == param:
                    break
                d = [s2 for _, _, s2 in body.stmts() if s2["k"] == "assign" and s2["place"]["l"] == l and not s2["place"]["p"]]
                if len(d) != 1:
                    break
                rv = d[0]["rv"]
                if rv["k"] == "use" and op_local(rv["op"]) is not None:
                    l = op_local(rv["op"])
                elif rv["k"] == "ref" and rv["place"]["p"] in ([], ["*"]):
                    l = rv["place"]["l"]
                else:
                    break
            res = t["dest"]["l"]
            # `?`: the result goes to Try::branch
            nb = body.blocks[t["target"]]["t"] if t.get("target") is not None else None
            propagated = any("core::ops::try_trait::Try::branch" in callee_names(t2) and t2["args"] and op_local(t2["args"][0]) is not None
                             for _, t2 in body.calls() if _moves_from(body, op_local(t2["args"][0]) if t2["args"] else None, res))
            if l == param and propagated:
                return hb
            return None
        if t.get("target") is None:
            return None
        bb = t["target"]
    return None


def _moves_from(body, local, src, depth=4):
    for _ in range(depth):
        if local is None:
            return False
        if local == src:
            return True
        d = [s2 for _, _, s2 in body.stmts() if s2["k"] == "assign" and s2["place"]["l"] == local and not s2["place"]["p"]]
        if len(d) != 1 or d[0]["rv"]["k"] != "use":
            return False
        local = op_local(d[0]["rv"]["op"])
    return False
