"""Runs the mpdfacts exporter over /repo's *current working tree* and caches the fact files.

The cache key is a SHA-256 over every file cargo can see, so a check always decides the tree that
is on disk now; a warm cargo target directory can never replay old facts because the members'
fingerprints are deleted before each export and the run id is verified afterwards.
"""
import fcntl
import hashlib
import json
import os
import shutil
import subprocess
import sys
import time

from . import facts

VERIF = os.path.dirname(os.path.dirname(os.path.abspath(__file__)))
REPO = os.environ.get("MPDLINT_REPO", "/repo")
CACHE = os.environ.get("MPDLINT_CACHE", os.path.join(VERIF, ".cache"))
DRIVER_DIR = os.path.join(VERIF, "mpdfacts")
DRIVER = os.path.join(DRIVER_DIR, "target", "debug", "mpdfacts")

CONFIGS = {
    # cfg: (cargo arguments, crates expected)
    "K1": (["--workspace", "--lib"], ["mpd_protocol", "mpd_client"]),
    "K2": (["-p", "mpd_client", "--features", "chrono", "--lib"], ["mpd_protocol", "mpd_client"]),
    "K3": (["-p", "mpd_protocol", "--lib"], ["mpd_protocol"]),
}


def _env():
    env = dict(os.environ)
    env["CARGO_NET_OFFLINE"] = "true"
    return env


def sysroot():
    return subprocess.check_output(["rustc", "+nightly", "--print", "sysroot"], text=True,
                                   env=_env()).strip()


def tree_hash(repo=None):
    repo = repo or REPO
    h = hashlib.sha256()
    paths = []
    for root, dirs, files in os.walk(repo):
        dirs[:] = sorted(d for d in dirs if d not in (".git", "target", "fuzz"))
        for f in sorted(files):
            if f.endswith(".rs") or f in ("Cargo.toml", "Cargo.lock"):
                paths.append(os.path.join(root, f))
    for p in paths:
        h.update(os.path.relpath(p, repo).encode())
        h.update(b"\0")
        with open(p, "rb") as fh:
            h.update(fh.read())
        h.update(b"\0")
    # the exporter itself is part of the key
    with open(os.path.join(DRIVER_DIR, "src", "main.rs"), "rb") as fh:
        h.update(fh.read())
    return h.hexdigest()[:24]


def ensure_driver():
    src = os.path.join(DRIVER_DIR, "src", "main.rs")
    if os.path.exists(DRIVER) and os.path.getmtime(DRIVER) >= os.path.getmtime(src):
        return
    r = subprocess.run(["cargo", "build", "--offline"], cwd=DRIVER_DIR, env=_env(),
                       stdout=subprocess.PIPE, stderr=subprocess.STDOUT, text=True)
    if r.returncode != 0 or not os.path.exists(DRIVER):
        sys.stderr.write(r.stdout)
        raise RuntimeError("cannot build the mpdfacts exporter")


def _export(cfg, out_dir, repo):
    args, crates = CONFIGS[cfg]
    target = os.path.join(CACHE, "target")
    os.makedirs(target, exist_ok=True)
    # make cargo re-run the wrapper for the workspace members
    fp = os.path.join(target, "debug", ".fingerprint")
    if os.path.isdir(fp):
        for d in os.listdir(fp):
            if d.startswith("mpd_client-") or d.startswith("mpd_protocol-"):
                shutil.rmtree(os.path.join(fp, d), ignore_errors=True)
    run_id = "%d-%d" % (os.getpid(), time.time_ns())
    env = _env()
    env.update({
        "LD_LIBRARY_PATH": os.path.join(sysroot(), "lib"),
        "RUSTFLAGS": "-Zmir-opt-level=0 -Awarnings",
        "RUSTC_WORKSPACE_WRAPPER": DRIVER,
        "CARGO_TARGET_DIR": target,
        "MPDFACTS_OUT": out_dir,
        "MPDFACTS_RUN": run_id,
        "MPDFACTS_CFG": cfg,
    })
    env.pop("RUSTC_WRAPPER", None)
    r = subprocess.run(["cargo", "+nightly", "check", "--offline"] + args, cwd=repo, env=env,
                       stdout=subprocess.PIPE, stderr=subprocess.STDOUT, text=True)
    if r.returncode != 0:
        sys.stderr.write(r.stdout[-6000:])
        raise RuntimeError("cargo check failed for configuration %s (the tree does not build)" % cfg)
    for c in crates:
        p = os.path.join(out_dir, "%s.%s.json" % (c, cfg))
        if not os.path.exists(p):
            raise RuntimeError("exporter wrote no fact file for %s/%s" % (c, cfg))
        # verify freshness: the run id is near the start of the file
        with open(p) as fh:
            head = fh.read(400)
        if run_id not in head:
            raise RuntimeError("stale fact file %s (run id mismatch)" % p)


def ensure_facts(cfgs, repo=None):
    """Return {cfg: Program} for the current tree of `repo`, exporting what is missing."""
    repo = repo or REPO
    os.makedirs(CACHE, exist_ok=True)
    key = tree_hash(repo)
    fdir = os.path.join(CACHE, "facts", key)
    out = {}
    with open(os.path.join(CACHE, "lock"), "w") as lock:
        fcntl.flock(lock, fcntl.LOCK_EX)
        try:
            os.makedirs(fdir, exist_ok=True)
            for cfg in cfgs:
                done = os.path.join(fdir, "%s.done" % cfg)
                if not os.path.exists(done):
                    ensure_driver()
                    _export(cfg, fdir, repo)
                    with open(done, "w") as fh:
                        fh.write("ok\n")
            _gc(os.path.join(CACHE, "facts"), keep=key)
        finally:
            fcntl.flock(lock, fcntl.LOCK_UN)
    for cfg in cfgs:
        out[cfg] = facts.load_program(cfg, fdir)
    return out, key


def _gc(root, keep, limit=8):
    try:
        ds = [(os.path.getmtime(os.path.join(root, d)), d) for d in os.listdir(root) if d != keep]
    except FileNotFoundError:
        return
    ds.sort(reverse=True)
    for _, d in ds[limit:]:
        shutil.rmtree(os.path.join(root, d), ignore_errors=True)
