"""mpdlint — rule library for the static verification of mpd_client (engine E1 of DESIGN.md)."""
