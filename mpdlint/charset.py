"""A5 — exact accept sets of character predicates by abstract interpretation over a partition
of the code-point range (DESIGN.md §3).

The abstract value of the predicate's argument is one *cell* of the partition induced by every
constant the predicate (transitively) compares with and by the boundaries of the classification
functions it calls.  Because the argument is only ever compared with constants or classified,
each comparison is decided exactly for a whole cell.  Anything else makes the predicate opaque
(`Opaque` is raised; callers fail closed).
"""
from .callgraph import norm
from .facts import callee, op_const, op_place

MAXC = 0x10FFFF


class Opaque(Exception):
    pass


def _iv(*pairs):
    return [tuple(p) for p in pairs]


ASCII_ALPHA = _iv((0x41, 0x5A), (0x61, 0x7A))
ASCII_DIGIT = _iv((0x30, 0x39))
CLASSIFIERS = {
    "core::char::methods::<impl char>::is_ascii_alphabetic": ASCII_ALPHA,
    "core::num::<impl u8>::is_ascii_alphabetic": ASCII_ALPHA,
    "nom::character::is_alphabetic": ASCII_ALPHA,
    "core::char::methods::<impl char>::is_ascii_digit": ASCII_DIGIT,
    "core::num::<impl u8>::is_ascii_digit": ASCII_DIGIT,
    "nom::character::is_digit": ASCII_DIGIT,
    "core::char::methods::<impl char>::is_ascii_alphanumeric": ASCII_ALPHA + ASCII_DIGIT,
    "core::num::<impl u8>::is_ascii_alphanumeric": ASCII_ALPHA + ASCII_DIGIT,
    "nom::character::is_alphanumeric": ASCII_ALPHA + ASCII_DIGIT,
    "core::char::methods::<impl char>::is_ascii_uppercase": _iv((0x41, 0x5A)),
    "core::num::<impl u8>::is_ascii_uppercase": _iv((0x41, 0x5A)),
    "core::char::methods::<impl char>::is_ascii_lowercase": _iv((0x61, 0x7A)),
    "core::num::<impl u8>::is_ascii_lowercase": _iv((0x61, 0x7A)),
    "core::char::methods::<impl char>::is_ascii": _iv((0, 0x7F)),
    "core::num::<impl u8>::is_ascii": _iv((0, 0x7F)),
    "core::char::methods::<impl char>::is_ascii_whitespace": _iv((9, 10), (12, 13), (0x20, 0x20)),
    "core::num::<impl u8>::is_ascii_whitespace": _iv((9, 10), (12, 13), (0x20, 0x20)),
    "core::char::methods::<impl char>::is_ascii_control": _iv((0, 0x1F), (0x7F, 0x7F)),
    "core::num::<impl u8>::is_ascii_control": _iv((0, 0x1F), (0x7F, 0x7F)),
    "core::char::methods::<impl char>::is_ascii_graphic": _iv((0x21, 0x7E)),
    "core::num::<impl u8>::is_ascii_graphic": _iv((0x21, 0x7E)),
    "core::char::methods::<impl char>::is_ascii_punctuation": _iv((0x21, 0x2F), (0x3A, 0x40), (0x5B, 0x60), (0x7B, 0x7E)),
    "core::num::<impl u8>::is_ascii_punctuation": _iv((0x21, 0x2F), (0x3A, 0x40), (0x5B, 0x60), (0x7B, 0x7E)),
    "core::char::methods::<impl char>::is_ascii_hexdigit": _iv((0x30, 0x39), (0x41, 0x46), (0x61, 0x66)),
    "core::num::<impl u8>::is_ascii_hexdigit": _iv((0x30, 0x39), (0x41, 0x46), (0x61, 0x66)),
    "nom::character::is_hex_digit": _iv((0x30, 0x39), (0x41, 0x46), (0x61, 0x66)),
    "nom::character::is_space": _iv((9, 9), (0x20, 0x20)),
    "nom::character::is_newline": _iv((10, 10)),
}

CMP = {
    "Eq": lambda a, b: a == b, "Ne": lambda a, b: a != b, "Lt": lambda a, b: a < b,
    "Le": lambda a, b: a <= b, "Gt": lambda a, b: a > b, "Ge": lambda a, b: a >= b,
}
FLIP = {"Eq": "Eq", "Ne": "Ne", "Lt": "Gt", "Le": "Ge", "Gt": "Lt", "Ge": "Le"}


def in_set(ivs, lo, hi):
    """Cell [lo,hi] entirely inside the interval set? (cells never straddle a boundary)"""
    for a, b in ivs:
        if a <= lo and hi <= b:
            return True
    return False


def normalise(ivs):
    ivs = sorted(ivs)
    out = []
    for a, b in ivs:
        if out and a <= out[-1][1] + 1:
            out[-1] = (out[-1][0], max(out[-1][1], b))
        else:
            out.append((a, b))
    return out


def fmt_set(ivs):
    def ch(c):
        if 0x21 <= c <= 0x7E:
            return chr(c)
        return "U+%04X" % c
    return "{" + ", ".join(ch(a) if a == b else "%s-%s" % (ch(a), ch(b)) for a, b in ivs) + "}"


def subset(a, b):
    return all(in_set(b, lo, hi) for lo, hi in a)


def complement(ivs, maxc):
    out = []
    cur = 0
    for a, b in normalise(ivs):
        if a > cur:
            out.append((cur, a - 1))
        cur = b + 1
    if cur <= maxc:
        out.append((cur, maxc))
    return out


class _Eval:
    def __init__(self, prog):
        self.prog = prog
        self.trace = None   # loop-body mode: (local, value) for every boolean constant assigned on the path taken

    # ---- cut points ------------------------------------------------------------------------
    def cut_points(self, body, seen=None):
        seen = seen if seen is not None else set()
        if body.id in seen:
            return set()
        seen.add(body.id)
        cuts = set()

        def add_const(op):
            c = op_const(op)
            if c is not None and c.get("int") is not None:
                cuts.add(c["int"])
                cuts.add(c["int"] + 1)

        for bb in body.reachable():
            blk = body.blocks[bb]
            for s in blk["s"]:
                if s["k"] == "assign" and s["rv"]["k"] == "binop":
                    add_const(s["rv"]["a"])
                    add_const(s["rv"]["b"])
                if s["k"] == "assign" and s["rv"]["k"] == "agg" and s["rv"].get("agg") == "array":
                    for o in s["rv"]["ops"]:
                        add_const(o)
            t = blk["t"]
            if t["k"] == "switch":
                for v, _ in t["targets"]:
                    cuts.add(v)
                    cuts.add(v + 1)
            elif t["k"] == "call":
                f = callee(t)
                if f is not None:
                    n = norm(f["name"])
                    if n in CLASSIFIERS:
                        for a, b in CLASSIFIERS[n]:
                            cuts.add(a)
                            cuts.add(b + 1)
                    for tid in (f.get("inst"), f["def"]):
                        if tid in self.prog.bodies:
                            cuts |= self.cut_points(self.prog.bodies[tid], seen)
                            break
        return cuts

    # ---- abstract values ---------------------------------------------------------------------
    # ('cell',) | ('bool', b) | ('int', n) | ('ref', v) | ('tuple', {i: v}) | ('unk',)
    def shape_of_type(self, ty):
        ty = ty.strip()
        if ty.startswith("&"):
            rest = ty[1:].lstrip()
            if rest.startswith("'"):
                rest = rest.split(" ", 1)[1] if " " in rest else rest
            if rest.startswith("mut "):
                rest = rest[4:]
            return ("ref", self.shape_of_type(rest))
        if ty in ("char", "u8"):
            return ("cell",)
        if ty.startswith("(") and ty.endswith(")"):
            parts = _split_top(ty[1:-1])
            return ("tuple", {i: self.shape_of_type(p) for i, p in enumerate(parts)})
        return ("unk",)

    def read_place(self, env, place):
        v = env.get(place["l"], ("unk",))
        for e in place["p"]:
            if e == "*":
                if v[0] != "ref":
                    raise Opaque("deref of non-reference")
                v = v[1]
            elif isinstance(e, dict) and "v" in e:
                continue   # enum downcast: the payload is modelled as the fields of a tuple
            elif isinstance(e, dict) and "f" in e:
                if v[0] != "tuple":
                    raise Opaque("field of non-tuple")
                v = v[1].get(e["f"], ("unk",))
            else:
                raise Opaque("unsupported projection")
        return v

    def read_op(self, env, op):
        p = op_place(op)
        if p is not None:
            return self.read_place(env, p)
        c = op_const(op)
        if c is not None:
            if c["ty"] == "bool":
                return ("bool", bool(c.get("int")))
            if c.get("int") is not None:
                return ("int", c["int"])
        return ("unk",)

    def run(self, body, arg_vals, cell, depth=0, start=0, env0=None, stops=None):
        """Evaluate `body` with abstract argument values; `cell` = (lo, hi). Returns bool.
        Loop-body mode (`stops` given: {block: label}): start at `start` with the environment `env0`, follow the one path
        the cell takes and return (label, passed an `_0 = Err(..)`) on reaching a stop block, or ('return', ..) at a
        return; values the evaluator does not model are unknown instead of an error (only a branch on one is)."""
        if depth > 8:
            raise Opaque("predicate recursion too deep")
        lenient = stops is not None
        passed_err = False
        env = dict(env0 or {})
        for i, v in enumerate(arg_vals):
            env[i + 1] = v
        bb = start
        steps = 0
        lo, hi = cell
        while True:
            steps += 1
            if steps > 5000:
                raise Opaque("predicate does not terminate abstractly")
            if lenient and bb in stops and steps > 1:
                return stops[bb], passed_err
            blk = body.blocks[bb]
            for s in blk["s"]:
                if s["k"] != "assign":
                    if lenient:
                        continue
                    raise Opaque("statement %s" % s["k"])
                if s["place"]["p"]:
                    if lenient:
                        continue
                    raise Opaque("write through a projection")
                dst = s["place"]["l"]
                rv = s["rv"]
                k = rv["k"]
                if lenient:
                    if dst == 0 and k == "agg" and rv.get("variant") == "Err":
                        passed_err = True
                    if k == "use" and "const" in rv["op"] and rv["op"]["const"].get("ty") == "bool" and self.trace is not None:
                        self.trace.append((dst, bool(rv["op"]["const"].get("int"))))
                    try:
                        self._assign(env, dst, rv, lo, hi)
                    except Opaque:
                        env[dst] = ("unk",)
                    continue
                if k == "use":
                    env[dst] = self.read_op(env, rv["op"])
                elif k == "ref":
                    env[dst] = ("ref", self.read_place(env, rv["place"]))
                elif k == "unop":
                    a = self.read_op(env, rv["a"])
                    if rv["op"] == "Not" and a[0] == "bool":
                        env[dst] = ("bool", not a[1])
                    else:
                        raise Opaque("unary %s on %s" % (rv["op"], a[0]))
                elif k == "binop":
                    a = self.read_op(env, rv["a"])
                    b = self.read_op(env, rv["b"])
                    op = rv["op"]
                    if op in CMP:
                        if a[0] == "cell" and b[0] == "int":
                            env[dst] = ("bool", self._cmp(op, lo, hi, b[1]))
                        elif a[0] == "int" and b[0] == "cell":
                            env[dst] = ("bool", self._cmp(FLIP[op], lo, hi, a[1]))
                        elif a[0] == "int" and b[0] == "int":
                            env[dst] = ("bool", CMP[op](a[1], b[1]))
                        elif a[0] == "bool" and b[0] == "bool" and op in ("Eq", "Ne"):
                            env[dst] = ("bool", CMP[op](a[1], b[1]))
                        else:
                            raise Opaque("comparison %s of %s and %s" % (op, a[0], b[0]))
                    elif op in ("BitAnd", "BitOr", "BitXor") and a[0] == "bool" and b[0] == "bool":
                        r = {"BitAnd": a[1] and b[1], "BitOr": a[1] or b[1], "BitXor": a[1] != b[1]}[op]
                        env[dst] = ("bool", r)
                    else:
                        raise Opaque("arithmetic %s on the character" % op)
                elif k == "cast":
                    a = self.read_op(env, rv["op"])
                    if a[0] == "cell" and rv["cast"] == "IntToInt" and rv["ty"] in ("char", "u32", "u64", "usize", "u16"):
                        env[dst] = a   # widening keeps the numeric value
                    elif rv["cast"].startswith("PointerCoercion") and (a[0] == "set" or (a[0] == "ref" and a[1][0] == "set")):
                        env[dst] = a   # &[T; N] -> &[T]
                    else:
                        raise Opaque("cast of %s to %s" % (a[0], rv["ty"]))
                elif k == "agg" and rv["agg"] == "tuple":
                    env[dst] = ("tuple", {i: self.read_op(env, o) for i, o in enumerate(rv["ops"])})
                elif k == "agg" and rv["agg"] == "array" and all(self.read_op(env, o)[0] == "int" for o in rv["ops"]):
                    env[dst] = ("set", frozenset(self.read_op(env, o)[1] for o in rv["ops"]))      # `['a', 'b'].contains(&c)`
                else:
                    raise Opaque("rvalue %s" % k)
            t = blk["t"]
            k = t["k"]
            if k == "goto":
                bb = t["target"]
            elif k == "return":
                if lenient:
                    return "return", passed_err
                r = env.get(0, ("unk",))
                if r[0] != "bool":
                    raise Opaque("predicate returns a non-boolean abstract value")
                return r[1]
            elif k == "switch":
                d = self.read_op(env, t["discr"])
                if d[0] == "bool":
                    val = 1 if d[1] else 0
                    nxt = [b for v, b in t["targets"] if v == val]
                    bb = nxt[0] if nxt else t["otherwise"]
                elif d[0] == "cell":
                    nxt = [b for v, b in t["targets"] if lo == hi == v]
                    if not nxt and any(lo <= v <= hi for v, _ in t["targets"]):
                        raise Opaque("cell straddles a switch value")
                    bb = nxt[0] if nxt else t["otherwise"]
                elif d[0] == "int":
                    nxt = [b for v, b in t["targets"] if v == d[1]]
                    bb = nxt[0] if nxt else t["otherwise"]
                else:
                    raise Opaque("switch on %s" % d[0])
            elif k == "call":
                f = callee(t)
                if f is None:
                    raise Opaque("indirect call")
                n = norm(f["name"])
                args = [self.read_op(env, a) for a in t["args"]]
                dst = t["dest"]
                if dst["p"]:
                    raise Opaque("call result written through projection")
                def _deref(v):
                    while v[0] == "ref":
                        v = v[1]
                    return v
                if n.endswith("<impl [T]>::contains") and len(args) == 2 and _deref(args[0])[0] == "set" and _deref(args[1])[0] == "cell":
                    members = _deref(args[0])[1]
                    inside = [m for m in members if lo <= m <= hi]
                    if inside and lo != hi:
                        raise Opaque("cell straddles an array constant")
                    env[dst["l"]] = ("bool", bool(inside))
                elif n in CLASSIFIERS:
                    a = args[0]
                    while a[0] == "ref":
                        a = a[1]
                    if a[0] != "cell":
                        raise Opaque("classifier applied to %s" % a[0])
                    env[dst["l"]] = ("bool", in_set(CLASSIFIERS[n], lo, hi))
                else:
                    tgt = None
                    for tid in (f.get("inst"), f["def"]):
                        if tid in self.prog.bodies:
                            tgt = self.prog.bodies[tid]
                            break
                    if tgt is None or (lenient and "bool" not in tgt.local_ty(0)):
                        if lenient:
                            env[dst["l"]] = ("unk",)
                            if t.get("target") is None:
                                raise Opaque("diverging call")
                            bb = t["target"]
                            continue
                        raise Opaque("call to %s" % n)
                    env[dst["l"]] = ("bool", self.run(tgt, args, cell, depth + 1))
                bb = t["target"]
            elif k == "drop":
                bb = t["target"]
            elif k == "assert" and lenient and t.get("target") is not None:
                bb = t["target"]   # loop-body mode follows the non-panicking edge
            else:
                raise Opaque("terminator %s" % k)

    def _assign(self, env, dst, rv, lo, hi):
        k = rv["k"]
        if k == "use":
            env[dst] = self.read_op(env, rv["op"])
        elif k == "ref":
            env[dst] = ("ref", self.read_place(env, rv["place"]))
        elif k == "unop":
            a = self.read_op(env, rv["a"])
            if rv["op"] == "Not" and a[0] == "bool":
                env[dst] = ("bool", not a[1])
            else:
                raise Opaque("unary")
        elif k == "binop":
            a = self.read_op(env, rv["a"])
            b = self.read_op(env, rv["b"])
            op = rv["op"]
            if op in CMP:
                if a[0] == "cell" and b[0] == "int":
                    env[dst] = ("bool", self._cmp(op, lo, hi, b[1]))
                elif a[0] == "int" and b[0] == "cell":
                    env[dst] = ("bool", self._cmp(FLIP[op], lo, hi, a[1]))
                elif a[0] == "int" and b[0] == "int":
                    env[dst] = ("bool", CMP[op](a[1], b[1]))
                elif a[0] == "bool" and b[0] == "bool" and op in ("Eq", "Ne"):
                    env[dst] = ("bool", CMP[op](a[1], b[1]))
                else:
                    raise Opaque("comparison")
            elif op in ("BitAnd", "BitOr", "BitXor") and a[0] == "bool" and b[0] == "bool":
                env[dst] = ("bool", {"BitAnd": a[1] and b[1], "BitOr": a[1] or b[1], "BitXor": a[1] != b[1]}[op])
            else:
                raise Opaque("arithmetic")
        elif k == "cast":
            a = self.read_op(env, rv["op"])
            if a[0] == "cell" and rv["cast"] == "IntToInt" and rv["ty"] in ("char", "u32", "u64", "usize", "u16"):
                env[dst] = a
            else:
                raise Opaque("cast")
        elif k == "agg" and rv["agg"] == "tuple":
            env[dst] = ("tuple", {i: self.read_op(env, o) for i, o in enumerate(rv["ops"])})
        else:
            raise Opaque("rvalue %s" % k)

    @staticmethod
    def _cmp(op, lo, hi, k):
        # the partition guarantees the cell is entirely <k, ==k or >k
        if lo == hi == k:
            rep = k
        elif hi < k:
            rep = lo
        elif lo > k:
            rep = lo
        else:
            raise Opaque("cell straddles constant %d" % k)
        return CMP[op](rep, k)


def _split_top(s):
    parts = []
    depth = 0
    cur = ""
    for ch in s:
        if ch in "(<[":
            depth += 1
        elif ch in ")>]":
            depth -= 1
        if ch == "," and depth == 0:
            parts.append(cur.strip())
            cur = ""
        else:
            cur += ch
    if cur.strip():
        parts.append(cur.strip())
    return parts


def accept_set(prog, body, extra_cuts=()):
    """Exact set of characters for which the predicate body returns true.

    The character is found in the predicate's (single non-environment) argument by its type:
    `char`, `u8`, references to them, or tuples containing exactly one of them."""
    ev = _Eval(prog)
    argc = body.mir["argc"]
    first = 2 if body.kind == "Closure" else 1
    arg_vals = []
    width = None
    ncell = 0
    for i in range(1, argc + 1):
        if i < first:
            arg_vals.append(("unk",))
            continue
        ty = body.local_ty(i)
        shape = ev.shape_of_type(ty)
        arg_vals.append(shape)
        ncell += _count_cells(shape)
        if "char" in ty:
            width = MAXC
        elif "u8" in ty:
            width = 0xFF if width is None else width
    if ncell != 1 or width is None:
        raise Opaque("cannot locate exactly one character argument (found %d)" % ncell)
    cuts = {0, width + 1}
    cuts |= {c for c in ev.cut_points(body) if 0 <= c <= width + 1}
    cuts |= {c for c in extra_cuts if 0 <= c <= width + 1}
    cuts = sorted(cuts)
    acc = []
    ncells = 0
    for a, b in zip(cuts, cuts[1:]):
        ncells += 1
        if ev.run(body, arg_vals, (a, b - 1)):
            acc.append((a, b - 1))
    return normalise(acc), width, ncells


def _count_cells(shape):
    if shape[0] == "cell":
        return 1
    if shape[0] == "ref":
        return _count_cells(shape[1])
    if shape[0] == "tuple":
        return sum(_count_cells(v) for v in shape[1].values())
    return 0


def loop_scan_set(prog, body, some_bb, header_bb, opt_local):
    """Loop form of a character scan: `for x in <chars of the input> { if <test x> { return Err(..) } }`.
    `opt_local` holds the `Option<item>` the iterator yielded, `some_bb` is the block entered for `Some`, `header_bb`
    the block that asks for the next item.  Returns (set of characters for which the body leaves through a return, do
    all of those returns pass an `_0 = Err(..)`, width, cells)."""
    ev = _Eval(prog)
    ty = body.local_ty(opt_local)
    if not ty.startswith("core::option::Option<") or not ty.endswith(">"):
        raise Opaque("loop item is not an Option")
    inner = ty[len("core::option::Option<"):-1]
    shape = ev.shape_of_type(inner)
    if _count_cells(shape) != 1:
        raise Opaque("cannot locate exactly one character in the loop item %s" % inner)
    width = MAXC if "char" in inner else 0xFF
    cuts = {0, width + 1} | {c for c in ev.cut_points(body) if 0 <= c <= width + 1}
    cuts = sorted(cuts)
    bad = []
    err_ok = True
    n = 0
    for a, b in zip(cuts, cuts[1:]):
        n += 1
        label, passed = ev.run(body, [], (a, b - 1), start=some_bb, env0={opt_local: ("tuple", {0: shape})}, stops={header_bb: "continue"})
        if label == "return":
            bad.append((a, b - 1))
            err_ok = err_ok and passed
    return normalise(bad), err_ok, width, n


def loop_flag_set(prog, body, some_bb, header_bb, opt_local, flag_local):
    """Loop over the characters of a string that sets a boolean flag: the set of characters for which the loop body assigns
    `true` to `flag_local` (e.g. `needs_quotes`).  Returns (set, width, cells)."""
    ev = _Eval(prog)
    ty = body.local_ty(opt_local)
    if not ty.startswith("core::option::Option<") or not ty.endswith(">"):
        raise Opaque("loop item is not an Option")
    inner = ty[len("core::option::Option<"):-1]
    shape = ev.shape_of_type(inner)
    if _count_cells(shape) != 1:
        raise Opaque("cannot locate exactly one character in the loop item %s" % inner)
    width = MAXC if "char" in inner else 0xFF
    cuts = sorted({0, width + 1} | {c for c in ev.cut_points(body) if 0 <= c <= width + 1})
    hit = []
    n = 0
    for a, b in zip(cuts, cuts[1:]):
        n += 1
        ev.trace = []
        ev.run(body, [], (a, b - 1), start=some_bb, env0={opt_local: ("tuple", {0: shape})}, stops={header_bb: "continue"})
        if (flag_local, True) in ev.trace:
            hit.append((a, b - 1))
    ev.trace = None
    return normalise(hit), width, n
