"""Shared driver for the A4/A9 analyses of the client's connection loop."""
from .callgraph import norm
from .common import body_by_name, callee_names, family
from .typestate import (AC, CANCEL_SAFE_EXTERNAL, CARRIERS, Analysis, ONESEND, EVSEND, RECV)

_CACHE = {}

SPAWN = "tokio::task::spawn::spawn"


def loop_roots(prog):
    """(spawn root async fn, iteration fn, list of loop async fns) found structurally:
    the root is the workspace async fn whose future is handed to tokio::spawn in mpd_client;
    the iteration fn is the async fn it awaits inside a cycle."""
    from .cfg import Cfg
    an = Analysis(prog)
    root = None
    for b in prog.bodies.values():
        if b.crate != "mpd_client":
            continue
        for bb, t in b.calls():
            if SPAWN in callee_names(t):
                info = an.info(b)
                d = info.fut_of(t["args"][0].get("move", t["args"][0].get("copy", {})).get("l"))
                if d is not None and d[0] == "ws":
                    root = prog.bodies[d[1]]
    if root is None:
        return None, None, []
    co = an.coroutine_of(root)
    info = an.info(co)
    g = Cfg(co)
    iteration = None
    for bb, (d, res) in info.await_at.items():
        if d is not None and d[0] == "ws" and any(bb in l for l in g.loops):
            iteration = prog.bodies[d[1]]
    # all async fns reachable from the root through awaited / deferred workspace futures
    fns = []
    work = [root]
    while work:
        f = work.pop()
        if f.id in [x.id for x in fns]:
            continue
        fns.append(f)
        c = an.coroutine_of(f)
        if c is None:
            continue
        for l, d in an.info(c).fut.items():
            dd = d
            while dd[0] == "timeout":
                dd = dd[1]
            if dd[0] == "ws" and prog.bodies[dd[1]].crate == "mpd_client":
                work.append(prog.bodies[dd[1]])
    return root, iteration, fns


def analyse(prog):
    key = id(prog)
    if key in _CACHE:
        return _CACHE[key]
    root, iteration, fns = loop_roots(prog)
    if root is None:
        _CACHE[key] = None
        return None
    an = Analysis(prog)
    exits = an.run(root, iteration)
    res = {"an": an, "root": root, "iteration": iteration, "fns": fns, "exits": exits}
    _CACHE[key] = res
    return res


def report_violations(rep, res, rules, cfg):
    """Emit the interpreter's violations of the given rule ids (deduplicated by key)."""
    an = res["an"]
    seen = set()
    for v in an.violations:
        if v["rule"] not in rules:
            continue
        k = (v["rule"], v["key"])
        if k in seen:
            continue
        seen.add(k)
        b = v["body"]
        rep.fail(v["rule"], "%s/%s" % (cfg, v["key"]), b.loc(b.blocks[v["bb"]]["ts"]), "%s  [abstract state: %s]" % (v["msg"], v["state"]))
    return len(seen)


def fn_name(prog, body):
    return norm(prog.bodies[body.root].name) if body.root in prog.bodies else norm(body.name)


def has_write(an, d, depth=0):
    """Does completing future `d` involve writing to the connection (transitively)?"""
    if depth > 6:
        return False
    if d[0] == "conn":
        return d[1] in ("send", "send_list", "roundtrip")
    if d[0] == "timeout":
        return has_write(an, d[1], depth + 1)
    if d[0] in ("ws", "block"):
        body = an.prog.bodies[d[1]]
        co = an.coroutine_of(body) if d[0] == "ws" else body
        if co is None:
            return False
        return any(has_write(an, x, depth + 1) for x in an.info(co).fut.values())
    return False


def carriers_saved(prog, an, d, depth=0):
    """Types owning already-consumed input that live across a suspension point of future `d`
    (transitive coroutine witnesses)."""
    out = set()
    if depth > 6:
        return out
    if d[0] == "timeout":
        return carriers_saved(prog, an, d[1], depth + 1)
    bodies = []
    if d[0] == "conn":
        name = {"receive": AC + "receive", "send": AC + "send", "send_list": AC + "send_list", "roundtrip": AC + "command"}[d[1]]
        for b in body_by_name(prog, name):
            bodies += family(prog, b)
    elif d[0] == "ws":
        bodies += family(prog, prog.bodies[d[1]])
    elif d[0] == "block":
        bodies += [b for b in prog.bodies.values() if b.id == d[1] or b.id.startswith(d[1] + "::")]
    for b in bodies:
        for w in b.witness or []:
            for c in CARRIERS:
                if c in w["ty"]:
                    out.add(c.rsplit("::", 1)[-1])
        # futures awaited inside
        if b.raw.get("coroutine"):
            for x in an.info(b).fut.values():
                if x[0] in ("conn", "ws", "block", "timeout") and x != d:
                    out |= carriers_saved(prog, an, x, depth + 1)
    return out
