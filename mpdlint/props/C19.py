"""C19 — frames and responses behave as ordered collections (DESIGN.md §4/C19, narrow clause)."""
from .. import tables
from ..callgraph import norm
from ..cfg import Cfg, reach
from ..common import body_by_name, callee_names, family, last_named_field, ref_field_of_local
from ..facts import callee, op_local, op_place
from ..flow import Flow, identity_through

CONFIGS_QUICK = ["K1"]
CONFIGS_THOROUGH = ["K1", "K3"]
TECHNIQUE = "static analysis: sibling delegation rules over iterator impls (resolved callees), control dependence of the error/frames order (MIR)"

IT = "core::iter::traits::iterator::Iterator::"
DE = "core::iter::traits::double_ended::DoubleEndedIterator::"
EX = "core::iter::traits::exact_size::ExactSizeIterator::"
FORWARD = {"next", "nth", "last", "count", "find", "find_map", "position", "fold", "for_each", "advance_by", "skip", "take", "any", "all"}
BACKWARD = {"next_back", "nth_back", "rfind", "rfold", "rposition", "advance_back_by", "rev", "try_rfold"}
NEUTRAL = {"size_hint", "len", "map", "by_ref", "is_empty"}


def iter_calls(body):
    out = []
    for bb, t in body.calls():
        for n in callee_names(t):
            for pre in (IT, DE, EX):
                if n.startswith(pre) and "::" not in n[len(pre):]:
                    out.append((n[len(pre):], bb))
                    break
            else:
                continue
            break
    return out


def wrapper_types(prog):
    """impl records of Iterator / DoubleEndedIterator / ExactSizeIterator for workspace types of the
    response modules."""
    out = []
    for imp in prog.impls:
        info = imp["info"]
        tn = norm(info.get("trait_name", "") or "")
        if tn not in ("core::iter::traits::iterator::Iterator", "core::iter::traits::double_ended::DoubleEndedIterator",
                      "core::iter::traits::exact_size::ExactSizeIterator"):
            continue
        st = info.get("self", "")
        if st.startswith(("mpd_protocol::response::", "mpd_client::responses::list::")):
            out.append(imp)
    return out


def delegation_rule(rep, prog, cfg):
    rule = "C19.delegation"
    types = {}
    for imp in wrapper_types(prog):
        st = imp["info"]["self"]
        short = st.split("<")[0].rsplit("::", 1)[-1]
        types.setdefault(short, []).append(imp)
        for it in imp["items"]:
            if it["kind"] != "AssocFn" or it["def"] not in prog.bodies:
                continue
            m = it["name"]
            b = prog.bodies[it["def"]]
            calls = []
            for fb in family(prog, b):
                calls += iter_calls(fb)
            direction = "fwd" if m in FORWARD else "back" if m in BACKWARD else None
            wrong = []
            same = False
            for name, bb in calls:
                if name == m or (m == "size_hint" and name in ("size_hint", "len")) or (m == "len" and name in ("len", "size_hint")):
                    same = True
                    continue
                if direction == "fwd" and name in BACKWARD:
                    wrong.append(name)
                if direction == "back" and name in FORWARD:
                    wrong.append(name)
                if direction is None and name in FORWARD | BACKWARD:
                    wrong.append(name)
            inst = "%s/%s::%s" % (cfg, short, m)
            rep.check(not wrong, rule, inst + " direction", b.loc(b.span),
                      "%s::%s calls the opposite-direction / consuming iterator method(s) %s of the wrapped iterator: items would come out of wire order"
                      % (short, m, sorted(set(wrong))), detail={"inner_calls": sorted({n for n, _ in calls})})
            # GroupedListValuesIter::next folds several inner items into one: it draws with next() in a loop
            rep.check(same, rule, inst + " delegates", b.loc(b.span),
                      "%s::%s does not call the same-named method of the wrapped iterator (calls: %s)" % (short, m, sorted({n for n, _ in calls})))
    rep.floor(rule, cfg + "/iterator wrapper types", len(types), 4 if cfg == "K3" else 7)
    return types


def hole_skip_rule(rep, prog, cfg):
    """Fields / IntoIter walk a vector of optional slots (Frame::get leaves `None` holes).  On a hole the method must go on to the
    next slot by re-entering itself (recursion) or looping back to the inner call — returning from the hole arm (e.g.
    `inner.next().flatten()`, which steps over exactly one hole) ends the iteration early when two removed fields are adjacent."""
    rule = "C19.delegation"
    n = 0
    for imp in wrapper_types(prog):
        st = imp["info"]["self"]
        short = st.split("<")[0].rsplit("::", 1)[-1]
        if short not in ("Fields", "IntoIter"):
            continue
        for it in imp["items"]:
            if it["name"] not in ("next", "next_back") or it["def"] not in prog.bodies:
                continue
            b = prog.bodies[it["def"]]
            g = Cfg(b)
            inner = [bb for bb, t in b.calls() if any(x in (IT + "next", DE + "next_back") for x in callee_names(t))
                     and t["args"] and ref_field_of_local(b, op_local(t["args"][0])) is not None]
            inst = "%s/%s::%s skips every hole" % (cfg, short, it["name"])
            flat = [bb for bb, t in b.calls() if any(x == IT + "flatten" for x in callee_names(t))]
            if not inner and flat:
                # `self.iter.by_ref().flatten().next()`: the adapter steps over every hole by construction
                n += 1
                rep.ok(rule, inst)
                continue
            if not inner:
                rep.fail(rule, inst, b.loc(b.span), "no call of the wrapped iterator in %s::%s (idiom unknown: failing closed)" % (short, it["name"]))
                continue
            n += 1
            again = set(inner) | {bb for bb, t in b.calls() if (callee(t) or {}).get("inst") == b.id}
            # decided on the outcome (A13): with the wrapped iterator's result holding Some(None) — an emptied slot — no return is
            # reachable without calling the wrapped iterator or this method again; whatever form the test takes (`match`, `?` +
            # `match`, `is_some()`, `flatten` of one step is NOT enough: it returns None for the second of two adjacent holes)
            from ..cfg import VariantReach
            vr = VariantReach(b)
            bad = None
            for ib in inner:
                res = b.blocks[ib]["t"]["dest"]["l"]
                after = vr.blocks_after_def(ib, res, ("Some", "None"), avoid=again)
                escapes = sorted(x for x in after if b.blocks[x]["t"]["k"] == "return")
                if escapes:
                    bad = (b.blocks[ib]["ts"], "%s::%s can return after the wrapped iterator yielded an emptied slot (Some(None)) without trying the next "
                           "slot again: with removed fields the iteration ends (or yields None) while fields remain" % (short, it["name"]))
                    break
                # ... and a real element is handed out: with Some(Some(..)) a return is reachable without another step
                some = vr.blocks_after_def(ib, res, ("Some", "Some"), avoid=again)
                if not any(b.blocks[x]["t"]["k"] == "return" for x in some):
                    bad = (b.blocks[ib]["ts"], "%s::%s never returns the element the wrapped iterator yielded" % (short, it["name"]))
                    break
            rep.check(bad is None, rule, inst, b.loc(bad[0] if bad else b.span), bad[1] if bad else "")
    rep.floor(rule, cfg + "/hole-skipping methods", n, 4)


def variant_edge(body, call_bb, variant_value):
    """(switch block, target) taken when the Option returned by the call in call_bb has the given
    discriminant (0 = None, 1 = Some)."""
    t = body.blocks[call_bb]["t"]
    res = t["dest"]["l"]
    nb = t["target"]
    for _ in range(4):
        blk = body.blocks[nb]
        sw = blk["t"]
        if sw["k"] == "switch":
            dl = op_local(sw["discr"])
            ok = False
            for s in blk["s"]:
                if s["k"] == "assign" and s["place"]["l"] == dl and s["rv"]["k"] == "discr" and s["rv"]["place"]["l"] == res:
                    ok = True
            if not ok:
                return None
            hit = [b for v, b in sw["targets"] if v == variant_value]
            if hit:
                return (nb, hit[0])
            return (nb, sw["otherwise"])
        if sw["k"] == "goto":
            nb = sw["target"]
            continue
        return None
    return None


def error_last_rule(rep, prog, cfg):
    rule = "C19.error-last"
    n = 0
    for imp in wrapper_types(prog):
        st = imp["info"]["self"]
        short = st.split("<")[0].rsplit("::", 1)[-1]
        if short not in ("FramesRef", "Frames"):
            continue
        for it in imp["items"]:
            if it["name"] not in ("next", "next_back") or it["def"] not in prog.bodies:
                continue
            b = prog.bodies[it["def"]]
            g = Cfg(b)
            inner = err = None
            for bb, t in b.calls():
                ns = callee_names(t)
                f = ref_field_of_local(b, op_local(t["args"][0])) if t["args"] and op_local(t["args"][0]) is not None else None
                if any(x in (IT + "next", DE + "next_back") for x in ns) and f == "frames":
                    inner = bb
                if "core::option::Option::take" in ns and f == "error":
                    err = bb
            inst = "%s/%s::%s" % (cfg, short, it["name"])
            if inner is None or err is None:
                rep.fail(rule, inst, b.loc(b.span), "cannot find the frame-iterator call and the error take() (idiom unknown: failing closed)")
                continue
            n += 1
            first, second = (inner, err) if it["name"] == "next" else (err, inner)
            e = variant_edge(b, first, 0)
            ok = e is not None and second not in reach(g.succs, [0], avoid_edges=[e]) and g.dom(first, second)
            what = ("the error is taken although the frame iterator still yielded a frame" if it["name"] == "next"
                    else "a frame is taken from the back although the error has not been yielded yet: that frame is lost (eager evaluation)")
            rep.check(ok, rule, inst, b.loc(b.blocks[second]["ts"]),
                      "%s::%s: %s — the second source must be consulted only on the None edge of the first" % (short, it["name"], what))
    rep.floor(rule, cfg + "/sites", n, 4)


def two_source_rule(rep, prog, cfg):
    """FramesRef / Frames yield the frames and then one error item: two sources.  Only next / next_back / size_hint (and
    ExactSizeIterator::len) can be written by plain delegation; a positional shortcut (nth, last, count, fold, advance_by,
    ...) delegated to the frame iterator alone gives the error item a wrong position.  Such an override is not decided by
    this check and is reported (the defaults, built on next/next_back, are the reference)."""
    rule = "C19.error-last"
    allowed = {"next", "next_back", "size_hint", "len"}
    n = 0
    for imp in wrapper_types(prog):
        st = imp["info"]["self"]
        short = st.split("<")[0].rsplit("::", 1)[-1]
        if short not in ("FramesRef", "Frames"):
            continue
        for it in imp["items"]:
            if it["def"] not in prog.bodies:
                continue
            n += 1
            b = prog.bodies[it["def"]]
            rep.check(it["name"] in allowed, rule, "%s/%s::%s overridden" % (cfg, short, it["name"]), b.loc(b.span),
                      "%s overrides Iterator::%s: on an iterator whose last item is the error, a positional shortcut that delegates to the frame "
                      "iterator cannot place the error item correctly (e.g. nth past the end must be None, not the error); only next, next_back "
                      "and size_hint are decided here" % (short, it["name"]))
    rep.floor(rule, cfg + "/two-source iterator methods", n, 6)


def single_frame_rule(rep, prog, cfg):
    """Response::into_single_frame is the first item of the response's own iteration (first frame, else the error): it must
    be taken from the response's iterator, or consult the error only on the None edge of the frames."""
    rule = "C19.first-match"
    F = "mpd_protocol::response::Response::into_single_frame"
    bs = body_by_name(prog, F)
    if len(bs) != 1:
        rep.fail(rule + ".anchor", cfg + "/Response::into_single_frame", F, "public anchor not found")
        return
    b = bs[0]
    g = Cfg(b)
    names = set()
    for bb, t in b.calls():
        names.update(callee_names(t))
    own_iter = any(n.endswith("IntoIterator::into_iter") or n.endswith("Response::frames") or n.endswith("Response::into_iter") for n in names)
    fields_used = set()
    for bb, i, s2 in b.stmts():
        if s2["k"] == "assign":
            for pl in ([s2["rv"].get("place")] if s2["rv"]["k"] in ("ref", "discr") else []) + ([op_place(s2["rv"]["op"])] if s2["rv"]["k"] == "use" else []):
                if pl is not None and pl["l"] == 1:
                    fs = [e["n"] for e in pl["p"] if isinstance(e, dict) and "f" in e and e.get("n")]
                    if fs:
                        fields_used.add(fs[0])
    if own_iter and not fields_used:
        ok = IT + "next" in names and not any(n.rsplit("::", 1)[-1] in BACKWARD or n.endswith("::last") for n in names)
        rep.check(ok, rule, cfg + "/into_single_frame = first item of the iteration", b.loc(b.span),
                  "Response::into_single_frame does not take the first item (next) of the response's own iterator")
        return
    # direct form: the error may be looked at only when there is no frame
    err_reads = [bb for bb, i, s2 in b.stmts() if s2["k"] == "assign" and any(
        pl is not None and pl["l"] == 1 and any(isinstance(e, dict) and e.get("n") == "error" for e in pl["p"])
        for pl in ([s2["rv"].get("place")] if s2["rv"]["k"] in ("ref", "discr") else []) + ([op_place(s2["rv"]["op"])] if s2["rv"]["k"] == "use" else []))]
    frame_next = [bb for bb, t in b.calls() if IT + "next" in callee_names(t)]
    ok = False
    if len(frame_next) == 1 and err_reads:
        e = variant_edge(b, frame_next[0], 0)
        ok = e is not None and all(x not in reach(g.succs, [0], avoid_edges=[e]) for x in err_reads)
        if e is not None and not ok:
            # `let Response { frames, error } = self;` moves the error out up front without looking at it: what counts is that
            # no value derived from it is *returned* unless the frames gave None
            from ..flow import Flow
            fl = Flow(b)
            starts = [s2["place"]["l"] for bb, i, s2 in b.stmts() if bb in err_reads and s2["k"] == "assign" and not s2["place"]["p"] and any(
                pl is not None and pl["l"] == 1 and any(isinstance(e2, dict) and e2.get("n") == "error" for e2 in pl["p"])
                for pl in ([s2["rv"].get("place")] if s2["rv"]["k"] in ("ref", "discr") else []) + ([op_place(s2["rv"]["op"])] if s2["rv"]["k"] == "use" else []))]
            derived, _ = fl.forward(starts, through_call=lambda t, ai: True)
            with_frame = reach(g.succs, [0], avoid_edges=[e])
            bad = []
            for bb in with_frame:
                blk = b.blocks[bb]
                for s2 in blk["s"]:
                    if s2["k"] == "assign" and s2["place"]["l"] == 0:
                        rv = s2["rv"]
                        ops = rv.get("ops", []) + [rv[k] for k in ("op", "a", "b") if k in rv]
                        if any(op_local(o) in derived for o in ops) or (rv["k"] in ("ref", "discr") and rv["place"]["l"] in derived):
                            bad.append(bb)
                    elif s2["k"] == "assign" and s2["rv"]["k"] == "discr" and s2["rv"]["place"]["l"] in derived and bb not in err_reads:
                        bad.append(bb)        # a decision taken on the error while a frame may be there
                t = blk["t"]
                if t["k"] == "call" and t["dest"]["l"] == 0 and any(op_local(a) in derived for a in t["args"]):
                    bad.append(bb)
                if t["k"] == "switch" and op_local(t["discr"]) in derived:
                    bad.append(bb)
            ok = bool(starts) and not bad
    rep.check(ok, rule, cfg + "/into_single_frame = first item of the iteration", b.loc(b.span),
              "Response::into_single_frame consults the error although a frame may precede it (or the idiom is unknown): for a response with frames "
              "followed by an error it would disagree with frames().next(), which yields the first frame")


def exact_rule(rep, prog, cfg, types):
    rule = "C19.exact"
    for short, imps in sorted(types.items()):
        traits = {norm(i["info"]["trait_name"]).rsplit("::", 1)[-1]: i for i in imps}
        if "ExactSizeIterator" not in traits:
            continue
        it = traits.get("Iterator")
        sh = [x for x in it["items"] if x["name"] == "size_hint"] if it else []
        if not sh or sh[0]["def"] not in prog.bodies:
            rep.fail(rule, "%s/%s defines size_hint" % (cfg, short), short,
                     "%s claims ExactSizeIterator but does not define size_hint itself (the default (0, None) violates the exact-size contract)" % short)
            continue
        b = prog.bodies[sh[0]["def"]]
        calls = {n for n, _ in iter_calls(b)}
        rep.check(bool(calls & {"len", "size_hint"}), rule, "%s/%s size_hint from inner" % (cfg, short), b.loc(b.span),
                  "%s::size_hint does not derive from the wrapped iterator's len()/size_hint()" % short)
        if short in ("Frames", "FramesRef"):
            uses_err = any("core::option::Option::is_some" in callee_names(t) and ref_field_of_local(b, op_local(t["args"][0])) == "error"
                           for bb, t in b.calls())
            rep.check(uses_err, rule, "%s/%s size_hint counts the error" % (cfg, short), b.loc(b.span),
                      "%s::size_hint ignores the pending error item" % short)


SEQ_VIEWS = ("iter", "iter_mut", "into_iter", "deref", "deref_mut", "as_slice", "as_mut_slice", "as_ref", "as_mut", "by_ref", "borrow", "borrow_mut")
INDEX_CONSUMERS = ("Iterator::nth", "Iterator::nth_back", "Iterator::skip", "Index::index", "IndexMut::index_mut", "<impl [T]>::get", "<impl [T]>::get_mut",
                   "Vec<T, A>>::remove", "Vec<T, A>>::swap_remove", "<impl [T]>::split_at", "<impl [T]>::split_at_mut")


def _seq_base(body, local):
    from .. import terms
    t = terms.canon(terms.term_of_local(body, local, depth=12))
    while isinstance(t, tuple) and t[0] == "call" and t[1] and len(t[2]) >= 1 and t[1].rsplit("::", 1)[-1].split("::<")[0] in SEQ_VIEWS:
        t = terms.canon(t[2][0])
    return terms.show(t)


def index_domain_rule(rep, prog, cfg, b, what):
    """An index found by `position` over one sequence selects the element only in that same sequence: the hole-skipping view
    (`fields()`) and the backing slots (`fields.0`) number their elements differently once a value was taken."""
    rule = "C19.first-match"
    from ..inline import inlined, module_private_helpers
    b2 = inlined(prog, b, module_private_helpers(b), depth=3)
    fl = Flow(b2)
    pos = {}
    for bb, t in b2.calls():
        if any(n.endswith("Iterator::position") or n.endswith("Iterator::rposition") for n in callee_names(t)) and t["args"]:
            l = op_local(t["args"][0])
            pos[bb] = _seq_base(b2, l) if l is not None else "?"
    agreed = set()
    if not pos:
        return b2, agreed
    n = 0
    for bb, t in b2.calls():
        names = callee_names(t)
        if not any(nm.endswith(c) for nm in names for c in INDEX_CONSUMERS) or len(t["args"]) < 2:
            continue
        il = op_local(t["args"][1])
        if il is None:
            continue
        leaves, _ = fl.sources([il], through_call=lambda t2, kind: range(len(t2["args"])))
        from_pos = sorted(x[1] for x in leaves if x[0] == "call" and x[1] in pos)
        if not from_pos:
            continue
        rl = op_local(t["args"][0])
        base = _seq_base(b2, rl) if rl is not None else "?"
        for pb in from_pos:
            n += 1
            if pos[pb] == base:
                agreed.add(bb)
            rep.check(pos[pb] == base, rule, "%s/%s index used on the sequence it was found in" % (cfg, what), b.loc(b.span),
                      "%s finds the position of the key in `%s` but uses it to select from `%s`: after a value was taken the two number their "
                      "elements differently, so another field's value is returned" % (what, pos[pb], base))
    return b2, agreed


def first_match_rule(rep, prog, cfg):
    rule = "C19.first-match"
    F = "mpd_protocol::response::frame::Frame::"
    for m in ("find", "get"):
        bs = body_by_name(prog, F + m)
        if len(bs) != 1:
            rep.fail(rule + ".anchor", "%s/Frame::%s" % (cfg, m), F + m, "public anchor not found")
            continue
        b = bs[0]
        calls = []
        allnames = set()
        from ..common import with_private_callees
        for fb in with_private_callees(prog, b):
            calls += iter_calls(fb)
            for bb, t in fb.calls():
                allnames.update(callee_names(t))
        back = [n for n, _ in calls if n in BACKWARD or n == "last"]
        fwd = [n for n, _ in calls if n in ("find", "find_map", "position", "next")]
        rep.check(not back and fwd, rule, "%s/Frame::%s scans forward" % (cfg, m), b.loc(b.span),
                  "Frame::%s does not return the FIRST remaining match (uses %s)" % (m, sorted(set(back)) or "no forward search"))
        # the key is compared exactly (the protocol is case-sensitive; `Title` and `title` are different keys)
        from .C03 import INEXACT
        inexact = sorted({n.rsplit("::", 1)[-1].split("::<")[0] for n in allnames
                          if n.rsplit("::", 1)[-1].split("::<")[0] in INEXACT and ("<impl str>" in n or "::str::" in n or "String" in n)
                          and n.rsplit("::", 1)[-1].split("::<")[0] not in ("find", "contains")})
        rep.check(not inexact, rule, "%s/Frame::%s compares keys exactly" % (cfg, m), b.loc(b.span),
                  "Frame::%s matches the key through %s: a differently spelled key would be returned (or removed) in place of the one asked for" % (m, inexact))
        ib, iagreed = index_domain_rule(rep, prog, cfg, b, "Frame::%s" % m)
        if m == "get":
            # the value is removed through the element that matched: Option::take on the closure's own parameter
            # (closure form: the closure's parameter; loop form: the element the forward iterator just yielded, which must
            # also be the element whose key was compared)
            ok = False
            from ..common import with_private_callees
            fam = with_private_callees(prog, b)          # the body may sit in a private method of the container (`take_first`)
            # find-then-take form: `let slot = iter_mut().find(|f| matches!(f, Some((k, _)) if k == key))?; slot.take()` — the
            # element emptied is the one the forward `find` returned, and its predicate compares the element's key
            for fb in fam:
                fl0 = Flow(fb)
                finds = {bb: t for bb, t in fb.calls() if IT + "find" in callee_names(t)}
                for bb, t in fb.calls():
                    if "core::option::Option::take" in callee_names(t):
                        lv, _ = fl0.sources([op_local(t["args"][0])], through_call=identity_through, follow_mut=False)
                        for x in lv:
                            if x[0] == "call" and x[1] in finds:
                                from ..scans import closure_of_local
                                pb = None
                                for a in finds[x[1]]["args"]:
                                    if op_local(a) is not None and "closure@" in fb.local_ty(op_local(a)):
                                        pb = closure_of_local(prog, fb, op_local(a))
                                if pb is not None:
                                    flp = Flow(pb)
                                    for _, t2 in pb.calls():
                                        if any(n.endswith(("PartialEq::eq", "::eq", "PartialEq::ne", "::ne")) for n in callee_names(t2)) and len(t2["args"]) == 2:
                                            srcs = [flp.sources([op_local(a)] if op_local(a) is not None else [], through_call=identity_through, follow_mut=False)[0]
                                                    for a in t2["args"]]
                                            if any(("param", 2) in sx for sx in srcs):
                                                ok = True
            for fb in fam:
                fl = Flow(fb)
                nexts = {bb for bb, t in fb.calls() if IT + "next" in callee_names(t)}
                for bb, t in fb.calls():
                    if "core::option::Option::take" in callee_names(t):
                        leaves, _ = fl.sources([op_local(t["args"][0])], through_call=identity_through, follow_mut=False)
                        if fb.kind == "Closure" and ("param", 2) in leaves:
                            ok = True
                        elem = {x for x in leaves if x[0] == "call" and x[1] in nexts}
                        if elem:
                            for bb2, t2 in fb.calls():
                                if any(n.endswith(("PartialEq::eq", "::eq", "PartialEq::ne", "::ne")) for n in callee_names(t2)) and len(t2["args"]) == 2:
                                    for a in t2["args"]:
                                        la, _ = fl.sources([op_local(a)] if op_local(a) is not None else [], through_call=identity_through, follow_mut=False)
                                        if elem & la:
                                            ok = True
            # position-then-index form: `let i = slots.iter().position(|f| key matches)?; slots[i].take()` — the element emptied is
            # selected, in the same sequence, by the index of the first match (index_domain_rule)
            if not ok and iagreed:
                fli = Flow(ib)
                for bb, t in ib.calls():
                    if "core::option::Option::take" in callee_names(t) and op_local(t["args"][0]) is not None:
                        lv, _ = fli.sources([op_local(t["args"][0])], through_call=identity_through, follow_mut=False)
                        if any(x[0] == "call" and x[1] in iagreed for x in lv):
                            ok = True
            rep.check(ok, rule, cfg + "/Frame::get removes the matched element", b.loc(b.span),
                      "Frame::get does not take the value out of the very element it matched")
    bs = body_by_name(prog, F + "fields_len")
    if len(bs) == 1:
        names = set()
        for bb, t in bs[0].calls():
            names.update(callee_names(t))
        rep.check(F + "fields" in names and IT + "count" in names, rule, cfg + "/fields_len = fields().count()", bs[0].loc(bs[0].span),
                  "Frame::fields_len does not count what Frame::fields() iterates (length and iteration may disagree after get())")
    else:
        rep.fail(rule + ".anchor", cfg + "/Frame::fields_len", F + "fields_len", "public anchor not found")
    # has_binary() is the presence of the blob, whatever its content (a zero-length blob is a blob: binary() and take_binary()
    # hand it out): sibling accessors must agree
    bs = body_by_name(prog, F + "has_binary")
    if len(bs) == 1:
        names = set()
        for fb in family(prog, bs[0]):
            for bb, t in fb.calls():
                names.update(n.rsplit("::", 1)[-1].split("::<")[0] for n in callee_names(t)[:1])
        extra = sorted(names - {"is_some", "is_none", "as_ref", "as_deref", "binary", "deref"})
        rep.check(("is_some" in names or "is_none" in names) and not extra, rule, cfg + "/has_binary = presence of the blob", bs[0].loc(bs[0].span),
                  "Frame::has_binary looks at more than the presence of the blob (%s): it would disagree with binary() / take_binary(), which hand out "
                  "an empty blob, and with is_empty()" % extra)
    else:
        rep.fail(rule + ".anchor", cfg + "/Frame::has_binary", F + "has_binary", "public anchor not found")
    # take_binary() (on the frame and on its by-value iterator) removes the blob: the documented contract is that a second call, binary()
    # and has_binary() then see nothing.  The blob must leave the field through Option::take / mem::take / mem::replace (or the field be
    # reassigned) — handing out a clone leaves the frame non-empty for ever.
    tb = [b for b in prog.bodies.values() if norm(b.name).endswith("::take_binary") and "mpd_protocol::response::frame" in b.id]
    for b in tb:
        owner = norm(b.name).rsplit("::", 2)[-2]
        removes = False
        for bb, t in b.calls():
            nm = [n.split("::<")[0] for n in callee_names(t)]
            if any(n in ("core::option::Option::take", "core::option::Option::<T>::take", "core::mem::take", "core::mem::replace") or
                   n.endswith("Option::<T>::take") for n in nm) and t["args"] and ref_field_of_local(b, op_local(t["args"][0])) == "binary":
                removes = True
        for bb, i, st in b.stmts():
            if st["k"] == "assign" and last_named_field(st["place"]) == "binary" and st["place"]["p"] and st["place"]["p"][-1] != "*":
                removes = True
        rep.check(removes, rule, cfg + "/%s::take_binary removes the blob" % owner, b.loc(b.span),
                  "%s::take_binary never takes the blob out of the `binary` field (no Option::take / mem::take / mem::replace on it, no reassignment): "
                  "the blob is handed out again on every call and has_binary()/is_empty() keep reporting it" % owner)
    rep.floor(rule, cfg + "/take_binary methods", len(tb), 2)
    bs = body_by_name(prog, F + "is_empty")
    if len(bs) == 1:
        names = set()
        for bb, t in bs[0].calls():
            names.update(callee_names(t))
        rep.check(F + "fields_len" in names or F + "fields" in names, rule, cfg + "/is_empty from fields", bs[0].loc(bs[0].span),
                  "Frame::is_empty does not derive from the remaining fields")
        # ... and it is exactly "no field remains and no blob": decided by evaluating the function under the four assignments of
        # the two facts (A14) — E: the remaining-field count compared with the constant 0, B: has_binary() / binary.is_some()
        from ..cfg import BoolReach
        from ..facts import const_int, op_const
        b = bs[0]
        lens = {t["dest"]["l"] for bb, t in b.calls() if any(n in (F + "fields_len", IT + "count", EX + "len") for n in callee_names(t))}
        # `self.fields().next().is_none()`: "no field remains" asked of the hole-skipping iterator itself
        firsts = {t["dest"]["l"] for bb, t in b.calls() if IT + "next" in callee_names(t)}
        fl_e = Flow(b)

        def atom_of(kind, bb, obj):
            if kind == "call":
                ns = callee_names(obj)
                if F + "has_binary" in ns:
                    return ("B", False)
                if any(n.endswith("Option::<T>::is_some") or n.endswith("Option::is_some") for n in ns) and obj["args"] and \
                        ref_field_of_local(b, op_local(obj["args"][0])) == "binary":
                    return ("B", False)
                if any(n.endswith("Option::<T>::is_none") or n.endswith("Option::is_none") for n in ns) and obj["args"] and \
                        ref_field_of_local(b, op_local(obj["args"][0])) == "binary":
                    return ("B", True)
                if any(n.rsplit("::", 1)[-1] in ("is_none", "is_some") and "Option" in n for n in ns) and obj["args"] and op_local(obj["args"][0]) is not None:
                    lv, vis = fl_e.sources([op_local(obj["args"][0])], through_call=identity_through, follow_mut=False)
                    if any(x[0] == "call" and b.blocks[x[1]]["t"]["dest"]["l"] in firsts for x in lv) or (vis & firsts):
                        return ("E", any(n.endswith("is_some") for n in ns))
                return None
            rv = obj["rv"]
            if rv["op"] not in ("Eq", "Ne"):
                return None
            for x, y in ((rv["a"], rv["b"]), (rv["b"], rv["a"])):
                if op_local(x) in lens and const_int(op_const(y)) == 0:
                    return ("E", rv["op"] == "Ne")
            return None
        br = BoolReach(b, atom_of)
        table = {(e, bn): br.return_values(0, {"E": e, "B": bn}) for e in (False, True) for bn in (False, True)}
        want = {(e, bn): {e and not bn} for e in (False, True) for bn in (False, True)}
        rep.check(table == want, rule, cfg + "/is_empty = no fields remain and no blob", b.loc(b.span),
                  "Frame::is_empty is not `fields_len() == 0 && !has_binary()`: under (no fields remain, has blob) = %s it returns %s (None = not decided "
                  "by those two facts, e.g. the count is compared with another constant)" %
                  (sorted(k for k in table if table[k] != want[k]), [sorted(map(str, table[k])) for k in sorted(table) if table[k] != want[k]]),
                  detail={"truth_table": {str(k): sorted(map(str, v)) for k, v in table.items()}})


def run(rep, progs, tier):
    rep.explanation = (
        "Rule-based static analysis (no execution); narrow clause. For every workspace type implementing "
        "Iterator / DoubleEndedIterator by wrapping another iterator (Fields, IntoIter, FramesRef, Frames, "
        "ListValuesIter, ListValuesIntoIter, GroupedListValuesIter) each implemented method must call the "
        "same-named method of the inner iterator and no opposite-direction method (hole-skipping recursion "
        "re-enters the same method); in FramesRef/Frames the error is consulted only on the None edge of "
        "the frame iterator in next(), and the frame iterator only on the None edge of error.take() in "
        "next_back(); ExactSizeIterator types define size_hint from the inner length plus the pending error; "
        "Frame::find/get scan forward and get removes the matched element; fields_len/is_empty derive from "
        "fields(). The multimap behaviour over arbitrary operation sequences is a model-based property and "
        "is NOT decided.")
    rep.rule("C19.delegation", "iterator wrappers delegate each method to the same-direction, same-named inner method")
    rep.rule("C19.error-last", "FramesRef/Frames: frames before error in next, error before frames in next_back, second source only on the None edge")
    rep.rule("C19.exact", "ExactSizeIterator => own size_hint from inner len plus error presence")
    rep.rule("C19.first-match", "Frame::find/get scan forward; get removes the matched element; lengths derive from fields()")
    rep.trusted = ["rustc MIR construction and callee resolution", "mpdfacts exporter", "std iterator semantics (slice::Iter, vec::IntoIter)"]
    for cfg, prog in progs.items():
        all_rules(rep, prog, cfg)


def all_rules(rep, prog, cfg):
    types = delegation_rule(rep, prog, cfg)
    hole_skip_rule(rep, prog, cfg)
    error_last_rule(rep, prog, cfg)
    two_source_rule(rep, prog, cfg)
    single_frame_rule(rep, prog, cfg)
    exact_rule(rep, prog, cfg, types)
    first_match_rule(rep, prog, cfg)
