"""C04 — subsystem notifications exactly once and in order (DESIGN.md §4/C04): clause + known finding."""
from .. import tables
from ..callgraph import norm
from ..cfg import Cfg, reach
from ..common import body_by_name, callee_names, const_value_of, family
from ..facts import callee, op_local, op_place
from ..flow import Flow, identity_through
from ..loopan import analyse, carriers_saved, fn_name
from ..typestate import CANCEL_SAFE_EXTERNAL, EVSEND, AC
from .C20 import fallback_verbatim

CONFIGS_QUICK = ["K1"]
CONFIGS_THOROUGH = ["K1", "K2"]
TECHNIQUE = "static analysis: loop/must-pass-through CFG rules, provenance of event payloads, cancel-safety from coroutine witness types (MIR)"

FROM_FRAME = "mpd_client::client::Subsystem::from_frame"
GET = "mpd_protocol::response::frame::Frame::get"
SINGLE = "mpd_protocol::response::Response::into_single_frame"


def run(rep, progs, tier):
    rep.explanation = (
        "Rule-based static analysis (no execution). (a) wherever the loop turns an idle / noidle reply frame into events, the "
        "event send lies on a CFG cycle that draws the next `changed` entry from the frame, and from the Ok-frame arm of the "
        "reply every path to a return passes that conversion (both sites: idle reply handler and noidle reply); (b) the payload "
        "of every SubsystemChange derives from Subsystem::from_frame, whose value derives from Frame::get with the constant key "
        "\"changed\" only; (c) the catch-all stores the field value unchanged; (d) A9: every future the loop may drop before "
        "completion (select!/timeout branches, found by the A4 interpreter with the wire state at the drop) holds no consumed "
        "input across a suspension point — workspace futures by their transitive coroutine witness types, external futures by "
        "an audited table. (e) order: events are sent in extraction order and Frame::get returns the first remaining match "
        "(C19). NOT decided: delivery by the unbounded channel.")
    rep.rule("C04.all-changed", "conversion of an idle/noidle reply is a loop over all `changed` entries")
    rep.rule("C04.both-sites", "every Ok frame of an idle/noidle reply reaches the conversion before any return")
    rep.rule("C04.no-invention", "event payload <- from_frame <- Frame::get(\"changed\")")
    rep.rule("C04.verbatim", "unknown subsystem names are stored unchanged")
    rep.rule("C04.lossless-queue", "events are never handed over with a lossy send (try_send / broadcast / watch)")
    rep.rule("C04.cancel-safe", "no droppable future holds consumed input across a suspension")
    rep.trusted = ["rustc MIR construction and coroutine witness computation", "mpdfacts exporter", "tokio mpsc delivery and documented cancel safety of recv"]
    rep.rule("C04.names.holes", "imported from C19 when Subsystem::from_frame reaches the frame's field iterator: the iterator steps over every removed field")
    rep.rule("C04.names", "imported from C20 (owner of the name tables): every Subsystem carries its protocol name — as_str / from_frame tables "
             "complete, inverse, in the MPD vocabulary; and from C03: the field value reaches the event as captured")
    for cfg, prog in progs.items():
        one(rep, prog, cfg)
        from .C03 import verbatim_rule
        from .C20 import subsystem_rules
        with rep.importing("C20.subsystem-tables", "C04.names.tables"):
            subsystem_rules(rep, prog, cfg)
        with rep.importing("C03.grammar", "C04.names.field"):
            verbatim_rule(rep, prog, cfg)
        # "however the replies are segmented into reads": the part of an idle reply that was read but not yet parsed lives in the
        # connection's receive buffer — who may write or empty that buffer is C02's rule, decided here for C04's clause
        from .C02 import persist_rule
        from .C10 import READS
        READS.bind(prog)
        with rep.importing("C02.persist", "C04.segmentation.persist"):
            persist_rule(rep, prog, cfg)
        # "call this until it returns None": each call removes one `changed` field and leaves a hole in the frame.  When the
        # decoder looks the next one up through the frame's field iterator (Frame::find / fields), that iterator has to step over
        # every hole (C19's rule) or the second and later subsystems of one reply are lost.  Imported only when the call graph
        # says the decoder walks the frame that way (today it uses Frame::get, which scans the slots itself).
        from ..callgraph import CallGraph
        cg = CallGraph(prog)
        roots = [k for k, b in prog.bodies.items() if norm(b.name).endswith("client::Subsystem::from_frame")]
        walkers = sorted(norm(prog.bodies[x].name) for x in cg.reachable(roots)
                         if norm(prog.bodies[x].name).endswith(("::Frame::fields", "::Frame::into_iter")))
        rep.count("from_frame_walks_frame_iterator_" + cfg, len(walkers))
        if walkers:
            from .C19 import hole_skip_rule
            with rep.importing("C19.delegation", "C04.names.holes"):
                hole_skip_rule(rep, prog, cfg)


def one(rep, prog, cfg):
    rep.rule("C04.segmentation.persist", "the receive buffer is written / emptied only by connect and receive (C02's rule): a half-read idle reply survives a request")
    res = analyse(prog)
    if res is None:
        rep.fail("C04.anchor", cfg, "client/connection.rs", "connection loop not found")
        return
    an = res["an"]
    # the function that turns a frame into a subsystem value: found by its result type, not by its name
    global FROM_FRAME
    convs = set()
    for f in res["fns"]:
        co = an.spliced_coroutine_of(f)
        if co is None:
            continue
        for bb, t in co.calls():
            fc = callee(t)
            tid = (fc.get("inst") or fc["def"]) if fc else None
            if tid in prog.bodies and prog.bodies[tid].crate == "mpd_client" and "client::Subsystem" in prog.bodies[tid].local_ty(0):
                convs.add(norm(prog.bodies[tid].name))
    if len(convs) != 1:
        rep.fail("C04.anchor", cfg + "/conversion function", "client/", "expected one function producing a Subsystem from a reply frame in the loop, found %s" % sorted(convs))
        return
    FROM_FRAME = next(iter(convs))
    # ---- conversion sites: event sends whose value is a SubsystemChange ------------------------------
    sites = []
    for f in res["fns"]:
        co = an.spliced_coroutine_of(f)
        if co is None:
            continue
        for bb, t in co.calls():
            if EVSEND in callee_names(t) and len(t["args"]) > 1:
                l = op_local(t["args"][1])
                for bb2, i2, s2 in co.stmts():
                    if s2["k"] == "assign" and s2["place"]["l"] == l and s2["rv"]["k"] == "agg" and s2["rv"].get("variant") == "SubsystemChange":
                        sites.append((co, bb, s2))
    rep.floor("C04.all-changed", cfg + "/conversion sites", len(sites), 2)
    # the event queue must not drop: lossy sends (try_send on a bounded channel, broadcast) lose changes when the
    # application is slow to poll
    for f in res["fns"]:
        co = an.spliced_coroutine_of(f)
        if co is None:
            continue
        for bb, t in co.calls():
            ns = callee_names(t)
            if any(n.rsplit("::", 1)[-1] in ("try_send", "send_timeout", "try_reserve") and "mpsc" in n or n.startswith("tokio::sync::broadcast::") or
                   n.startswith("tokio::sync::watch::") for n in ns):
                rep.fail("C04.lossless-queue", "%s/%s:%s" % (cfg, fn_name(prog, co), ns[0].rsplit("::", 2)[-2] + "::" + ns[0].rsplit("::", 1)[-1]),
                         co.loc(co.blocks[bb]["ts"]),
                         "events are handed over with %s: when the queue is full (or a value is overwritten) reported changes are dropped silently" % ns[0])
    # nobody but the conversion removes fields from a reply frame: a consuming accessor elsewhere in the loop functions
    # (also inside the arguments of a logging macro, which are only evaluated when that level is enabled) takes a
    # `changed` entry away before it can become an event
    n_scanned = 0
    for f in res["fns"]:
        co = an.spliced_coroutine_of(f)
        if co is None:
            continue
        for fb in family(prog, prog.bodies.get(co.root, co)):
            n_scanned += 1
            for bb, t in fb.calls():
                if GET in callee_names(t):
                    rep.fail("C04.all-changed", "%s/%s consumes a reply field outside the conversion" % (cfg, fn_name(prog, co)), fb.loc(fb.blocks[bb]["ts"]),
                             "%s removes a field from the reply frame with Frame::get outside %s: that entry can no longer be delivered as an event "
                             "(Frame::find reads without removing)" % (fn_name(prog, co), FROM_FRAME))
    rep.floor("C04.all-changed", cfg + "/loop bodies scanned for consuming accessors", n_scanned, 4)
    for co, bb, agg in sites:
        g = Cfg(co)
        fl = Flow(co)
        name = fn_name(prog, co)
        loops = [l for l in g.loops if bb in l]
        draws = False
        for l in loops:
            for x in l:
                t = co.blocks[x]["t"]
                if t["k"] == "call" and any(n in (FROM_FRAME, GET) or n.endswith("Iterator::next") for n in callee_names(t)):
                    if not prog.exp_chain(co.crate, co.blocks[x]["ts"]) or FROM_FRAME in callee_names(t) or GET in callee_names(t):
                        draws = True
        rep.check(draws, "C04.all-changed", "%s/%s" % (cfg, name), co.loc(co.blocks[bb]["ts"]),
                  "the reply frame is converted by a single extraction, not by a loop over its `changed` entries: when several subsystems "
                  "changed since the last idle only the first is reported")
        # payload derives from from_frame
        leaves, _ = fl.sources([op_local(agg["rv"]["ops"][0])], through_call=identity_through, follow_mut=False)
        ok = any(x[0] == "call" and FROM_FRAME in callee_names(co.blocks[x[1]]["t"]) for x in leaves) and not any(x[0] in ("const", "agg") for x in leaves if x != ("agg",))
        srcs = sorted({callee_names(co.blocks[x[1]]["t"])[0] for x in leaves if x[0] == "call"})
        rep.check(ok and srcs == [FROM_FRAME], "C04.no-invention", "%s/%s payload" % (cfg, name), co.loc(co.blocks[bb]["ts"]),
                  "the payload of a SubsystemChange event does not derive solely from Subsystem::from_frame (sources: %s)" % srcs)
    # ---- both sites: from the Ok frame of the reply every return passes the conversion --------------------
    n_sites = 0
    for f in res["fns"]:
        co = an.spliced_coroutine_of(f)
        if co is None:
            continue
        conv = [bb for bb, t in co.calls() if FROM_FRAME in callee_names(t)]
        singles = [(bb, t) for bb, t in co.calls() if SINGLE in callee_names(t)]
        for sbb, st in singles:
            # is this the reply to idle / noidle?  (not the reply to a request: that one goes to the responder whole)
            g = Cfg(co)
            sw = [s for s in tables.discr_switches(co) if s["place"]["l"] == st["dest"]["l"] and not s["place"]["p"]]
            name = fn_name(prog, co)
            if sw and sw[0]["arms"].get("Ok") is not None:
                n_sites += 1
                region = reach(g.succs, [sw[0]["arms"]["Ok"]], avoid=conv)
            elif st["dest"]["p"]:
                continue
            else:
                # the outcome is not matched on the spot (`.map_err(..)?`, handed on in a tuple): the blocks that can follow when
                # the conversion to a single frame gave Ok (A13)
                from ..cfg import VariantReach
                vr = VariantReach(co)
                region = vr.blocks_after_def(sbb, st["dest"]["l"], ("Ok",), avoid=conv)
                err_region = vr.blocks_after_def(sbb, st["dest"]["l"], ("Err",), avoid=conv)
                if region == err_region:
                    continue        # the outcome is never told apart here
                n_sites += 1
            leaks = [x for x in region if co.blocks[x]["t"]["k"] == "return"]
            rep.check(bool(conv) and not leaks, "C04.both-sites", "%s/%s" % (cfg, name), co.loc(co.blocks[sbb]["ts"]),
                      "a successfully received idle/noidle reply can leave %s without its `changed` entries having been turned into events "
                      "(a return is reachable from the Ok frame without passing the conversion): the changes it reports are lost" % name)
    rep.floor("C04.both-sites", cfg + "/idle-reply sites", n_sites, 2)
    # ---- from_frame reads only the key "changed" ----------------------------------------------------
    ff = body_by_name(prog, FROM_FRAME)
    if len(ff) == 1:
        keys = set()
        other_reads = []
        for fb in family(prog, ff[0]):
            for bb, t in fb.calls():
                ns = callee_names(t)
                if GET in ns or "mpd_protocol::response::frame::Frame::find" in ns:
                    keys.add(const_value_of(prog, fb, t["args"][1]))
                elif any(n.startswith("mpd_protocol::response::frame::") for n in ns):
                    other_reads.append(ns[0])
        rep.check(keys == {"changed"} and not other_reads, "C04.no-invention", cfg + "/from_frame reads `changed` only", ff[0].loc(ff[0].span),
                  "Subsystem::from_frame reads key(s) %s %s; events may only come from `changed` lines" % (sorted(map(str, keys)), other_reads))
        fl = Flow(ff[0])
        # result derives from the get() value
        pbody = None
        from ..common import with_private_callees
        for fb in with_private_callees(prog, ff[0]):        # the table may sit in a private helper (`from_raw_name`)
            if tables.str_compares(fb):
                pbody = fb
        if pbody is None:
            # data-driven table (`static NAMES: [(&str, Subsystem); N]` + find): the body that does the lookup builds the catch-all
            from .C20 import static_name_table
            _, pbody = static_name_table(prog, "client::Subsystem")
        if pbody is not None:
            fallback_verbatim(rep, "C04.verbatim", cfg + "/from_frame", pbody, "client::Subsystem", "Other", 2 if pbody.kind == "Closure" else 1,
                              matched=[c["other"] for c in tables.str_compares(pbody)])
        else:
            rep.fail("C04.verbatim", cfg + "/from_frame", ff[0].loc(ff[0].span), "name table not found in from_frame")
    else:
        rep.fail("C04.anchor", cfg + "/from_frame", "client/mod.rs", "Subsystem::from_frame not found")
    # ---- A9: cancel safety of every future the loop may drop ---------------------------------------------
    n_drop = 0
    for (bid, bb, dk, how), e in sorted(an.dropped.items(), key=str):
        b = prog.bodies[bid]
        d = e["d"]
        n_drop += 1
        pre = "".join(sorted(e["pre"]))
        name = fn_name(prog, b)
        base = d
        while base[0] == "timeout":
            base = base[1]
        if base[0] == "ext":
            ok = base[1] in CANCEL_SAFE_EXTERNAL
            rep.check(ok, "C04.cancel-safe", "%s/%s %s:%s pre=%s" % (cfg, name, how, norm(base[1]), pre), b.loc(b.blocks[bb]["ts"]),
                      "the external future %s may be dropped before completion (%s) and is not in the audited table of cancel-safe APIs" % (base[1], how),
                      detail={"reason": CANCEL_SAFE_EXTERNAL.get(base[1])})
            continue
        saved = carriers_saved(prog, an, base)
        what = {"conn": AC + "%s" % base[1]}.get(base[0], base[1])
        rep.check(not saved, "C04.cancel-safe", "%s:%s:%s:pre=%s" % (name, how, norm(what), pre),
                  b.loc(b.blocks[bb]["ts"]),
                  "the future %s is a %s branch and can be dropped at a suspension point while it holds %s: input already taken out of the "
                  "connection's receive buffer (complete lines of an idle reply) is lost with it — e.g. reply `changed: player\\n` | `OK\\n` split "
                  "over two reads with a request arriving in between loses the event" % (what, how, sorted(saved)),
                  detail={"saved": sorted(saved), "pre": pre})
    rep.floor("C04.cancel-safe", cfg + "/droppable futures", n_drop, 3)
