"""C05 — the client's output is always a legal MPD session (DESIGN.md §4/C05): A4 typestate."""
from ..callgraph import norm
from ..common import body_by_name, callee_names, family
from ..loopan import analyse, fn_name, has_write, report_violations

CONFIGS_QUICK = ["K1"]
CONFIGS_THOROUGH = ["K1", "K2"]
LEVEL = ("exhaustive abstract interpretation of the single loop task: every (basic block x abstract state) pair of the "
         "connection loop is explored; because the loop is one task, every schedule appears as a CFG branch (which select "
         "branch, timeout or not, channel closed or not, Ok/Err), so the safety part of the discipline is decided for all schedules")
TECHNIQUE = "static analysis: typestate abstract interpretation over the coroutine MIR of the connection loop with inter-procedural summaries"


def run(rep, progs, tier):
    rep.explanation = (
        "Static typestate analysis (no execution). Abstract state: wire in {Q nothing outstanding, I idle outstanding, N noidle "
        "written and idle reply outstanding, R request outstanding} x abstract LoopState discriminant x closed x item-pending x "
        "queue-closed. Events are recognised by resolved callee and constant provenance (send of a command built from the "
        "constant \"idle\" / \"noidle\", send_list, receive, mpsc recv, event send of ConnectionClosed) on the MIR of run_loop "
        "and everything it awaits (found structurally from tokio::spawn); `.await` is modelled at the into_future of a "
        "directly awaited future, select! by the discriminant of tokio's Out enum (arm i = branch i completed, the others "
        "dropped), timeout by Ok/Err; async helpers get summaries (entry state -> exit states x Ok/Err) with the Ok/Err "
        "outcome correlated to the caller's `?`. Preconditions: idle only from Q, noidle only from I, a request only from Q, "
        "receive only when something is outstanding; iteration invariant (Idling <=> I) and (Waiting <=> R). The re-idle "
        "clause follows from the invariant on the timeout-elapsed edge. NOT decided: the delay's value, timer accuracy, "
        "tokio's channel semantics, the bytes themselves (C02/C03).")
    rep.rule("C05.discipline", "idle only from Q; noidle only from I; request only from Q; receive only when something is outstanding")
    rep.rule("C05.no-cut-write", "no future that writes to the connection is ever dropped before completion (select!/timeout)")
    rep.rule("C05.complete-write", "every send writes its bytes completely (write_all family), never a single-attempt write whose count is dropped")
    rep.rule("C05.invariant", "at every iteration boundary: loop_state Idling <=> idle outstanding, WaitingForCommandReply <=> request outstanding")
    rep.trusted = ["rustc MIR construction and callee resolution", "mpdfacts exporter", "tokio select!/timeout/mpsc/oneshot semantics as modelled",
                   "MPD idle rules (protocol reference)"]
    rep.rule("C05.one-line", "imported from C07 (owner of the encoder): one request = one protocol line — name alphabet, list framing words, "
             "argument LF check; the wire states of the discipline count requests, so a request that is two lines is two requests outstanding")
    rep.rule("C05.segmentation", "imported from C02: only streaming combinators in the line parser (a reply cut at any byte is 'need more'; a spurious parse "
             "error makes the loop write while the reply is still in flight)")
    for cfg, prog in progs.items():
        from .C02 import streaming_rule
        from .C07 import arg_rules, name_rules
        with rep.importing("C07.", "C05.one-line."):
            name_rules(rep, prog, cfg)
            arg_rules(rep, prog, cfg)
        with rep.importing("C02.streaming", "C05.segmentation"):
            streaming_rule(rep, prog, cfg)
        complete_write_rule(rep, prog, cfg)
        res = analyse(prog)
        if res is None or res["iteration"] is None:
            rep.fail("C05.anchor", cfg, "client/connection.rs", "the connection loop (async fn handed to tokio::spawn, awaiting an iteration fn in a cycle) was not found")
            continue
        an = res["an"]
        n = report_violations(rep, res, {"C05.discipline", "C05.invariant"}, cfg)
        rep.count("states_" + cfg, an.states_seen)
        rep.count("transitions_" + cfg, an.transitions)
        rep.note("states", an.states_seen)
        rep.note("transitions", an.transitions)
        # event sites and floors
        kinds = {}
        for (bid, bb), e in an.events.items():
            kinds.setdefault(e["kind"], []).append((bid, bb, sorted(e["pre"])))
        for kind, floor in (("send:idle", 1), ("send:noidle", 1), ("send_list", 1), ("receive", 2)):   # tolerant of sites folded into one private helper
            rep.floor("C05.discipline", "%s/%s sites" % (cfg, kind), len(kinds.get(kind, [])), floor)
        for kind, sites in sorted(kinds.items()):
            for bid, bb, pre in sites:
                b = prog.bodies[bid]
                ok = {"send:idle": pre == ["Q"], "send:noidle": pre == ["I"], "send_list": pre == ["Q"],
                      "receive": "Q" not in pre}.get(kind, True)
                if kind in ("send:idle", "send:noidle", "send_list", "receive"):
                    rep.check(ok, "C05.discipline", "%s/%s@%s pre=%s" % (cfg, kind, fn_name(prog, b), "".join(pre)), b.loc(b.blocks[bb]["ts"]),
                              "%s can happen in wire state(s) %s" % (kind, pre), detail={"pre": pre})
        # futures that may be dropped before completion must not write to the connection
        for (bid, bb, dk, how), e in sorted(an.dropped.items(), key=str):
            b = prog.bodies[bid]
            rep.check(not has_write(an, e["d"]), "C05.no-cut-write", "%s/%s:%s dropped by %s" % (cfg, fn_name(prog, b), dk, how), b.loc(b.blocks[bb]["ts"]),
                      "a future that writes to the connection (%s) is handed to %s and can be dropped half-way: a partially written request line would be "
                      "followed by whatever the loop writes next" % (dk, how), detail={"pre": sorted(e["pre"])})
        bnd = sorted(set(an.boundary))
        rep.check(bool(bnd) and all((k[1], k[0]) in (("Idling", "I"), ("WaitingForCommandReply", "R")) and not k[2] for k in bnd),
                  "C05.invariant", cfg + "/iteration boundary states", fn_name(prog, an.coroutine_of(res["iteration"])),
                  "boundary states: %s" % bnd, detail={"boundary_states": [list(map(str, k)) for k in bnd]})
        rep.sample({"summaries": {"%s %s" % (k[0].rsplit("::", 2)[-2], k[1]): sorted(map(str, v)) for k, v in list(an.summaries.items())[:6]}})
        # the loop's first action from Q is idle: root's first event
        first = [e for (bid, bb), e in an.events.items() if bid == an.coroutine_of(res["root"]).id and e["kind"] == "send:idle"]
        # .. or the write sits in an async helper (`start_idling(..).await`): the loop starts with nothing outstanding (Q) and no
        # iteration boundary is reached in Q, so `idle` was written on the way — the only step from Q to I
        first = first or (bool(bnd) and all(k[0] != "Q" for k in bnd) and bool(kinds.get("send:idle")))
        rep.check(bool(first), "C05.discipline", cfg + "/idle on entry", fn_name(prog, res["root"]), "the loop does not start by issuing idle")


COMPLETE = {"tokio::io::util::async_write_ext::AsyncWriteExt::write_all", "tokio::io::util::async_write_ext::AsyncWriteExt::write_all_buf",
            "std::io::Write::write_all"}
PARTIAL = {"write", "write_buf", "write_vectored", "poll_write", "try_write", "write_vectored_buf"}


def complete_write_rule(rep, prog, cfg):
    rule = "C05.complete-write"
    n = 0
    for flavour in ("AsyncConnection", "Connection"):
        for op in ("send", "send_list"):
            bs = body_by_name(prog, "mpd_protocol::connection::%s::%s" % (flavour, op))
            if len(bs) != 1:
                if flavour == "AsyncConnection" and cfg == "K3":
                    continue
                rep.fail(rule + ".anchor", "%s/%s::%s" % (cfg, flavour, op), "connection.rs", "public anchor not found")
                continue
            complete = []
            partial = []
            from ..common import with_private_callees
            for fb in with_private_callees(prog, bs[0]):     # the write may sit in a private helper (`write_message`)
                for bb, t in fb.calls():
                    for nm in callee_names(t):
                        if nm in COMPLETE:
                            complete.append(nm)
                        elif ("AsyncWriteExt::" in nm or nm.startswith("std::io::Write::") or "AsyncWrite::" in nm) and nm.rsplit("::", 1)[-1] in PARTIAL:
                            partial.append(nm)
            n += 1
            rep.check(complete and not partial, rule, "%s/%s::%s" % (cfg, flavour, op), bs[0].loc(bs[0].span),
                      "%s::%s hands its bytes to the transport with %s: a single write attempt may accept only part of the buffer and the rest is dropped — "
                      "the server receives a truncated request line followed by whatever is written next" % (flavour, op, sorted(set(partial)) or "no write_all"),
                      detail={"writes": sorted(set(complete))})
    rep.floor(rule, cfg + "/send functions", n, 2)
