"""C03 — well-formed server output is decoded exactly (DESIGN.md §4/C03)."""
from .. import tables
from ..callgraph import norm
from ..cfg import Cfg, reach
from ..common import body_by_name, callee_names, callgraph, family, last_named_field
from ..facts import callee, op_const, op_local, op_place
from ..flow import Flow, identity_through
from ..inline import inlined, same_impl_helpers
from .C02 import COMPONENT_PARSE
from .C09 import alt_table
from .C10 import PARSE

CONFIGS_QUICK = ["K1"]
CONFIGS_THOROUGH = ["K1", "K3"]
TECHNIQUE = "static analysis: per-state abstract interpretation of the response builder (transition table), positional provenance of ACK fields, provenance of the binary cut (MIR)"

RB = "mpd_protocol::response::ResponseBuilder::"
STATE = "response::ResponseState"


def variant_cells(body, adt_suffix):
    """For each variant of the enum matched in `body`: blocks control can visit when the matched
    value has that variant (other switches fork).  Returns ({variant: blocks}, switch) or (None, None)."""
    sws = [s for s in tables.discr_switches(body) if s["adt"].endswith(adt_suffix)]
    if not sws:
        return None, None
    # a transition may look at the state more than once (e.g. an `if let` fast path in front of the `match`): every test of
    # the state is decided by the same variant — sound as long as the state is not replaced between two tests, which the
    # callers check through the "constructs" lists of each cell
    sw = dict(sws[-1])
    by_bb = {s["bb"]: s for s in sws}
    sw["all"] = sws
    succs = body.succs()
    out = {}
    for v in sw["variants"]:
        seen = set()
        st = [0]
        while st:
            bb = st.pop()
            if bb in seen:
                continue
            seen.add(bb)
            if bb in by_bb:
                st.append(by_bb[bb]["arms"].get(v, by_bb[bb]["otherwise"]))
                continue
            st.extend(succs[bb])
        out[v] = seen
    return out, sw


def field_origins(body, start_local, allowed):
    """Backward slice restricted to statements in `allowed` blocks; returns
    (named fields read through projections, callee names, params)."""
    fields, calls, params = set(), set(), set()
    argc = body.mir["argc"]
    seen = set()
    work = [start_local]
    while work:
        l = work.pop()
        if l in seen or l is None:
            continue
        seen.add(l)
        if 1 <= l <= argc:
            params.add(l)
        for bb in allowed:
            blk = body.blocks[bb]
            for s in blk["s"]:
                if s["k"] != "assign" or s["place"]["l"] != l:
                    continue
                rv = s["rv"]
                ops = []
                if rv["k"] in ("use", "cast", "repeat"):
                    ops = [rv["op"]]
                elif rv["k"] in ("ref", "rawptr"):
                    ops = [{"copy": rv["place"]}]
                elif rv["k"] == "binop":
                    ops = [rv["a"], rv["b"]]
                elif rv["k"] == "unop":
                    ops = [rv["a"]]
                elif rv["k"] == "agg":
                    ops = rv["ops"]
                    if rv["agg"] == "adt":
                        calls.add("agg:" + rv["adt_name"].rsplit("::", 1)[-1] + "::" + rv["variant"])
                for o in ops:
                    p = op_place(o)
                    if p is not None:
                        f = last_named_field(p)
                        if f is not None and any(isinstance(e, dict) and "v" in e for e in p["p"]):
                            fields.add(f)       # pattern binding out of an enum variant: a leaf
                        else:
                            work.append(p["l"])
            t = blk["t"]
            if t["k"] == "call" and t["dest"]["l"] == l:
                ns = callee_names(t)
                calls.update(ns)
                passthru = identity_through(t) is not None or any(n.startswith(("alloc::", "core::mem::", "core::ptr::", "core::intrinsics::")) for n in ns)
                if passthru and not any(n in ("alloc::vec::Vec::new",) for n in ns):
                    for a in t["args"]:
                        p = op_place(a)
                        if p is not None:
                            work.append(p["l"])
        # mutation through &mut passed to a call (e.g. Vec::push(&mut v, x)) is handled by callers
    return fields, calls, params


def ref_chain_fields(body, local, allowed, depth=6):
    """All named fields on the chain of borrows that leads to `local` (defs restricted to `allowed`)."""
    names = []
    for _ in range(depth):
        nxt = None
        for bb in allowed:
            for s in body.blocks[bb]["s"]:
                if s["k"] == "assign" and s["place"]["l"] == local and not s["place"]["p"]:
                    rv = s["rv"]
                    p = rv["place"] if rv["k"] == "ref" else op_place(rv["op"]) if rv["k"] == "use" else None
                    if p is not None:
                        names += [e["n"] for e in p["p"] if isinstance(e, dict) and "f" in e and e.get("n")]
                        nxt = p["l"]
        if nxt is None or nxt == local:
            break
        local = nxt
    return names


def aggs_in(body, blocks, adt_suffix):
    out = []
    for bb in sorted(blocks):
        for s in body.blocks[bb]["s"]:
            if s["k"] == "assign" and s["rv"]["k"] == "agg" and s["rv"]["agg"] == "adt" and norm(s["rv"]["adt_name"]).endswith(adt_suffix):
                out.append(s)
    return out


def calls_in(body, blocks):
    out = []
    for bb in sorted(blocks):
        t = body.blocks[bb]["t"]
        if t["k"] == "call":
            out.append((bb, t, callee_names(t)))
    return out


def machine_rule(rep, prog, cfg):
    rule = "C03.machine"
    bodies = {}
    for m in ("field", "binary", "finish_frame", "finish", "error"):
        bs = body_by_name(prog, RB + m)
        if len(bs) != 1:
            rep.fail(rule + ".anchor", "%s/%s" % (cfg, m), RB + m, "builder method not found (state machine replaced: failing closed)")
            return
        bodies[m] = bs[0]
    machine = {norm(b.name) for b in bodies.values()}
    for m, b in list(bodies.items()):
        # a transition may be split into private helpers of the builder (e.g. one that swaps the state out): analyse the
        # method with those helpers spliced in (A12), never one transition inside another
        base = same_impl_helpers(b)
        ib = inlined(prog, b, lambda cb: base(cb) and norm(cb.name) not in machine)
        if ib.raw.get("inlined"):
            rep.sample({"C03.machine inlined into " + m: sorted(set(ib.raw["inlined"]))})
        # a `match` that yields a tuple (`let (finished, frames) = match state { .. => (current, completed_frames) }`) is taken
        # apart into its components, so that the provenance of each stays separate
        from ..inline import scalarize_tuples
        bodies[m] = scalarize_tuples(prog, ib)
    for m, b in bodies.items():
        cells, sw = variant_cells(b, STATE)
        if cells is None:
            rep.fail(rule, "%s/%s match" % (cfg, m), b.loc(b.span), "builder method %s does not match on ResponseState exactly once" % m)
            continue
        if set(sw["variants"]) != {"Initial", "InProgress", "ListInProgress"}:
            rep.fail(rule, "%s/states" % cfg, b.loc(b.span), "ResponseState has variants %s (machine changed: failing closed)" % sw["variants"])
            return
        for v in sw["variants"]:
            vis = cells[v]
            inst = "%s/%s[%s]" % (cfg, m, v)
            where = b.loc(b.span)
            states = aggs_in(b, vis, STATE)
            # ignore the placeholder handed to mem::replace
            placeholders = set()
            for bb, t, ns in calls_in(b, vis):
                if "core::mem::replace" in ns or "core::mem::take" in ns:
                    for a in t["args"]:
                        placeholders.add(op_local(a))
            states = [s for s in states if s["place"]["l"] not in placeholders]
            resps = aggs_in(b, vis, "response::Response")
            cs = calls_in(b, vis)

            def origin(op):
                l = op_local(op)
                return field_origins(b, l, vis) if l is not None else (set(), set(), set())
            problems = []
            if m in ("field", "binary"):
                if v == "Initial":
                    if [s["rv"]["variant"] for s in states] != ["InProgress"]:
                        problems.append("must enter InProgress (constructs %s)" % [s["rv"]["variant"] for s in states])
                else:
                    if states:
                        problems.append("must keep the state (constructs %s): the fields collected so far would be lost" % [s["rv"]["variant"] for s in states])
                if m == "field":
                    pf = [(bb, t) for bb, t, ns in cs if any(n.endswith("FieldsContainer::push_field") for n in ns)]
                    ok = False
                    for bb, t in pf:
                        k = field_origins(b, op_local(t["args"][1]), vis)[2]
                        val = field_origins(b, op_local(t["args"][2]), vis)[2]
                        recv_f = ref_chain_fields(b, op_local(t["args"][0]), vis)
                        if 2 in k and 3 in val and (v == "Initial" or (recv_f and "current" in recv_f)):
                            ok = True
                    if not ok:
                        problems.append("must append (key, value) to the %s frame" % ("new" if v == "Initial" else "current"))
                else:
                    ok = False
                    for bb in vis:
                        for s2 in b.blocks[bb]["s"]:
                            if s2["k"] == "assign" and last_named_field(s2["place"]) == "binary" and s2["place"]["p"]:
                                if 2 in field_origins(b, op_local(s2["rv"]["op"]) if s2["rv"]["k"] == "use" else None, vis)[2]:
                                    names = [e["n"] for e in s2["place"]["p"] if isinstance(e, dict) and "f" in e and e.get("n")]
                                    names += ref_chain_fields(b, s2["place"]["l"], vis)
                                    if v == "Initial" or "current" in names:
                                        ok = True
                    if not ok:
                        problems.append("must store the payload in the %s frame" % ("new" if v == "Initial" else "current"))
            elif m == "finish_frame":
                inplace = set()
                if v == "ListInProgress" and not states:
                    # in-place form: completed_frames.push(mem::replace(current, Frame::empty())) — the state stays a list
                    for bb, t, ns in cs:
                        if "alloc::vec::Vec::push" not in ns:
                            continue
                        if "completed_frames" not in ref_chain_fields(b, op_local(t["args"][0]), vis):
                            continue
                        vl = op_local(t["args"][1])
                        for bb2, t2, ns2 in cs:
                            if t2["dest"]["l"] == vl and ("core::mem::replace" in ns2 or "core::mem::take" in ns2):
                                tgt_ok = "current" in ref_chain_fields(b, op_local(t2["args"][0]), vis)
                                new_ok = "core::mem::take" in ns2 or any(n.endswith("frame::Frame::empty") for n in origin(t2["args"][1])[1])
                                if tgt_ok and new_ok:
                                    inplace.add(bb)
                if inplace:
                    pass
                elif [s["rv"]["variant"] for s in states] != ["ListInProgress"]:
                    problems.append("must enter ListInProgress (constructs %s)" % [s["rv"]["variant"] for s in states])
                else:
                    s = states[0]
                    ops = dict(zip(s["rv"]["fields"], s["rv"]["ops"]))
                    cf, cc, _ = origin(ops["current"])
                    if cf or not any(n.endswith("frame::Frame::empty") for n in cc):
                        problems.append("the next frame must start empty (Frame::empty()), it derives from %s" % (sorted(cf) or sorted(cc)))
                    ff, fc, _ = origin(ops["completed_frames"])
                    pushes = [(bb, t) for bb, t, ns in cs if "alloc::vec::Vec::push" in ns]
                    if v == "Initial" and ff:
                        problems.append("completed frames must be [empty frame], derive from %s" % sorted(ff))
                    if v == "InProgress" and ff != {"current"}:
                        # or: a fresh vector into which `current` is pushed (`(current, Vec::new())` .. `frames.push(finished)`)
                        pushed_cur = not ff and any(field_origins(b, op_local(t["args"][1]), vis)[0] == {"current"} and
                                                    not field_origins(b, op_local(t["args"][0]), vis)[0] for bb, t in pushes)
                        if not pushed_cur:
                            problems.append("completed frames must be [current], derive from %s" % sorted(ff))
                    if v == "ListInProgress":
                        pushed = False
                        for bb, t in pushes:
                            rf = field_origins(b, op_local(t["args"][0]), vis)[0]
                            vf = field_origins(b, op_local(t["args"][1]), vis)[0]
                            if rf == {"completed_frames"} and vf == {"current"}:
                                pushed = True
                        if ff != {"completed_frames"} or not pushed:
                            problems.append("completed frames must be completed ++ [current] (derive from %s, current pushed: %s)" % (sorted(ff), pushed))
            elif m in ("finish", "error"):
                want_err = m == "error"
                if states:
                    problems.append("must leave the builder in the initial state (constructs %s)" % [s["rv"]["variant"] for s in states])
                empty_call = any(n.endswith("response::Response::empty") for bb, t, ns in cs for n in ns)
                if m == "finish" and v == "Initial":
                    if not empty_call and not resps:
                        problems.append("a bare OK must yield the response with one empty frame")
                if resps:
                    if len(resps) != 1:
                        problems.append("constructs %d responses" % len(resps))
                    s = resps[0]
                    ops = dict(zip(s["rv"]["fields"], s["rv"]["ops"]))
                    ff, fc, _ = origin(ops["frames"])
                    ef, ec, ep = origin(ops["error"])
                    if want_err and 2 not in ep:
                        problems.append("the error of the response does not derive from the parsed ACK")
                    if not want_err and ("agg:Option::None" not in ec or ep):
                        problems.append("a successful response must carry no error")
                    if v == "ListInProgress" and ff != {"completed_frames"}:
                        problems.append("frames must be the completed list frames, derive from %s" % (sorted(ff) or "nothing"))
                    if v == "InProgress" and m == "finish" and ff != {"current"}:
                        problems.append("frames must be [current], derive from %s" % (sorted(ff) or "nothing"))
                    if v in ("Initial", "InProgress") and m == "error" and ff:
                        problems.append("an error outside a list carries no frames (the partial frame is dropped), frames derive from %s" % sorted(ff))
                elif not (m == "finish" and v == "Initial" and empty_call):
                    problems.append("no response constructed")
            # the effect must happen on EVERY path of the transition, not merely on one: a return reachable (for this state)
            # without passing the construct means some input is consumed without leaving its trace in the builder
            def escapes(required):
                seen, st = set(), [0]
                while st:
                    x = st.pop()
                    if x in seen or x in required or x not in vis:
                        continue
                    seen.add(x)
                    if b.blocks[x]["t"]["k"] == "return":
                        return True
                    hit = [q for q in sw.get("all", [sw]) if q["bb"] == x]
                    if hit:
                        st.append(hit[0]["arms"].get(v, hit[0]["otherwise"]))
                    else:
                        st.extend(g_succs[x])
                return False
            g_succs = b.succs()
            if not problems:
                if m in ("field", "binary") and v == "Initial":
                    req = {bb for bb in vis for s2 in b.blocks[bb]["s"] if s2["k"] == "assign" and s2["rv"]["k"] == "agg"
                           and s2["rv"].get("variant") == "InProgress" and s2["place"]["l"] not in placeholders}
                    if escapes(req):
                        problems.append("can return without entering InProgress (a component would be consumed while the builder still looks idle)")
                elif m == "field":
                    req = {bb for bb, t, ns in cs if any(n.endswith("FieldsContainer::push_field") for n in ns)}
                    if escapes(req):
                        problems.append("can return without appending the field")
                elif m == "binary":
                    req = {bb for bb in vis for s2 in b.blocks[bb]["s"] if s2["k"] == "assign" and s2["place"]["p"] and last_named_field(s2["place"]) == "binary"}
                    if escapes(req):
                        problems.append("can return without storing the payload")
                elif m == "finish_frame":
                    req = {bb for bb in vis for s2 in b.blocks[bb]["s"] if s2["k"] == "assign" and s2["rv"]["k"] == "agg" and s2["rv"].get("variant") == "ListInProgress"}
                    req |= inplace
                    if escapes(req):
                        problems.append("can return without starting the next frame")
                else:
                    req = {bb for bb in vis for s2 in b.blocks[bb]["s"] if s2["k"] == "assign" and s2["rv"]["k"] == "agg" and s2["rv"]["agg"] == "adt"
                           and norm(s2["rv"]["adt_name"]).endswith("response::Response")}
                    req |= {bb for bb, t, ns in cs if any(n.endswith("response::Response::empty") for n in ns)}
                    if escapes(req):
                        problems.append("can return without constructing a response")
            rep.check(not problems, rule, inst, where,
                      "builder transition %s in state %s: %s" % (m, v, "; ".join(problems)))


INEXACT = ("eq_ignore_ascii_case", "to_ascii_lowercase", "to_ascii_uppercase", "to_lowercase", "to_uppercase", "make_ascii_lowercase",
           "make_ascii_uppercase", "trim", "trim_start", "trim_end", "trim_matches", "starts_with", "ends_with", "strip_prefix", "strip_suffix",
           "contains", "find", "rfind", "replace", "split", "split_once", "get_unchecked", "from_utf8_lossy")


def key_exact_rule(rep, prog, cfg):
    """Field names are interned per connection: the function that maps a parsed key (&str) to the shared Arc<str> must give
    back a key equal to its argument, byte for byte.  Found by its signature.  A lookup through an inexact comparison
    (case-folding, trimming, prefix test) would hand out the spelling seen first on the connection — decoded keys would
    depend on earlier responses."""
    rule = "C03.key-exact"
    fns = [b for b in prog.bodies.values() if b.crate == "mpd_protocol" and b.kind in ("Fn", "AssocFn") and not b.raw.get("derived")
           and b.local_ty(0).replace(" ", "") == "alloc::sync::Arc<str>" and any(b.local_ty(i).startswith("&") and b.local_ty(i).endswith("str")
                                                                                 for i in range(1, b.mir["argc"] + 1))]
    rep.floor(rule, cfg + "/key interning functions", len(fns), 1, "response/mod.rs")
    for b in fns:
        bad = []
        lookups = set()
        for fb in family(prog, b):
            for bb, t in fb.calls():
                for n in callee_names(t):
                    last = n.rsplit("::", 1)[-1].split("::<")[0]
                    if ("str" in n or "String" in n or "slice" in n) and last in INEXACT and ("<impl str>" in n or "::str::" in n or "String" in n or "<impl [" in n):
                        bad.append(last)
                    if last in ("get", "contains", "insert", "get_or_insert_with", "find", "position", "binary_search", "entry"):
                        lookups.add(n)
        rep.check(not bad, rule, "%s/%s exact lookup" % (cfg, norm(b.name)), b.loc(b.span),
                  "the key cache compares keys through %s: a key is returned in the spelling that was cached first, not as the server sent it in this "
                  "response (decoding would depend on earlier responses on the connection)" % sorted(set(bad)), detail={"lookups": sorted(lookups)})


def response_constructors_rule(rep, prog, cfg):
    """Who may construct a Response, and every construction has >= 1 frame or an error (supports the
    into_single_frame unwrap audited in C12/C08)."""
    rule = "C03.response-ctor"
    allowed = {RB + "finish", RB + "error", "mpd_protocol::response::Response::empty"}
    ctor_roots = set()
    for b in prog.bodies.values():
        if b.crate == "mpd_protocol" and not b.raw.get("derived"):
            for bb, i, s in b.stmts():
                if s["k"] == "assign" and s["rv"]["k"] == "agg" and s["rv"]["agg"] == "adt" and norm(s["rv"]["adt_name"]) == "mpd_protocol::response::Response":
                    ctor_roots.add(norm(prog.bodies.get(b.root, b).name))
    # a private function all of whose callers are allowed is part of them (`complete(error)` shared by finish and error)
    from ..common import helper_owners
    owned = helper_owners(prog, ctor_roots, allowed)
    for b in prog.bodies.values():
        if b.crate != "mpd_protocol" or b.raw.get("derived"):
            continue
        for bb, i, s in b.stmts():
            if s["k"] == "assign" and s["rv"]["k"] == "agg" and s["rv"]["agg"] == "adt" and norm(s["rv"]["adt_name"]) == "mpd_protocol::response::Response":
                root = norm(prog.bodies.get(b.root, b).name)
                rep.check(root in allowed or root in owned, rule, "%s/%s" % (cfg, root), b.loc(s["span"]),
                          "%s constructs a Response outside the builder: the invariant 'at least one frame or an error' (relied on by into_single_frame) is not established there" % root)


def ack_rule(rep, prog, cfg):
    rule = "C03.ack"
    bs = body_by_name(prog, "mpd_protocol::parser::error")
    if len(bs) != 1:
        rep.fail(rule + ".anchor", cfg + "/parser::error", "parser.rs", "ACK line parser not found")
        return
    b = bs[0]
    fl = Flow(b)
    # order of the component parsers in the sequence tuple
    cg = callgraph(prog)
    seq = None
    for bb, i, s in b.stmts():
        if s["k"] == "assign" and s["rv"]["k"] == "agg" and s["rv"]["agg"] == "tuple" and len(s["rv"]["ops"]) == 3:
            kinds = []
            for o in s["rv"]["ops"]:
                l = op_local(o)
                leaves, _ = fl.sources([l] if l is not None else [], through_call=lambda t, k=None: tuple(range(6)), follow_mut=False)
                fns = set()
                for bb2, t2 in b.calls():
                    pass
                # function items reachable in the slice: look at const operands of the calls in the slice
                names = set()
                for leaf in leaves:
                    if leaf[0] == "call":
                        t2 = b.blocks[leaf[1]]["t"]
                        for a in t2["args"]:
                            c = op_const(a)
                            if c is not None and "fn" in c:
                                names.add(norm(c["fn"]["name"]))
                        names.update(callee_names(t2))
                kinds.append(names)
            seq = kinds
    def has(names, what):
        return any(n.endswith(what) for n in names)
    ok = seq is not None and has(seq[0], "parser::error_code_and_index") and has(seq[1], "parser::error_current_command") \
        and (has(seq[2], "::take_while") or has(seq[2], "::take_until") or has(seq[2], "::not_line_ending"))
    rep.check(ok, rule, cfg + "/sequence [code@index] {command} message", b.loc(b.span),
              "the ACK line is not parsed as the sequence code-and-index, current command, message text")
    # RawError fields <- positions of the parsed tuple
    exp = {"code": [0, 0], "command_index": [0, 1], "current_command": [1], "message": [2]}
    n_fields = 0
    for fb in family(prog, b):          # the construction may sit in the mapping closure of `map(delimited(..), |..| RawError {..})`
        in_closure = fb is not b
        for bb, i, s in fb.stmts():
            if s["k"] == "assign" and s["rv"]["k"] == "agg" and s["rv"]["agg"] == "adt" and s["rv"]["adt_name"].endswith(("RawError", "response::Error")):
                for fname, op in zip(s["rv"]["fields"], s["rv"]["ops"]):
                    if fname not in exp:
                        continue
                    path = tuple_path(fb, op_local(op))
                    n_fields += 1
                    need = len(exp[fname]) + (0 if in_closure else 1)
                    rep.check(path is not None and path[-len(exp[fname]):] == exp[fname] and len(path) >= need, rule,
                              "%s/RawError.%s<-%s" % (cfg, fname, path), fb.loc(s["span"]),
                              "ACK field %s is taken from position %s of the parsed tuple, expected …%s" % (fname, path, exp[fname]))
    rep.floor(rule, cfg + "/ACK fields tied to tuple positions", n_fields, 4)
    # error_code_and_index = [ number @ number ]  -> (code, index) positions 0/1 of separated_pair: inherent
    bs2 = body_by_name(prog, "mpd_protocol::parser::error_code_and_index")
    if len(bs2) == 1:
        b2 = bs2[0]
        names = set()
        chars = []
        for bb, t in b2.calls():
            names.update(callee_names(t))
            if "nom::character::streaming::char" in callee_names(t):
                c = op_const(t["args"][0])
                chars.append(chr(c["int"]) if c and c.get("int") is not None else "?")
        ordered = "nom::sequence::separated_pair" in names
        if not ordered:
            # written out (`let (i, code) = number(i)?; .. let (i, index) = number(i)?; Ok((i, (code, index)))`): the pair that is
            # returned holds the first number applied and then the second (the order of the characters is the grammar rule's)
            g2 = Cfg(b2)
            fl2 = Flow(b2)
            nums = [bb for bb, t in b2.calls() if any(n.endswith("parser::number") for n in callee_names(t))]
            if len(nums) == 2 and (g2.dom(nums[0], nums[1]) or g2.dom(nums[1], nums[0])):
                first, second = (nums[0], nums[1]) if g2.dom(nums[0], nums[1]) else (nums[1], nums[0])
                for bb, i, st in b2.stmts():
                    if st["k"] == "assign" and st["rv"]["k"] == "agg" and st["rv"]["agg"] == "tuple" and len(st["rv"]["ops"]) == 2:
                        srcs = []
                        for o in st["rv"]["ops"]:
                            lv, _ = fl2.sources([op_local(o)] if op_local(o) is not None else [], through_call=identity_through, follow_mut=False)
                            srcs.append({x[1] for x in lv if x[0] == "call" and x[1] in nums})
                        if srcs == [{first}, {second}]:
                            ordered = True
        rep.check(ordered and "@" in chars and "[" in chars and "]" in chars, rule,
                  cfg + "/[code@index]", b2.loc(b2.span), "code and index are not parsed as `[` number `@` number `]` (chars: %s)" % chars)
    # into_owned_error maps field to field
    bs3 = [x for x in prog.bodies.values() if norm(x.name).endswith("RawError::into_owned_error")]
    if len(bs3) == 1:
        b3 = bs3[0]
        for bb, i, s in b3.stmts():
            if s["k"] == "assign" and s["rv"]["k"] == "agg" and s["rv"]["agg"] == "adt" and norm(s["rv"]["adt_name"]) == "mpd_protocol::response::Error":
                for fname, op in zip(s["rv"]["fields"], s["rv"]["ops"]):
                    thr = []
                    src = self_field(b3, op_local(op), through=thr)
                    rep.check(src == fname, rule, "%s/Error.%s<-%s" % (cfg, fname, src), b3.loc(s["span"]),
                              "Error.%s is filled from the parsed field %r" % (fname, src))
                    # ... and verbatim: only ownership / view conversions between the captured text and the field
                    lossy = [x for x in thr if x not in KEEPS_VALUE]
                    rep.check(not lossy, rule, "%s/Error.%s stored verbatim" % (cfg, fname), b3.loc(s["span"]),
                              "Error.%s passes through %s on its way from the parsed ACK line: the client no longer reports what the server sent "
                              "(only ownership conversions such as Box::from / to_owned keep the value)" % (fname, lossy), detail={"through": thr})
    elif n_fields >= 4 and any(s2["k"] == "assign" and s2["rv"]["k"] == "agg" and norm(s2["rv"].get("adt_name", "")) == "mpd_protocol::response::Error"
                               for fb in family(prog, b) for _, _, s2 in fb.stmts()):
        # no borrowed intermediate: the ACK parser builds the owned Error itself, from the tuple positions checked above (the
        # conversions passed on the way are ownership conversions only, or tuple_path would not have followed them)
        rep.ok(rule, cfg + "/Error built by the ACK parser itself")
    else:
        rep.fail(rule + ".anchor", cfg + "/into_owned_error", "parser.rs", "RawError::into_owned_error not found")


def tuple_path(body, local, depth=8):
    """Field-index path of the place a local was moved/copied out of (through plain moves and ownership conversions such as
    `Box::from(x)` / `x.map(Box::from)`)."""
    for _ in range(depth):
        defs = [s for bb, i, s in body.stmts() if s["k"] == "assign" and s["place"]["l"] == local and not s["place"]["p"]]
        cdefs = [t for bb, t in body.calls() if t["dest"]["l"] == local and not t["dest"]["p"]]
        if not defs and len(cdefs) == 1 and cdefs[0]["args"]:
            short = (callee_names(cdefs[0]) or ["?"])[0].rsplit("::", 1)[-1].split("::<")[0]
            keep = short in KEEPS_VALUE
            if short in ("map",) and len(cdefs[0]["args"]) == 2:
                c = op_const(cdefs[0]["args"][1])
                keep = c is not None and "fn" in c and norm(c["fn"]["name"]).rsplit("::", 1)[-1] in KEEPS_VALUE
            if not keep or op_local(cdefs[0]["args"][0]) is None:
                return None
            local = op_local(cdefs[0]["args"][0])
            continue
        if len(defs) != 1 or defs[0]["rv"]["k"] not in ("use", "ref"):
            return None
        p = op_place(defs[0]["rv"]["op"]) if defs[0]["rv"]["k"] == "use" else defs[0]["rv"]["place"]
        if p is None:
            return None
        fs = [e["f"] for e in p["p"] if isinstance(e, dict) and "f" in e]
        if fs:
            # prepend the path of the base if it is itself a projection of something
            base = tuple_path(body, p["l"], depth - 1) if depth > 1 else None
            return (base or []) + fs
        local = p["l"]
    return None


KEEPS_VALUE = ("from", "into", "to_owned", "to_string", "into_boxed_str", "clone", "as_ref", "deref", "borrow", "to_vec", "into_string", "as_str")


def self_field(body, local, depth=6, through=None):
    """Named field of `self` (_1) that flows into `local` through moves and calls; the calls passed through are appended to
    `through` (names; for Option::map / Result::map the mapped function item, or '<closure>')."""
    for _ in range(depth):
        if local is None:
            return None
        defs = [s for bb, i, s in body.stmts() if s["k"] == "assign" and s["place"]["l"] == local and not s["place"]["p"]]
        cdefs = [t for bb, t in body.calls() if t["dest"]["l"] == local and not t["dest"]["p"]]
        if cdefs and not defs:
            if through is not None:
                ns = callee_names(cdefs[0])
                short = (ns[0] if ns else "?").rsplit("::", 1)[-1].split("::<")[0]
                if short in ("map", "and_then", "map_or") and len(cdefs[0]["args"]) >= 2:
                    c = op_const(cdefs[0]["args"][-1])
                    through.append(norm(c["fn"]["name"]).rsplit("::", 1)[-1] if c is not None and "fn" in c else "<closure>")
                else:
                    through.append(short)
            local = op_local(cdefs[0]["args"][0]) if cdefs[0]["args"] else None
            continue
        if len(defs) != 1:
            return None
        rv = defs[0]["rv"]
        p = op_place(rv["op"]) if rv["k"] == "use" else rv["place"] if rv["k"] == "ref" else None
        if p is None:
            return None
        if p["l"] == 1:
            return last_named_field(p)
        local = p["l"]
    return None


def binary_rule(rep, prog, cfg):
    rule = "C03.binary"
    bs = body_by_name(prog, PARSE)
    if len(bs) != 1:
        rep.fail(rule + ".anchor", cfg, PARSE, "function not found")
        return
    # cutting the payload may be a private helper next to the builder: spliced in (A12); the transitions themselves stay calls
    machine = {RB + m for m in ("field", "binary", "finish_frame", "finish", "error")}
    b = inlined(prog, bs[0], same_impl_helpers(bs[0], module=True, exclude=machine))
    fl = Flow(b)
    g = Cfg(b)
    bins = [(bb, t) for bb, t in b.calls() if RB + "binary" in callee_names(t)]
    if len(bins) != 1:
        rep.fail(rule, cfg + "/payload hand-over", b.loc(b.span), "expected one call of ResponseBuilder::binary in parse, found %d" % len(bins))
        return
    bbb, bt = bins[0]
    msg = op_local(bt["args"][1])
    # the payload buffer is the split-off message
    # (through the `?` / tuple a helper may hand the split-off message back in; a by-value helper that only cuts it is spliced in)
    def thr(t2, kind=None):
        ns2 = callee_names(t2)
        if any(n in ("core::ops::try_trait::Try::branch", "core::ops::try_trait::FromResidual::from_residual") for n in ns2):
            return (0,)
        return None
    leaves, _ = fl.sources([msg], through_call=thr, follow_mut=False)
    from_split = any(x[0] == "call" and "bytes::bytes_mut::BytesMut::split_to" in callee_names(b.blocks[x[1]]["t"]) for x in leaves)
    rep.check(from_split, rule, cfg + "/payload is the split-off message", b.loc(b.blocks[bbb]["ts"]),
              "the binary payload handed to the builder is not the message buffer split off the receive buffer")
    # the buffer under all the names it is moved through (temporaries, a helper's parameter and return value)
    aliases = {msg}
    changed = True
    while changed:
        changed = False
        for bb, i, s in b.stmts():
            if s["k"] == "assign" and s["rv"]["k"] == "use" and not s["place"]["p"]:
                src = op_place(s["rv"]["op"])
                if src is None or src["p"]:
                    continue
                x, y = s["place"]["l"], src["l"]
                if (x in aliases) != (y in aliases) and b.local_ty(x) == b.local_ty(y):
                    aliases |= {x, y}
                    changed = True
    # operations applied to the message buffer in the BinaryField arm
    applied = []
    for bb, t in b.calls():
        if not t["args"]:
            continue
        a0 = op_local(t["args"][0])
        base = None
        for bb2, i2, s2 in b.stmts():
            if s2["k"] == "assign" and s2["place"]["l"] == a0 and s2["rv"]["k"] == "ref" and not s2["rv"]["place"]["p"]:
                base = s2["rv"]["place"]["l"]
        if base in aliases:
            applied.append((callee_names(t)[0], bb, t))
    allowed = {"bytes::bytes_mut::BytesMut::len", "bytes::buf::buf_impl::Buf::advance", "bytes::bytes_mut::BytesMut::advance",
               "bytes::bytes_mut::BytesMut::truncate", "bytes::bytes_mut::BytesMut::split_off", "bytes::bytes_mut::BytesMut::split_to"}
    bad = [n for n, bb, t in applied if n not in allowed]
    rep.check(not bad, rule, cfg + "/no scanning of the payload", b.loc(b.span),
              "the binary payload is processed with %s: payload bytes must be cut by length, never inspected (they may look like protocol lines)" % bad,
              detail={"operations": sorted({n for n, _, _ in applied})})
    # truncate(len) derives from data_length only
    dl_ok = False
    for n, bb, t in applied:
        if n.endswith("::truncate"):
            fo = origin_fields_all(b, op_local(t["args"][1]))
            dl_ok = fo == {"data_length"}
    rep.check(dl_ok, rule, cfg + "/truncate to data_length", b.loc(b.span),
              "the payload is not truncated to exactly the announced data_length")
    adv_ok = False
    for n, bb, t in applied:
        if n.endswith("::advance"):
            fo = origin_fields_all(b, op_local(t["args"][1]))
            leaves, _ = fl.sources([op_local(t["args"][1])], follow_mut=False)
            uses_len = any(x[0] == "call" and any(y.endswith("::len") for y in callee_names(b.blocks[x[1]]["t"])) for x in leaves)
            consts = sorted(x[1] for x in leaves if x[0] == "const")
            adv_ok = fo == {"data_length"} and uses_len and consts == ["1_usize"]
    rep.check(adv_ok, rule, cfg + "/header skipped by length", b.loc(b.span),
              "the header is not skipped by msg.len() - (data_length + 1)")
    # data_length = length of the parsed binary field
    pc = body_by_name(prog, COMPONENT_PARSE)
    if len(pc) == 1:
        ok = False
        for fb in family(prog, pc[0]):
            for bb, i, s in fb.stmts():
                if s["k"] == "assign" and s["rv"]["k"] == "agg" and s["rv"].get("variant") == "BinaryField":
                    fl2 = Flow(fb)
                    leaves, _ = fl2.sources([op_local(s["rv"]["ops"][0])], follow_mut=False)
                    ok = any(x[0] == "call" and any(y.endswith("::len") for y in callee_names(fb.blocks[x[1]]["t"])) for x in leaves) \
                        and not any(x[0] == "const" for x in leaves)
        if not ok:
            # equivalent form: the binary parser hands back the announced length itself — the very value it gave to `take(n)`,
            # which yields exactly n bytes — and the mapping closure stores that number
            alts = alt_table(prog, pc[0]) or {}
            pfn = prog.bodies.get((alts.get("BinaryField") or {}).get("parser"))
            if pfn is not None:
                flp = Flow(pfn)
                takes = [t for _, t in pfn.calls() if any(n in ("nom::bytes::streaming::take", "nom::bytes::complete::take") for n in callee_names(t))]
                rets = []
                for _, _, s2 in pfn.stmts():
                    if s2["k"] == "assign" and s2["rv"]["k"] == "agg" and s2["rv"].get("agg") == "tuple" and len(s2["rv"]["ops"]) == 2:
                        rets.append(op_local(s2["rv"]["ops"][1]))
                if len(takes) == 1 and rets and op_local(takes[0]["args"][0]) is not None:
                    src_take, _ = flp.sources([op_local(takes[0]["args"][0])], follow_mut=False)
                    same = all(r is not None and flp.sources([r], follow_mut=False)[0] == src_take for r in rets)
                    stored_param = False
                    for fb in family(prog, pc[0]):
                        for _, _, s2 in fb.stmts():
                            if s2["k"] == "assign" and s2["rv"]["k"] == "agg" and s2["rv"].get("variant") == "BinaryField":
                                lv, _ = Flow(fb).sources([op_local(s2["rv"]["ops"][0])], follow_mut=False)
                                stored_param = lv == {("param", 2)}
                    ok = same and stored_param and any(x[0] == "call" for x in src_take) and not any(x[0] == "const" for x in src_take)
        rep.check(ok, rule, cfg + "/data_length = len(payload)", pc[0].loc(pc[0].span), "data_length is not the length of the parsed payload")


def origin_fields_all(body, local):
    f, c, p = field_origins(body, local, body.reachable())
    return f


def priority_rule(rep, prog, cfg):
    rule = "C03.priority"
    pc = body_by_name(prog, COMPONENT_PARSE)
    if len(pc) != 1:
        rep.fail(rule + ".anchor", cfg, COMPONENT_PARSE, "function not found")
        return
    alts = alt_table(prog, pc[0])
    if not alts or "BinaryField" not in alts or "Field" not in alts:
        rep.fail(rule, cfg + "/alternatives", pc[0].loc(pc[0].span), "cannot identify the alternatives of the component parser (idiom unknown: failing closed)")
        return
    rep.check(alts["BinaryField"]["index"] < alts["Field"]["index"], rule, cfg + "/binary before key-value", pc[0].loc(pc[0].span),
              "the key-value alternative precedes the binary alternative: `binary: N` is also a well-formed key-value line, so a binary header would be decoded as a field and the payload parsed as lines",
              detail={k: v["index"] for k, v in alts.items()})
    for v in ("EndOfResponse", "EndOfFrame", "Error", "BinaryField", "Field"):
        rep.check(v in alts, rule, "%s/alternative %s present" % (cfg, v), pc[0].loc(pc[0].span), "no alternative produces %s" % v)


def verbatim_rule(rep, prog, cfg, rule="C03.grammar"):
    """What the line grammar captured is what the component carries: in the mapping closures of the component parser the fields of
    the constructed ParsedComponent come from the closure's argument through ownership / view conversions only (String::from,
    to_owned, the key cache) — a `trim`, case fold or replacement between capture and field changes what the client reports."""
    from .. import terms
    pc = body_by_name(prog, COMPONENT_PARSE)
    if len(pc) != 1:
        return
    EXPECT = {"Field": {"key": ("0",), "value": ("1",)}, "BinaryField": {"data_length": ()}, "Error": {"0": ()}}
    OK_CALLS = {"from", "into", "to_owned", "to_string", "into_boxed_str", "clone", "as_ref", "deref", "borrow", "into_string", "as_str",
                "insert", "into_owned_error", "len"}
    seen = set()
    for nb in prog.bodies.values():
        if nb.root != pc[0].root or nb is pc[0] or nb.kind != "Closure":
            continue
        for bb, i, st in nb.stmts():
            if st["k"] == "assign" and st["rv"]["k"] == "agg" and st["rv"]["agg"] == "adt" and st["rv"]["adt_name"].endswith("parser::ParsedComponent"):
                v = st["rv"].get("variant")
                if v not in EXPECT:
                    continue
                for f, o in zip(st["rv"].get("fields") or [], st["rv"]["ops"]):
                    l = op_local(o)
                    t = terms.simplify(terms.term_of_local(nb, l, depth=12)) if l is not None else None
                    seen.add((v, f))
                    calls = [c.rsplit("::", 1)[-1].split("::<")[0] for c in terms.calls_in(t)] if t is not None else ["?"]
                    lossy = sorted({c for c in calls if c not in OK_CALLS})
                    from_arg = t is not None and ("free", 2) in _frees(t)
                    rep.check(not lossy and from_arg and not terms.has_kind(t, "binop") and not terms.has_kind(t, "const"), rule,
                              "%s/%s.%s carries the captured text unchanged" % (cfg, v, f), nb.loc(st["span"]),
                              "ParsedComponent::%s.%s is `%s`: not the text the line grammar captured passed through ownership conversions only%s"
                              % (v, f, terms.show(terms.canon(t)) if t is not None else "?", (" (%s changes it)" % ", ".join(lossy)) if lossy else ""))
    # `map(parser, ParsedComponent::Variant)`: the constructor is handed the parser's output as it is
    for bb, t in pc[0].calls():
        if "nom::combinator::map" in callee_names(t) and len(t["args"]) == 2:
            c2 = op_const(t["args"][1])
            if c2 is not None and "fn" in c2 and "{constructor" in c2["fn"].get("def", "") and "parser::ParsedComponent::" in c2["fn"]["name"]:
                v = norm(c2["fn"]["name"]).rsplit("::", 1)[-1]
                for f in EXPECT.get(v, {}):
                    seen.add((v, f))
                    rep.ok(rule, "%s/%s.%s carries the captured text unchanged" % (cfg, v, f))
    want = {(v, f) for v, fs in EXPECT.items() for f in fs}
    rep.check(want <= seen, rule, cfg + "/component fields filled in the mapping closures", pc[0].loc(pc[0].span),
              "cannot see where %s are filled (idiom unknown: failing closed)" % sorted(want - seen))


def _frees(t, out=None):
    out = out if out is not None else set()
    if isinstance(t, tuple) and t:
        if t[0] == "free":
            out.add(t)
        for x in t:
            if isinstance(x, tuple):
                _frees(x, out)
    return out


def grammar_rule(rep, prog, cfg, rule="C03.grammar", only=None):
    """A10: the line grammar denoted by the nom combinator trees equals the MPD line grammar."""
    from .. import grammar as G
    pc = body_by_name(prog, COMPONENT_PARSE)
    if len(pc) != 1:
        rep.fail(rule + ".anchor", cfg, COMPONENT_PARSE, "function not found")
        return
    alts = alt_table(prog, pc[0])
    ex = G.Extractor(prog)
    name = G.ALPHA | {0x5F}
    text = G.ALL - {10}
    num = ("parse",)
    REF = {
        "EndOfResponse": (G.lit(b"OK\n"), []),
        "EndOfFrame": (G.lit(b"list_OK\n"), []),
        "Error": (G.seq(G.lit(b"ACK ["), G.cap(G.rep(G.DIGITS, 1)), G.lit(b"@"), G.cap(G.rep(G.DIGITS, 1)), G.lit(b"] {"),
                        G.opt(G.cap(G.rep(name, 1))), G.lit(b"} "), G.cap(G.rep(text, 0)), G.lit(b"\n")), ["num", "num", "utf8", "utf8"]),
        "BinaryField": (G.seq(G.lit(b"binary: "), G.cap(G.rep(G.DIGITS, 1)), G.lit(b"\n"), G.cap(("take", "n")), G.lit(b"\n")), ["num", "raw"]),
        "Field": (G.seq(G.cap(G.rep(name | {0x2D}, 1)), G.lit(b": "), G.cap(G.rep(text, 0)), G.lit(b"\n")), ["utf8", "utf8"]),
    }
    try:
        top = ex.of_fn(pc[0])
    except G.Unsupported as e:
        rep.fail(rule, cfg + "/component parser", pc[0].loc(pc[0].span), "the combinator tree of the component parser cannot be extracted (%s): failing closed" % e)
        return
    if top[0] != "alt" or not alts:
        rep.fail(rule, cfg + "/component parser", pc[0].loc(pc[0].span), "the component parser is not an alt(..) of mapped alternatives (idiom unknown: failing closed)")
        return
    for variant, (ref, conds) in REF.items():
        if only is not None and variant not in only:
            continue
        info = alts.get(variant)
        if info is None or info["index"] >= len(top[1]):
            rep.fail(rule, "%s/%s" % (cfg, variant), pc[0].loc(pc[0].span), "no alternative produces %s" % variant)
            continue
        try:
            alt_term = top[1][info["index"]]
            if "sub" in info:
                inner_top = ex.of_fn(prog.bodies[info["in"]])
                if inner_top[0] != "alt" or info["sub"] >= len(inner_top[1]):
                    raise G.Unsupported("nested alternative of %s is not an alt(..)" % info["in"])
                alt_term = inner_top[1][info["sub"]]
            term = G.flatten(ex.resolve(alt_term))
            same, wit = G.equivalent(term, G.flatten(ref))
        except G.Unsupported as e:
            rep.fail(rule, "%s/%s" % (cfg, variant), pc[0].loc(pc[0].span), "the grammar of the %s alternative cannot be decided (%s): failing closed" % (variant, e))
            continue
        rep.check(same, rule, "%s/%s language" % (cfg, variant), pc[0].loc(pc[0].span),
                  "the %s line parser denotes  %s  — the MPD line grammar is  %s ; shortest distinguishing input (⟨⟩ = captured value): `%s` is accepted only by the %s"
                  % (variant, G.pretty(term), G.pretty(G.flatten(ref)), wit[1] if wit else "", wit[0] if wit else ""),
                  detail={"grammar": G.pretty(term)})
        got = G.conds_of(term)
        ok = len(got) == len(conds)
        if ok:
            for c, want in zip(got, conds):
                if want == "utf8" and not any(x.endswith("from_utf8") for x in c):
                    ok = False
                if want == "num" and not any(x.endswith("::parse") or x.startswith("nom::u") for x in c):
                    ok = False
        rep.check(ok, rule, "%s/%s conversions" % (cfg, variant), pc[0].loc(pc[0].span),
                  "the captured values of the %s line are converted with %s; expected %s (text must be validated UTF-8, numbers parsed with overflow check)" % (variant, got, conds),
                  detail={"conversions": [list(c) for c in got]})


def run(rep, progs, tier):
    rep.explanation = (
        "Rule-based static analysis (no execution), tied to the private ResponseState machine (fails closed "
        "if replaced). The transition table of the response builder is extracted by interpreting each "
        "builder method once per state variant (other branches fork) and reading, per state, which state "
        "and which Response it constructs and where the frames / error / current-frame components derive "
        "from (field-sensitive provenance through the pattern bindings); it is compared with the table "
        "written from the protocol (OK, list_OK, ACK, field, binary). ACK fields are tied to tuple "
        "positions of the sequence parser; the binary payload is the split-off message cut by values "
        "derived from data_length only, with no scanning call applied; binary precedes key-value in the "
        "alternative; Responses are constructed only by the builder. A10: the nom combinator tree of each "
        "alternative is rebuilt from MIR as a regular term over bytes (capture markers around every value-"
        "producing class-based leaf, a symbolic PAYLOAD(N) for take(n), predicates evaluated exactly by A5), "
        "compiled to an NFA and compared with the MPD line grammar by a product construction over "
        "determinised subsets; a difference is reported with a shortest distinguishing input. NOT decided: "
        "UTF-8 decoding itself and integer parsing (delegated to std), the relation between the announced "
        "and the taken payload length beyond provenance.")
    rep.rule("C03.machine", "builder transition table (5 methods x 3 states) equals the protocol table")
    rep.rule("C03.key-exact", "the per-connection key cache returns a key equal to the parsed key (no case-folding / trimming / prefix lookup)")
    rep.rule("C03.response-ctor", "Response constructed only by the builder / Response::empty")
    rep.rule("C03.accessors", "imported from C19: Response / Frame iteration and lookup yield what was decoded, in wire order, error last")
    rep.rule("C03.ack", "ACK [code@index] {command} message: fields tied to tuple positions, mapped field to field")
    rep.rule("C03.binary", "payload = split-off message, cut by data_length only, never scanned")
    rep.rule("C03.priority", "binary alternative before key-value; all five alternatives present")
    rep.rule("C03.grammar", "A10: the regular language (with capture positions and symbolic payload) denoted by each alternative's combinator tree equals the MPD line grammar; conversions of the captures")
    rep.trusted = ["rustc MIR construction", "mpdfacts exporter", "nom sequence/alt semantics", "BytesMut semantics", "MPD protocol reference"]
    for cfg, prog in progs.items():
        machine_rule(rep, prog, cfg)
        response_constructors_rule(rep, prog, cfg)
        key_exact_rule(rep, prog, cfg)
        ack_rule(rep, prog, cfg)
        binary_rule(rep, prog, cfg)
        priority_rule(rep, prog, cfg)
        grammar_rule(rep, prog, cfg)
        verbatim_rule(rep, prog, cfg)
        # the decoded frames / error are observed through the accessors of Response and Frame: in wire order, first frame first,
        # error last (decided by the rules of C19, which owns them)
        from . import C19
        with rep.importing("C19.", "C03.accessors."):
            C19.all_rules(rep, prog, cfg)
