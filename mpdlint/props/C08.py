"""C08 — when the connection ends, every request resolves and the failure is reported (DESIGN §4/C08)."""
from .. import panics, tables
from ..callgraph import norm
from ..cfg import Cfg, reach
from ..common import body_by_name, callee_names, callgraph, family, logic_body
from ..facts import callee, op_const, op_local, op_place
from ..flow import Flow, identity_through
from ..loopan import analyse, fn_name, report_violations
from ..typestate import AC, EVSEND, ONESEND, RECV

CONFIGS_QUICK = ["K1"]
CONFIGS_THOROUGH = ["K1", "K2"]
TECHNIQUE = "static analysis: error-flow (must-reach-sink) provenance, typestate interpretation (closing event terminal, closed queue leaves the loop), ownership who-may-call, panic inventory (MIR)"

AUDITED = {
    "Response::into_single_frame|call:Option::unwrap": (
        1, "a Response always holds at least one frame or an error (constructed only by the response builder, C03.response-ctor)"),
    "Client::connect|panic:panic": (
        1, "unreachable!(): do_connect(.., None) cannot return IncorrectPassword (the password branch is not taken)"),
    "do_connect|call:spawn": (
        1, "documented: Client::connect panics outside a Tokio runtime (API contract, not a connection fault)"),
    "Client::raw_command_list|call:Vec::with_capacity": (
        1, "capacity = number of frames already held in the reply"),
}


ERR_MAPPERS = ("core::result::Result::map_err", "core::result::Result::or_else", "core::result::Result::unwrap_or_else", "core::result::Result::ok",
               "core::result::Result::unwrap_or", "core::result::Result::unwrap_or_default", "core::result::Result::is_err", "core::result::Result::is_ok",
               "core::result::Result::err")


def error_preserving(prog, co, t):
    """Does this call hand the *error* of its Result argument on?  `map_err(f)` does only when f returns (something built
    from) its argument — `Into::into`, a closure `|e| Wrapper(e)` — not when f logs the error and returns `()`;
    `ok()`, `unwrap_or*`, `is_err()` drop it.  Other identity-like calls (transpose, ok_or, Try::branch, ...) keep it."""
    ns = callee_names(t)
    if not any(n in ERR_MAPPERS for n in ns):
        return identity_through(t) is not None
    if not any(n in ("core::result::Result::map_err", "core::result::Result::or_else") for n in ns) or len(t["args"]) < 2:
        return False
    c = op_const(t["args"][1])
    if c is not None and "fn" in c:
        return norm(c["fn"]["name"]) in ("core::convert::Into::into", "core::convert::From::from")
    l = op_local(t["args"][1])
    clo = None
    if l is not None:
        for bb, i, s2 in co.stmts():
            if s2["k"] == "assign" and s2["place"]["l"] == l and not s2["place"]["p"] and s2["rv"]["k"] == "agg" and s2["rv"].get("agg") == "closure":
                clo = prog.bodies.get(s2["rv"]["def"])
    if clo is None:
        return False
    leaves, _ = Flow(clo).sources([0], through_call=identity_through, follow_mut=False)
    return ("param", 2) in leaves


def transport_errors_rule(rep, prog, cfg):
    """Protocol layer: every io::Error a transport operation reports in connect / receive / send* reaches the caller.  An error
    that is matched away (`Err(e) if e.kind() == .. => 0`, `Err(_) => return Ok(None)`) or only logged turns a transport
    failure into a clean close or a hang one layer up."""
    from .C02 import conn_bodies
    rule = "C08.transport-errors"
    bodies = dict(conn_bodies(prog))
    for nm in ("send", "send_list"):
        for fl_, owner in (("blocking", "Connection"), ("async", "AsyncConnection")):
            b0 = body_by_name(prog, "mpd_protocol::connection::%s::%s" % (owner, nm))
            if len(b0) == 1:
                best = None
                for fb in family(prog, b0[0]):
                    if any("io" in n and ("write" in n.rsplit("::", 1)[-1] or "flush" in n.rsplit("::", 1)[-1]) for bb, t in fb.calls() for n in callee_names(t)):
                        best = fb if best is None or len(fb.blocks) > len(best.blocks) else best
                if best is not None:
                    bodies["%s/%s" % (fl_, nm)] = best
    # the send-then-receive shorthands: the result of the send (a protocol error that wraps the io::Error) must reach the caller
    # before anything is awaited from the server
    shorthand = set()
    for nm in ("command", "command_list"):
        for fl_, owner in (("blocking", "Connection"), ("async", "AsyncConnection")):
            b0 = body_by_name(prog, "mpd_protocol::connection::%s::%s" % (owner, nm))
            if len(b0) == 1:
                best = None
                for fb in family(prog, b0[0]):
                    if any(n.endswith("::send") or n.endswith("::send_list") for bb, t in fb.calls() for n in callee_names(t)):
                        best = fb if best is None or len(fb.blocks) > len(best.blocks) else best
                if best is not None:
                    bodies["%s/%s" % (fl_, nm)] = best
                    shorthand.add("%s/%s" % (fl_, nm))
    from .C10 import READS, READS_EXT
    READS.bind(prog)
    for hn in sorted(x for x in READS if x not in READS_EXT):
        for hb in body_by_name(prog, hn):
            bodies["helper/" + hn.rsplit("::", 1)[-1]] = hb
    n = 0
    for name, b in sorted(bodies.items()):
        if b is None:
            continue
        fl = Flow(b)
        origins = []
        for i, l in enumerate(b.locals):
            ty = l["ty"]
            if not (ty.startswith("core::result::Result<") and (ty.rstrip(">").endswith("std::io::error::Error") or
                                                             (name in shorthand and ty.rstrip(">").endswith("MpdProtocolError") and ty.startswith("core::result::Result<(),")))):
                continue
            defs = [s2 for _, _, s2 in b.stmts() if s2["k"] == "assign" and s2["place"]["l"] == i and not s2["place"]["p"]]
            cdefs = [t for _, t in b.calls() if t["dest"]["l"] == i and not t["dest"]["p"]]
            from_ready = any(d["rv"]["k"] == "use" and op_place(d["rv"]["op"]) is not None and any(isinstance(e, dict) and e.get("n") == "Ready"
                                                                                                     for e in op_place(d["rv"]["op"])["p"]) for d in defs)
            from_call = any(not any(x in ("core::ops::try_trait::Try::branch",) for x in callee_names(t)) and identity_through(t) is None for t in cdefs)
            if from_ready or from_call:
                origins.append(i)
        for i in origins:
            n += 1
            derived, uses = fl.forward([i], through_call=lambda t, ai: error_preserving(prog, b, t))
            # handed to `?` as a whole (possibly after an error-preserving map_err): all errors propagate
            whole = {i}
            grew = True
            while grew:
                grew = False
                for _, _, s2 in b.stmts():
                    if s2["k"] == "assign" and not s2["place"]["p"] and s2["rv"]["k"] == "use" and s2["place"]["l"] not in whole:
                        pl = op_place(s2["rv"]["op"])
                        if pl is not None and pl["l"] in whole and not pl["p"]:
                            whole.add(s2["place"]["l"])
                            grew = True
                for _, t in b.calls():
                    if t["args"] and op_local(t["args"][0]) in whole and t["dest"]["l"] not in whole and not t["dest"]["p"] \
                            and any(x.endswith("Result::map_err") for x in callee_names(t)) and error_preserving(prog, b, t):
                        whole.add(t["dest"]["l"])
                        grew = True
            ok = any("core::ops::try_trait::Try::branch" in callee_names(t) and t["args"] and op_local(t["args"][0]) in whole for _, t in b.calls()) \
                and 0 in derived
            if not ok:
                # matched by hand: every Err binding must reach the return value
                binds = []
                for _, _, s2 in b.stmts():
                    if s2["k"] == "assign" and s2["rv"]["k"] == "use" and not s2["place"]["p"]:
                        pl = op_place(s2["rv"]["op"])
                        if pl is not None and pl["l"] in derived and any(isinstance(e, dict) and e.get("n") == "Err" for e in pl["p"]):
                            binds.append(s2["place"]["l"])
                ok = bool(binds) and all(0 in fl.forward([x], through_call=lambda t, ai: error_preserving(prog, b, t))[0] for x in binds)
            rep.check(ok, rule, "%s/%s io result _%d reaches the caller" % (cfg, name, i), b.loc(b.span),
                      "an io::Error reported by the transport in %s does not reach the function's return value on every way it is handled "
                      "(it is matched away, replaced by a value, or only logged)" % name)
    rep.floor(rule, cfg + "/transport results", n, 6)


def error_bindings(co, info):
    """For every awaited connection operation: (op, site, result local, [locals bound to its Err payload],
    whole-result locals)."""
    out = []
    for abb, (d, res) in info.await_at.items():
        if d is None or d[0] != "conn" or res is None:
            continue
        # locals holding (moves of) the whole result
        whole = {res}
        changed = True
        while changed:
            changed = False
            for bb, i, s in co.stmts():
                if s["k"] == "assign" and not s["place"]["p"] and s["rv"]["k"] == "use":
                    p = op_place(s["rv"]["op"])
                    if p is not None and p["l"] in whole and not p["p"] and s["place"]["l"] not in whole:
                        whole.add(s["place"]["l"])
                        changed = True
            # through transpose / ok_or / map_err / Try::branch the error stays inside
            for bb, t in co.calls():
                if t["args"] and op_local(t["args"][0]) in whole and error_preserving(co.prog, co, t) and t["dest"]["l"] not in whole \
                        and not t["dest"]["p"]:
                    whole.add(t["dest"]["l"])
                    changed = True
        errs = []
        for bb, i, s in co.stmts():
            if s["k"] == "assign" and s["rv"]["k"] == "use" and not s["place"]["p"]:
                p = op_place(s["rv"]["op"])
                if p is not None and p["l"] in whole and any(isinstance(e, dict) and e.get("n") == "Err" for e in p["p"]):
                    errs.append((s["place"]["l"], bb))
        out.append((d[1], d[3], res, errs, whole))
    return out


def extra_results(co, info):
    """Connection results that do not come from a direct await in this body: the payload of a select!
    branch whose future is a connection operation, and parameters of type Result<_, MpdProtocolError>
    (a result handed over by the caller).  Returns [(op label, site bb, local)]."""
    out = []
    for sbb, (arms, ds, outl) in info.selects.items():
        for vname, (idx, tgt) in arms.items():
            if idx is None or ds[idx][0] != "conn":
                continue
            for bb, i, s in co.stmts():
                if s["k"] == "assign" and s["rv"]["k"] == "use" and not s["place"]["p"]:
                    p = op_place(s["rv"]["op"])
                    if p is not None and p["l"] == outl and any(isinstance(e, dict) and e.get("n") == vname for e in p["p"]):
                        out.append(("select:" + ds[idx][1], sbb, s["place"]["l"]))
    for s in co.blocks[0]["s"]:
        if s["k"] == "assign" and s["rv"]["k"] == "use" and not s["place"]["p"]:
            p = op_place(s["rv"]["op"])
            if p is not None and p["l"] == 1 and len(p["p"]) == 1:
                ty = co.local_ty(s["place"]["l"])
                if ty.startswith("core::result::Result<") and "MpdProtocolError" in ty:
                    out.append(("param:" + (co.locals[s["place"]["l"]]["name"] or "?"), 0, s["place"]["l"]))
    return out


def whole_and_errs(co, resl):
    whole = {resl}
    changed = True
    while changed:
        changed = False
        for bb, i, s in co.stmts():
            if s["k"] == "assign" and not s["place"]["p"] and s["rv"]["k"] == "use":
                p = op_place(s["rv"]["op"])
                if p is not None and p["l"] in whole and not p["p"] and s["place"]["l"] not in whole:
                    whole.add(s["place"]["l"])
                    changed = True
        for bb, t in co.calls():
            if t["args"] and op_local(t["args"][0]) in whole and error_preserving(co.prog, co, t) and t["dest"]["l"] not in whole and not t["dest"]["p"]:
                whole.add(t["dest"]["l"])
                changed = True
    errs = []
    for bb, i, s in co.stmts():
        if s["k"] == "assign" and s["rv"]["k"] == "use" and not s["place"]["p"]:
            p = op_place(s["rv"]["op"])
            if p is not None and p["l"] in whole and any(isinstance(e, dict) and e.get("n") == "Err" for e in p["p"]):
                errs.append((s["place"]["l"], bb))
    return whole, errs


def sinks_of(co, fl, start):
    """Sinks reached by a value: set of ('responder', bb) / ('event', bb) / ('return',)"""
    # the error, not the success payload: a read of `(result as Ok).0` does not carry it on (with `map_err(|e| log(e))?` written
    # out as its match, the Ok arm re-wraps the payload and would otherwise make the return value look like a sink)
    derived, uses = fl.forward([start], through_call=lambda t, ai: error_preserving(co.prog, co, t), stop_variants=("Ok", "Some", "Continue"))
    # aggregates wrapping the value (Err(e.into()), ConnectionClosed(e.into())) are followed by forward()
    out = set()
    for bb, ai in uses:
        t = co.blocks[bb]["t"]
        ns = callee_names(t)
        if ONESEND in ns and ai == 1:
            out.add(("responder", bb))
        if EVSEND in ns and ai == 1:
            out.add(("event", bb))
        f = callee(t)
        if f is not None and (f.get("inst") or f["def"]).startswith("mpd_client::client::connection::"):
            out.add(("handler", bb))
    if 0 in derived:
        out.add(("return",))
    return out


def run(rep, progs, tier):
    rep.explanation = (
        "Rule-based static analysis (no execution). A3 must-reach: every MpdProtocolError produced by an awaited connection "
        "operation in the loop functions reaches a sink — the value argument of a oneshot responder send, the payload of a "
        "closing event, or the function's return value (an error that is only logged is reported) — and, when a responder taken "
        "from the queue / the in-flight one is in scope at that point, that responder is the sink. A4 (shared with C05): after the "
        "closing event only leaving the loop may follow (at most one closing event); when the command queue reports closed (last "
        "handle dropped) the loop leaves without writing and never continues; the value of the queue branch is an Option tested in "
        "user code. A1: responders, the receiver and the connection are owned by the loop future and never leaked "
        "(mem::forget / ManuallyDrop / Box::leak), so leaving the loop drops them (pending callers wake, the transport is "
        "released). A7: no unaudited panic-capable construct in the loop functions and in Client::do_send / raw_command / "
        "raw_command_list; both channel failures map to CommandError::ConnectionClosed. NOT decided: that tokio wakes a "
        "receiver whose sender is dropped; behaviour under a transport that blocks forever.")
    rep.rule("C08.transport-errors", "protocol layer: every io::Error of a transport operation reaches the caller of connect/receive/send")
    rep.rule("C08.events-optional", "the result of an event send never reaches a branch or the return value")
    rep.rule("C08.error-flow", "every connection error in the loop reaches a responder, a closing event or the return value")
    rep.rule("C08.who-gets-it", "with a responder in scope the error goes to that responder, otherwise to the closing event")
    rep.rule("C08.close-terminal", "after ConnectionClosed only loop exit; at most one closing event")
    rep.rule("C08.queue-closed", "recv() == None leaves the loop; the Option is tested in user code")
    rep.rule("C08.raii", "no mem::forget / ManuallyDrop / Box::leak / Rc / Arc of loop-owned resources")
    rep.rule("C08.no-panic", "no unaudited panic site in loop functions and Client send paths; channel failures -> ConnectionClosed")
    rep.trusted = ["rustc MIR construction", "mpdfacts exporter", "tokio drop semantics of oneshot/mpsc", "audited panic reasons (text)"]
    rep.rule("C08.eof-classified", "imported from C10: a 0-byte read yields Ok(None) only with no frame in progress and no unconsumed bytes, else UnexpectedEof")
    rep.rule("C08.malformed", "imported from C09 (owner of the protocol layer's error classification): a parse error that is not 'incomplete' ends "
             "receive() with InvalidMessage and is never retried — otherwise a malformed reply on a live connection is waited on for ever and no "
             "request resolves")
    for cfg, prog in progs.items():
        one(rep, prog, cfg)
        transport_errors_rule(rep, prog, cfg)
        from .C09 import invalid_rule
        with rep.importing("C09.invalid", "C08.malformed"):
            invalid_rule(rep, prog, cfg)
        # "end of stream inside a response" is a failure, not a clean close: the classification rule of C10 on the async flavour
        # the client uses (and the blocking sibling)
        from . import C10
        C10.READS.bind(prog)
        with rep.importing("C10.", "C08.eof-classified."):
            C10.receive_rule(rep, prog, cfg, "mpd_protocol::connection::Connection::receive", "blocking")
            if cfg != "K3":
                C10.receive_rule(rep, prog, cfg, "mpd_protocol::connection::AsyncConnection::receive", "async")
            C10.in_progress_def(rep, prog, cfg)


def one(rep, prog, cfg):
    res = analyse(prog)
    if res is None:
        rep.fail("C08.anchor", cfg, "client/connection.rs", "connection loop not found")
        return
    an = res["an"]
    report_violations(rep, res, {"C08.close-terminal", "C08.queue-closed"}, cfg)
    n_closed = sum(1 for e in an.events.values() if e["kind"] == "event:closed")
    rep.check(not [v for v in an.violations if v["rule"] == "C08.close-terminal"], "C08.close-terminal", cfg + "/closing event is terminal", "client/connection.rs",
              "see above", detail={"closing_event_sites": n_closed, "states": an.states_seen})
    rep.floor("C08.close-terminal", cfg + "/closing event sites", n_closed, 3)
    rep.check(not [v for v in an.violations if v["rule"] == "C08.queue-closed"], "C08.queue-closed", cfg + "/closed queue leaves the loop", "client/connection.rs", "see above")
    rep.count("states_" + cfg, an.states_seen)
    rep.count("transitions_" + cfg, an.transitions)
    n_err = 0
    for f in res["fns"]:
        co = an.spliced_coroutine_of(f)
        if co is None:
            continue
        info = an.info(co)
        fl = Flow(co)
        g = Cfg(co)
        name = fn_name(prog, co)
        # responder-typed locals
        resp_locals = [i for i, l in enumerate(co.locals) if l["ty"].startswith("tokio::sync::oneshot::Sender<") and l["name"]]
        ebs = error_bindings(co, info)
        for op, site, resl in extra_results(co, info):
            whole, errs = whole_and_errs(co, resl)
            ebs.append((op, site, resl, errs, whole))
        for op, site, resl, errs, whole in ebs:
            n_err += 1
            sinks = set()
            for w in whole:
                pass
            # (a) the whole result flows into a sink, or (b) each error binding does
            whole_sinks = sinks_of(co, fl, resl)
            bind_sinks = [sinks_of(co, fl, l) for l, bb in errs]
            ok = bool(whole_sinks) or (errs and all(bs for bs in bind_sinks))
            inst = "%s/%s %s@%d" % (cfg, name, op, n_err)
            inst = "%s/%s %s -> %s" % (cfg, name, op, "+".join(sorted({s[0] for bs in bind_sinks for s in bs} | {s[0] for s in whole_sinks})) or "nothing")
            rep.check(ok, "C08.error-flow", inst, co.loc(co.blocks[site]["ts"]),
                      "the error of `%s` in %s reaches no responder, closing event or return value (it is dropped or only logged): "
                      "the failure is not surfaced and a caller may wait forever" % (op, name))
            # who gets it
            for (l, bb), bs in zip(errs, bind_sinks):
                # a responder in scope: assigned in a block that dominates bb and consumed in a block reachable from bb
                in_scope = []
                for r in resp_locals:
                    defs = [b2 for b2, i2, s2 in co.stmts() if s2["k"] == "assign" and s2["place"]["l"] == r and not s2["place"]["p"]]
                    if not defs or not all(g.dom(d, bb) for d in defs):
                        continue
                    # still alive at bb: no hand-over of this responder (oneshot send / stored as the in-flight one)
                    # lies on a path that leads to bb
                    consumed_before = False
                    for b3 in co.reachable():
                        if b3 == bb:
                            continue
                        hit = False
                        t3 = co.blocks[b3]["t"]
                        if t3["k"] == "call" and ONESEND in callee_names(t3) and resp_root(co, op_local(t3["args"][0])) == r:
                            hit = True
                        for s3 in co.blocks[b3]["s"]:
                            if s3["k"] == "assign" and s3["rv"]["k"] == "agg" and s3["rv"].get("variant") == "WaitingForCommandReply" \
                                    and resp_root(co, op_local(s3["rv"]["ops"][0])) == r:
                                hit = True
                        if hit and bb in reach(g.succs, [b3]):
                            consumed_before = True
                    if not consumed_before:
                        in_scope.append(r)
                kinds = {s[0] for s in bs}
                if in_scope:
                    to_resp = False
                    for s in bs:
                        if s[0] == "responder":
                            t3 = co.blocks[s[1]]["t"]
                            if resp_root(co, op_local(t3["args"][0])) in in_scope:
                                to_resp = True
                    rep.check(to_resp, "C08.who-gets-it", "%s/%s %s error -> responder in scope" % (cfg, name, op), co.loc(co.blocks[bb]["ts"]),
                              "a request is pending in %s (its responder is in scope) but the error of `%s` goes to %s instead of that caller"
                              % (name, op, sorted(kinds) or "nothing"))
                else:
                    rep.check("event" in kinds or "return" in kinds, "C08.who-gets-it", "%s/%s %s error -> closing event" % (cfg, name, op), co.loc(co.blocks[bb]["ts"]),
                              "no request is pending in %s and the error of `%s` is not reported as a closing event (goes to %s)" % (name, op, sorted(kinds) or "nothing"))
        # ---- queue branch value is an Option tested in user code -----------------------------------------------------
        for sbb, (arms, ds, outl) in info.selects.items():
            for vname, (idx, tgt) in arms.items():
                if idx is None or ds[idx][0] != "ext" or ds[idx][1] != RECV:
                    continue
                # payload local: `x = move (out as _i).0`
                tys = []
                for bb, i, s in co.stmts():
                    if s["k"] == "assign" and s["rv"]["k"] == "use":
                        p = op_place(s["rv"]["op"])
                        if p is not None and p["l"] == outl and any(isinstance(e, dict) and e.get("n") == vname for e in p["p"]):
                            tys.append(co.local_ty(s["place"]["l"]))
                rep.check(tys and all(t.startswith("core::option::Option<") for t in tys), "C08.queue-closed", "%s/%s select branch keeps the Option" % (cfg, name),
                          co.loc(co.blocks[sbb]["ts"]),
                          "the queue branch of select! binds %s instead of the Option returned by recv(): with a refutable pattern select! disables the branch "
                          "when the queue is closed (last client handle dropped) and the loop never ends — the transport is not released and the event stream never ends"
                          % (tys or "nothing"))
    rep.floor("C08.error-flow", cfg + "/connection results with an error", n_err, 7)
    # a clean close (receive -> Ok(None)) ends the loop: on that outcome nothing more is written or read and the function
    # returns Err(()) — a `Ok(None) => ()` that falls through would write the next request to a peer that is gone
    from ..cfg import VariantReach
    n_none = 0
    for f in res["fns"]:
        co = an.spliced_coroutine_of(f)
        if co is None:
            continue
        info = an.info(co)
        results = []
        for abb, (d, resl) in info.await_at.items():
            if d is not None and d[0] == "conn" and d[1] == "receive" and resl is not None:
                results.append(("receive", resl))
        for op, site, resl in extra_results(co, info):
            if op.startswith("param:"):
                results.append((op, resl))
        if not results:
            continue
        vr = VariantReach(co)
        conn_ops = {bb for bb, t in co.calls() if any(n in (AC + "send", AC + "send_list", AC + "receive", AC + "command", AC + "command_list") for n in callee_names(t))}
        ok_rets = {bb for bb, i, s2 in co.stmts() if s2["k"] == "assign" and s2["place"]["l"] == 0 and not s2["place"]["p"] and s2["rv"]["k"] == "agg"
                   and s2["rv"].get("variant") == "Ok"}
        for op, resl in results:
            ty = co.local_ty(resl)
            if "core::option::Option<" not in ty:
                continue
            defs = [bb for bb, i, s2 in co.stmts() if s2["k"] == "assign" and s2["place"]["l"] == resl and not s2["place"]["p"]]
            if len(defs) != 1:
                continue
            # the failed outcome: every way out of the function passes a hand-over of the failure (responder send / closing event)
            # — a pattern that swallows some error kinds without binding them (`Ok(None) | Err(Io(_)) => return Err(())`) has no
            # binding for the flow rule above to follow, so this is decided on the outcome itself (A13)
            if "MpdProtocolError" not in co.local_ty(0):
                sinks = {bb for bb, t in co.calls() if ONESEND in callee_names(t) or EVSEND in callee_names(t)}
                handlers = {bb for bb, t in co.calls() if (callee(t) or {}).get("def", "").startswith("mpd_client::client::connection::")
                            or ((callee(t) or {}).get("inst") or "").startswith("mpd_client::client::connection::")}
                eb = vr.blocks_after_def(defs[0], resl, ("Err",), avoid=sinks | handlers)
                silent = sorted(bb for bb in eb if co.blocks[bb]["t"]["k"] == "return")
                rep.check(not silent, "C08.error-flow", "%s/%s failed %s is handed over on every way out" % (cfg, fn_name(prog, co), op),
                          co.loc(co.blocks[defs[0]]["ts"]),
                          "when %s fails in %s there is a way to the function's return that passes no responder send and no closing event: that "
                          "failure is reported to nobody (callers and the event stream see a clean close)" % (op, fn_name(prog, co)))
            n_none += 1
            blocks = vr.blocks_after_def(defs[0], resl, ("Ok", "None"))
            more = sorted(blocks & conn_ops)
            goes_on = sorted(blocks & ok_rets)
            rep.check(not more and not goes_on, "C08.close-terminal", "%s/%s clean close ends the loop (%s)" % (cfg, fn_name(prog, co), op),
                      co.loc(co.blocks[defs[0]]["ts"]),
                      "after receive() reported a clean close (Ok(None)) %s %s: the loop must stop there" % (
                          fn_name(prog, co), "still performs a connection operation" if more else "can return Ok and continue"))
    rep.floor("C08.close-terminal", cfg + "/receive results whose clean-close outcome is followed", n_none, 2)
    # the event receiver is optional (the user may drop ConnectionEvents): the Result of an event send must not steer the
    # loop — otherwise a dropped receiver ends the loop and the queued / in-flight request is answered with ConnectionClosed
    n_ev = 0
    for f in res["fns"]:
        co = an.spliced_coroutine_of(f)
        if co is None:
            continue
        fl = Flow(co)
        for bb, t in co.calls():
            if EVSEND not in callee_names(t):
                continue
            n_ev += 1
            derived, uses = fl.forward([t["dest"]["l"]], through_call=lambda t2, ai: identity_through(t2) is not None)
            used = 0 in derived
            for bb3 in co.reachable():
                t3 = co.blocks[bb3]["t"]
                if t3["k"] == "switch" and op_local(t3["discr"]) in derived:
                    used = True
                for s3 in co.blocks[bb3]["s"]:
                    if s3["k"] == "assign" and s3["rv"]["k"] == "discr" and s3["rv"]["place"]["l"] in derived:
                        used = True
            rep.check(not used, "C08.events-optional", "%s/%s event send result unused@%d" % (cfg, fn_name(prog, co), n_ev), co.loc(co.blocks[bb]["ts"]),
                      "the Result of sending a connection event influences the loop's control flow or return value: with the event receiver dropped "
                      "(which the API allows) the loop would end and pending requests would be answered with ConnectionClosed")
    rep.floor("C08.events-optional", cfg + "/event sends", n_ev, 6)
    raii_rule(rep, prog, cfg, res)
    panic_rule(rep, prog, cfg, res)


def resp_root(co, local, depth=6):
    """user-named responder local a (moved) responder value comes from"""
    for _ in range(depth):
        if local is None:
            return None
        if co.locals[local]["name"] and co.locals[local]["ty"].startswith("tokio::sync::oneshot::Sender<"):
            return local
        defs = [s for bb, i, s in co.stmts() if s["k"] == "assign" and s["place"]["l"] == local and not s["place"]["p"]]
        if len(defs) != 1 or defs[0]["rv"]["k"] != "use":
            return None
        local = op_local(defs[0]["rv"]["op"])
    return None


def raii_rule(rep, prog, cfg, res):
    rule = "C08.raii"
    bad = {"core::mem::forget", "core::mem::manually_drop::ManuallyDrop::new", "alloc::boxed::Box::leak", "alloc::boxed::Box::into_raw",
           "alloc::rc::Rc::new", "core::mem::MaybeUninit::new", "alloc::vec::Vec::leak"}
    n = 0
    arcs = 0
    for b in prog.bodies.values():
        if b.crate != "mpd_client" or b.raw.get("derived"):
            continue
        for bb, t in b.calls():
            ns = callee_names(t)
            if panics.third_party(prog, b, b.blocks[bb]["ts"]):
                continue
            if any(x in bad for x in ns):
                n += 1
                rep.fail(rule, "%s/%s:%s" % (cfg, fn_name(prog, b), ns[0]), b.loc(b.blocks[bb]["ts"]),
                         "%s in mpd_client: a leaked responder / receiver / connection never wakes its peer (requests hang, transport not released)" % ns[0])
            if any(x.startswith("alloc::sync::Arc") or x == "core::convert::From::from" and "Arc<" in b.local_ty(t["dest"]["l"]) for x in ns):
                arcs += 1
                ty = b.local_ty(t["dest"]["l"])
                if any(w in ty for w in ("oneshot::Sender", "UnboundedReceiver", "AsyncConnection")):
                    rep.fail(rule, "%s/%s shares %s" % (cfg, fn_name(prog, b), ty[:50]), b.loc(b.blocks[bb]["ts"]), "a loop-owned resource is placed in an Arc: leaving the loop no longer drops it")
    rep.check(n == 0, rule, cfg + "/no leaks", "mpd_client", "see above")
    rep.check(arcs >= 1, rule + ".control", cfg + "/Arc construction visible", "mpd_client", "positive control lost: the Arc<str> of the protocol version is no longer seen")
    # the loop future owns connection, receiver and event sender: they are moved into the spawned future
    root = res["root"]
    sig = root.raw.get("sig", "")
    rep.check("AsyncConnection<" in sig and "UnboundedReceiver<" in sig and "UnboundedSender<" in sig and "&" not in sig.split("->")[0], rule,
              cfg + "/loop owns its resources", fn_name(prog, root),
              "the loop function does not take the connection, the command receiver and the event sender by value (signature: %s)" % sig[:160])


def panic_rule(rep, prog, cfg, res):
    rule = "C08.no-panic"
    cg = callgraph(prog)
    roots = [f.id for f in res["fns"]]
    # private helpers are found by what they do: the handshake spawns the loop, the request path creates the oneshot channel
    for x in prog.bodies.values():
        if x.crate == "mpd_client" and any(any(n in ("tokio::task::spawn::spawn", "tokio::sync::oneshot::channel") for n in callee_names(t)) for _, t in x.calls()):
            roots.append(prog.bodies.get(x.root, x).id)
    for n in ("mpd_client::client::Client::raw_command", "mpd_client::client::Client::raw_command_list",
              "mpd_client::client::Client::connect", "mpd_client::client::Client::is_connection_closed",
              "mpd_client::client::ConnectionEvents::next"):
        bs = body_by_name(prog, n)
        if len(bs) != 1:
            rep.fail(rule + ".anchor", "%s/%s" % (cfg, n), n, "anchor not found")
            continue
        roots.append(bs[0].id)
    sites, R, nb, nblocks = panics.inventory(prog, cg, roots)
    sites = [s for s in sites if s.body.crate == "mpd_client" or s.fn == "mpd_protocol::response::Response::into_single_frame"]
    sites = [s for s in sites if not any(w in s.fn for w in ("responses::", "commands::", "tag::", "filter::"))]   # typed layer: C12 / C15
    am = panics.AuditMatcher(AUDITED, sites)
    for s in sites:
        aud, k = am.lookup(s)
        inst = "%s/%s" % (cfg, k)
        if aud is not None:
            rep.ok(rule, inst, detail={"where": s.where, "audited": aud[1]})
        else:
            rep.fail(rule, inst, s.where, "unaudited panic-capable construct `%s` in %s: a panic kills the loop task or the caller instead of resolving requests with an error" % (s.kind, s.fn))
    rep.count("panic_sites_" + cfg, len(sites))
    # both channel failures map to ConnectionClosed
    cands = [x for x in prog.bodies.values() if x.crate == "mpd_client" and any("tokio::sync::oneshot::channel" in callee_names(t) for _, t in x.calls())]
    b = cands[0] if len(cands) == 1 else None
    if b is None:
        rep.fail(rule, cfg + "/do_send", "client/mod.rs", "Client::do_send not found")
        return
    n_cc = 0
    # the two halves may live in different private functions (`enqueue` creates the channel and queues, `do_send` awaits): the
    # mappings are counted over the function that creates the channel, its private callers and their private callees
    from ..common import with_private_callees
    cgx = callgraph(prog)
    starts = [prog.bodies[b.root]]
    for cid in cgx.callers.get(b.root, ()):
        cr = prog.bodies.get(prog.bodies[cid].root, prog.bodies[cid])
        if cr.crate == "mpd_client" and not cr.raw.get("pub") and not cr.raw.get("exported") and cr not in starts:
            starts.append(cr)
    scope = []
    for st0 in starts:
        for fb in with_private_callees(prog, st0):
            if fb not in scope:
                scope.append(fb)
    for fb in scope:
        for bb, i, s in fb.stmts():
            if s["k"] == "assign" and s["rv"]["k"] == "agg" and s["rv"].get("variant") == "ConnectionClosed" and s["rv"].get("adt_name", "").endswith("CommandError"):
                n_cc += 1
    names = set()
    for fb in scope:
        for bb, t in fb.calls():
            names.update(callee_names(t))
    rep.check(n_cc >= 2 and not any(n.endswith(("::unwrap", "::expect")) for n in names), rule, cfg + "/channel failures -> ConnectionClosed", b.loc(b.span),
              "a closed queue or a dropped responder is not mapped to CommandError::ConnectionClosed in Client::do_send (found %d mappings)" % n_cc)
