"""C12 — typed response conversion is total (DESIGN.md §4/C12): A7 inventory + A5 charset."""
from .. import charset, panics
from ..callgraph import norm
from ..common import callgraph, div_by_nonzero_const, impl_methods, body_by_name, callee_names
from ..facts import callee, op_const, op_local
from ..scans import closure_of_local, found_rejects, only_err_returns, scan_of, with_scan_helpers

CONFIGS_QUICK = ["K1", "K2"]
CONFIGS_THOROUGH = ["K1", "K2"]

# Audited panic-capable constructs reachable from response conversion / response accessors.
# key -> (max count, reason).  Reasons are text, not machine-checked; a new construct, another
# callee or another constant operand is a new key and is reported.
AUDITED = {
    "SongBuilder::into_song|panic:panic": (
        1, "assert!(!url.is_empty()): into_song is reached only from handle_song_field (field() "
           "dispatches there only when url is non-empty) and from finish() behind the same test"),
    "<GroupedListValuesIter<'a, N> as Iterator>::next|assert:bounds(N,_)": (
        1, "index obtained from position() over grouping_tags: [Tag; N]; grouping_values has the "
           "same length N by type"),
    "<FramesRef<'a> as Iterator>::size_hint|assert:overflow:Add(_,_)": (
        1, "slice::Iter::len() <= isize::MAX, adding 0 or 1 cannot overflow usize"),
    "<Frames as Iterator>::size_hint|assert:overflow:Add(_,_)": (
        1, "vec::IntoIter::len() <= isize::MAX, adding 0 or 1 cannot overflow usize"),
    "Response::into_single_frame|call:Option::unwrap": (
        1, "a Response is only built by the response builder / Response::empty with at least one "
           "frame or with an error, so its iterator yields at least one item (construction sites are "
           "checked by C03.machine)"),
    # capacity hints computed from the length of data that is already in memory
    "Count::from_frame_grouped|call:Vec::with_capacity": (
        1, "capacity = number of fields already held in the frame / 3"),
    "Playlist::parse_frame|call:Vec::with_capacity": (
        1, "capacity = number of fields already held in the frame / 2"),
    "<GetEnabledTagTypes as Command>::response|call:Vec::with_capacity": (
        1, "capacity = number of fields already held in the frame"),
    "<ListChannels as Command>::response|call:Vec::with_capacity": (
        1, "capacity = number of fields already held in the frame"),
    "<Vec<C> as CommandList>::responses|call:Vec::with_capacity": (
        1, "capacity = number of commands the caller holds in memory"),
}

# audited reasons that are arguments about who calls the function: checked against the call graph
AUDITED_CALLERS = {
    "SongBuilder::into_song|panic:panic": {"SongBuilder::handle_song_field", "SongBuilder::finish"},
}

# audited assertions whose condition is machine-checked: key -> (field of self, predicate whose true edge panics)
AUDITED_ASSERTS = {
    "SongBuilder::into_song|panic:panic": ("url", "alloc::string::String::is_empty"),
}

TAG_UNWRAP_FNS = {
    "mpd_client::responses::song::SongBuilder::handle_song_field",
    "mpd_client::responses::list::List::from_frame",
}


def roots(prog):
    out = []
    n_cmd = n_list = 0
    for imp, b in impl_methods(prog, "commands::Command", "response"):
        out.append(b.id)
        n_cmd += 1
    for imp, b in impl_methods(prog, "commands::command_list::CommandList", "responses"):
        out.append(b.id)
        n_list += 1
    n_acc = 0
    for b in prog.bodies.values():
        if b.kind in ("Fn", "AssocFn") and b.crate == "mpd_client":
            n = norm(b.name)
            if "mpd_client::responses::" in n:
                out.append(b.id)
                n_acc += 1
    # frame / response accessors of the protocol crate (reading the decoded value); a private helper with a single call
    # site belongs to its caller (reached through it, or part of the builder, which is C09's)
    owner = panics.single_caller_owner(prog, callgraph(prog))
    for b in prog.bodies.values():
        if b.kind in ("Fn", "AssocFn") and b.crate == "mpd_protocol" and "mpd_protocol::response::" in norm(b.name) \
                and "ResponseBuilder" not in b.name and "ResponseFieldCache" not in b.name and norm(b.name) not in owner:
            out.append(b.id)
            n_acc += 1
    return out, n_cmd, n_list, n_acc


def tag_charset(rep, prog, cfg):
    """C12.tag-charset: alphabet of field names accepted by the protocol parser (non-empty, by
    take_while1) is a subset of what Tag::try_from accepts -> `Tag::try_from(key).unwrap()` on a
    parsed field name cannot fail."""
    rule = "C12.tag-charset"
    inst = "%s/key_value_field<=Tag::try_from" % cfg
    kv = body_by_name(prog, "mpd_protocol::parser::key_value_field")
    tf = [b for b in prog.bodies.values()
          if b.kind == "AssocFn" and norm(b.name).endswith("core::convert::TryFrom<&'a str>>::try_from")
          and "mpd_client::tag::Tag" in b.name]
    if len(kv) != 1 or len(tf) != 1:
        rep.fail(rule + ".anchor", inst, "parser.rs / tag.rs", "key_value_field (%d) or Tag::try_from (%d) not found"
                 % (len(kv), len(tf)))
        return False
    kv, tf = kv[0], tf[0]
    try:
        key_set, how = parser_key_alphabet(prog, kv)
        tag_set, tag_nonempty = tag_valid_alphabet(prog, tf)
    except charset.Opaque as e:
        rep.fail(rule, inst, "parser.rs / tag.rs", "a character predicate is not analysable: %s" % e)
        return False
    ok = charset.subset(key_set, tag_set) and how == "take_while1"
    rep.check(ok, rule, inst, kv.loc(kv.span),
              "field-name alphabet of the protocol parser %s (via %s) is not contained in the alphabet "
              "Tag::try_from accepts %s — Tag::try_from(key).unwrap() in the response parsers can panic"
              % (charset.fmt_set(key_set), how, charset.fmt_set(tag_set)),
              detail={"parser_keys": charset.fmt_set(key_set), "combinator": how,
                      "tag_accepts": charset.fmt_set(tag_set), "tag_rejects_empty": tag_nonempty})
    return ok


def parser_key_alphabet(prog, kv):
    """Accept set of the closure handed to take_while1/take_while in the *key* position of
    key_value_field (first component of separated_pair)."""
    found = []
    for bb, t in kv.calls():
        names = callee_names(t)
        for n in names:
            if n in ("nom::bytes::streaming::take_while1", "nom::bytes::streaming::take_while",
                     "nom::bytes::complete::take_while1", "nom::bytes::complete::take_while"):
                # the closure argument
                clos = None
                for a in t["args"]:
                    l = op_local(a)
                    if l is not None and "closure@" in kv.local_ty(l):
                        clos = closure_of_local(prog, kv, l)
                    c = op_const(a)
                    if c is not None and "closure" in c:
                        clos = prog.bodies.get(c["closure"])
                    if c is not None and "fn" in c:
                        # a named predicate function (`take_while1(is_field_key_byte)`)
                        tid = c["fn"].get("inst") or c["fn"]["def"]
                        if tid in prog.bodies:
                            clos = prog.bodies[tid]
                if clos is None:
                    raise charset.Opaque("take_while predicate is neither a closure nor a function of the workspace")
                found.append((n.rsplit("::", 1)[1], clos, bb))
    if not found:
        # the key sub-parser may be a private parser function of its own (`field_name`): look one level down
        for bb, t in kv.calls():
            for a in t["args"]:
                c = op_const(a)
                tid = (c["fn"].get("inst") or c["fn"]["def"]) if c is not None and "fn" in c else None
                if tid in prog.bodies and prog.bodies[tid].crate == kv.crate and tid != kv.id and "separated_pair" in " ".join(callee_names(t)):
                    if t["args"].index(a) == 0:
                        return parser_key_alphabet(prog, prog.bodies[tid])
    if len(found) != 1:
        raise charset.Opaque("expected exactly one take_while* in key_value_field, found %d" % len(found))
    how, clos, _ = found[0]
    s, width, _ = charset.accept_set(prog, clos)
    return s, how


def tag_valid_alphabet(prog, tf):
    """Tag::try_from: one character scan over the input (`find/position/any/all` with a closure, or a `for` loop) whose
    hit returns Err; valid alphabet = complement of the hit set.  Also reports the empty check."""
    try:
        sc = scan_of(prog, tf)
    except charset.Opaque:
        # the validation may have been moved into a private helper that try_from calls first and propagates with `?`
        from ..scans import delegated_validator
        hv = delegated_validator(prog, tf)
        if hv is not None:
            return tag_valid_alphabet(prog, hv)
        # .. or only the scan was given a name (`first_invalid_char(raw) -> Option<(usize, char)>`)
        tf2 = with_scan_helpers(prog, tf)
        if tf2 is tf:
            raise
        tf = tf2
        sc = scan_of(prog, tf)
    if not found_rejects(tf, sc):
        raise charset.Opaque("the 'invalid character found' edge does not lead to an Err return only")
    if not sc["receiver_ok"]:
        raise charset.Opaque("the scan does not run over the tag name itself (via %s)" % sc["receiver_via"])
    valid = charset.complement(sc["bad"], sc["width"])
    # empty-string rejection: is_empty test whose true edge returns Err
    nonempty = False
    for bb2, t2 in tf.calls():
        if "core::str::<impl str>::is_empty" in callee_names(t2):
            sw2 = tf.blocks[t2["target"]]["t"]
            if sw2["k"] == "switch" and only_err_returns(tf, sw2["otherwise"]):
                nonempty = True
    return valid, nonempty


def run(rep, progs, tier):
    rep.explanation = (
        "Rule-based static analysis (no execution). A7: every panic-capable construct (MIR Assert "
        "terminators, calls into the panic machinery, calls to std/bytes APIs that panic by "
        "contract) in every workspace body reachable through the resolved call graph from every "
        "<T as Command>::response, <L as CommandList>::responses and every function of "
        "mpd_client::responses / mpd_protocol::response is enumerated; each must be structurally "
        "discharged (unwrap dominated by an is_some/is_none edge with no write in between; division "
        "by a non-zero constant; Tag::try_from(key).unwrap() discharged by the machine-checked "
        "charset inclusion parser-keys ⊆ tag-alphabet) or be an entry of the audited table. "
        "Decides a necessary condition (no unaudited panic site), in both feature configurations.")
    rep.rule("C12.inventory", "no unaudited panic-capable construct reachable from typed response conversion / accessors")
    rep.rule("C12.tag-charset", "key alphabet of mpd_protocol::parser::key_value_field ⊆ alphabet accepted by Tag::try_from, key non-empty")
    rep.rule("C12.no-float-ctor", "Duration::from_secs_f64/f32 never audited on the response path")
    rep.trusted = ["rustc nightly MIR construction and callee resolution", "mpdfacts exporter",
                   "panic contracts of std/bytes as tabulated in mpdlint/panics.py",
                   "code inside tracing/tokio macro expansions", "chrono/hashbrown/alloc internals"]
    rep.assume("allocation failure is out of scope")
    rep.assume("panics inside chrono's RFC 3339 parser, hashbrown and std internals that are not API-contract panics are out of scope")
    for cfg, prog in progs.items():
        cg = callgraph(prog)
        rts, n_cmd, n_list, n_acc = roots(prog)
        rep.floor("C12.inventory", "%s/Command impls" % cfg, n_cmd, 58)
        rep.floor("C12.inventory", "%s/CommandList impls" % cfg, n_list, 9)
        rep.floor("C12.inventory", "%s/response accessor functions" % cfg, n_acc, 150)
        charset_ok = tag_charset(rep, prog, cfg)
        sites, reach_, nb, nblocks = panics.inventory(prog, cg, rts)
        rep.count("roots_" + cfg, len(rts))
        rep.count("bodies_analysed_" + cfg, nb)
        rep.count("blocks_analysed_" + cfg, nblocks)
        rep.count("sites_" + cfg, len(sites))
        rest = []
        n_tag_unwrap = 0
        for s in sites:
            inst = "%s/%s" % (cfg, s.key)
            if s.kind == "call:core::option::Option::unwrap" and panics.unwrap_guarded_by_test(s.body, s.bb):
                rep.ok("C12.inventory", inst, detail={"where": s.where, "discharged": "unwrap dominated by is_some/is_none edge"})
                continue
            if s.kind.startswith("assert:div_zero") or s.kind.startswith("assert:rem_zero"):
                if div_by_nonzero_const(s.body, s.bb):
                    rep.ok("C12.inventory", inst, detail={"where": s.where, "discharged": "divisor is a non-zero constant"})
                    continue
            if s.kind == "call:core::result::Result::unwrap" and is_tag_try_from_unwrap(s):
                n_tag_unwrap += 1
                rep.check(charset_ok, "C12.inventory", inst, s.where,
                          "Tag::try_from(field name).unwrap() is only safe while the protocol parser's "
                          "field-name alphabet is contained in the tag alphabet, and C12.tag-charset failed",
                          detail={"where": s.where, "discharged": "by C12.tag-charset"})
                continue
            if "Duration::from_secs_f" in s.kind:
                rep.fail("C12.no-float-ctor", inst, s.where,
                         "%s panics on negative, NaN and out-of-range input; a range test in front of it "
                         "cannot be validated statically (Duration::MAX.as_secs_f64() rounds up to 2^64) — "
                         "use try_from_secs_f64" % s.kind)
                continue
            cv = panics.constant_arithmetic(prog, s)
            if cv is not None:
                rep.ok("C12.inventory", inst, detail={"where": s.where, "discharged": "arithmetic on compile-time constants, result %d fits" % cv})
                continue
            cap = panics.constant_capacity(prog, s)
            if cap is not None:
                rep.ok("C12.inventory", inst, detail={"where": s.where, "discharged": "capacity is the compile-time constant %d" % cap})
                continue
            fpd = panics.found_position_discharge(prog, s)
            if fpd is not None:
                rep.ok("C12.inventory", inst, detail={"where": s.where, "discharged": fpd})
                continue
            if s.kind == "call:alloc::string::String::truncate":
                why = panics.truncate_at_prefix_len(prog, s)
                if why is not None:
                    rep.ok("C12.inventory", inst, detail={"where": s.where, "discharged": why})
                else:
                    rep.fail("C12.inventory", inst, s.where,
                             "String::truncate panics unless its argument is a character boundary of the string: here it is not the byte length of "
                             "a prefix split off the same string (a character count or another string's length breaks on non-ASCII server text)")
                continue
            rest.append(s)
        am = panics.AuditMatcher(AUDITED, rest)
        for s in rest:
            aud, k = am.lookup(s)
            inst = "%s/%s" % (cfg, k)
            if aud is not None:
                # an audited reason that is an argument about the callers is checked against the call graph
                allowed = AUDITED_CALLERS.get(k)
                if k in AUDITED_ASSERTS:
                    # ... and the asserted condition is exactly the predicate the callers' guards establish
                    from ..common import ref_field_of_local, switch_atom
                    fld, pred = AUDITED_ASSERTS[k]
                    same = False
                    for bb2 in range(len(s.body.blocks)):
                        a = switch_atom(s.body, bb2)
                        if a and a["kind"] == "call" and pred in a["names"] and a["true"] == s.bb and a.get("args") and \
                                ref_field_of_local(s.body, op_local(a["args"][0])) == fld:
                            same = True
                    rep.check(same, "C12.inventory", inst + " condition", s.where,
                              "the assertion in %s is no longer `!self.%s.is_empty()` (the test its callers make before calling it): a stricter condition "
                              "— a trimmed, lower-cased or otherwise derived value — can fail on server-chosen text although the guards passed" % (s.fn, fld))
                if allowed is not None:
                    from ..callgraph import short
                    root = prog.bodies.get(s.body.root, s.body)
                    # a private function with a single call site counts as its caller
                    owner = panics.single_caller_owner(prog, cg)

                    def top(n, depth=4):
                        while n in owner and depth > 0 and short(n) not in allowed:
                            n = owner[n]
                            depth -= 1
                        return n
                    callers = sorted({short(top(norm(prog.bodies.get(prog.bodies[c].root, prog.bodies[c]).name))) for c in cg.callers.get(root.id, ())
                                      if not prog.bodies[c].raw.get("derived")})
                    extra = [c for c in callers if c not in allowed]
                    rep.check(not extra, "C12.inventory", inst + " callers", s.where,
                              "the audited reason for `%s` in %s holds only for the callers %s, but it is also called from %s" % (s.kind, s.fn, sorted(allowed), extra),
                              detail={"callers": callers})
                rep.ok("C12.inventory", inst, detail={"where": s.where, "audited": aud[1]})
            else:
                rep.fail("C12.inventory", inst, s.where,
                         "unaudited panic-capable construct `%s` in %s, reachable from typed response "
                         "conversion (a server-controlled reply can reach it)" % (s.kind, s.fn))
        rep.floor("C12.inventory", "%s/Tag::try_from(..).unwrap() sites" % cfg, n_tag_unwrap, 0)


# functions whose `&str` parameter (by index) is a frame key handed down by their callers (reviewed)
KEY_PARAMS = {"mpd_client::responses::song::SongBuilder::handle_song_field": 2}


def is_tag_try_from_unwrap(site):
    """The unwrapped Result is the direct result of <Tag as TryFrom<&str>>::try_from applied to a frame *key*: the `.0` of a
    (key, value) pair, or the reviewed key parameter of a builder method.  Only keys are restricted by the protocol parser's
    field-name alphabet; a field *value* is arbitrary text, and unwrapping its conversion panics on a server-chosen string."""
    from .. import terms
    body = site.body
    t = body.blocks[site.bb]["t"]
    a = op_local(t["args"][0]) if t["args"] else None
    if a is None:
        return False
    for bb, ct in body.calls():
        if ct["dest"]["l"] == a and not ct["dest"]["p"]:
            f = callee(ct)
            if f is None:
                return False
            names = callee_names(ct)
            if not (any("TryFrom" in n and n.endswith("::try_from") for n in names) and
                    any("mpd_client::tag::Tag" in x for x in f.get("args", []) + [f.get("inst_name", "")])):
                return False
            l = op_local(ct["args"][0]) if ct["args"] else None
            if l is None:
                return False
            return _is_key(site.body.prog, body, l)
    return False


def _is_key(prog, body, local, depth=4):
    """`local` holds a frame key: the `.0` of a (key, value) pair, or a parameter of a private function that is handed a key at
    every one of its call sites (followed through the call graph), or a reviewed key parameter."""
    from .. import terms
    x = terms.strip_views(terms.simplify(terms.term_of_local(body, local, depth=12)))
    if isinstance(x, tuple) and x and x[0] == "field" and len(x) > 3 and x[3] == "0":
        return True                                   # pair.0 = the key
    if not (isinstance(x, tuple) and x and x[0] == "free"):
        return False
    root = prog.bodies.get(body.root, body)
    if KEY_PARAMS.get(norm(body.name), KEY_PARAMS.get(norm(root.name))) == x[1]:
        return True
    if depth <= 0 or body.id != root.id or not (1 <= x[1] <= body.mir["argc"]) or root.raw.get("pub") or root.raw.get("exported"):
        return False
    sites = []
    for cid in callgraph(prog).callers.get(body.id, ()):
        cb = prog.bodies[cid]
        for bb, t in cb.calls():
            f = callee(t)
            if f is not None and (f.get("inst") or f["def"]) == body.id and len(t["args"]) >= x[1]:
                la = op_local(t["args"][x[1] - 1])
                sites.append(la is not None and _is_key(prog, cb, la, depth - 1))
    return bool(sites) and all(sites)
