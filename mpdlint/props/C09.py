"""C09 — arbitrary peer bytes never panic or hang the protocol layer (DESIGN.md §4/C09)."""
from .. import panics, tables
from ..callgraph import norm
from ..cfg import Cfg, reach, sccs
from ..common import (body_by_name, callee_names, callgraph, div_by_nonzero_const, incomplete_tests, logic_body, switch_atom)
from ..facts import callee, op_const, op_local
from ..flow import Flow, identity_through
from .C02 import COMPONENT_PARSE, SHORTEN, conn_bodies
from .C10 import GREETING, PARSE, READS, READS_EXT, zero_read_switch

CONFIGS_QUICK = ["K1", "K3"]
CONFIGS_THOROUGH = ["K1", "K3"]
TECHNIQUE = "static analysis: panic-site inventory over the resolved call graph (MIR) + CFG loop-exit and error-mapping rules"

P = "mpd_protocol::"
AUDITED = {
    "field_value|call:Index::index": (
        1, "&i[1..] directly after a successful streaming take_until(\"\\n\"): the remaining input starts with the newline, so it has at least one byte"),
    "ResponseBuilder::parse|assert:overflow:Sub(_,_)": (
        2, "src.len() - remaining.len(): nom returns a suffix of its input; msg.len() - (data_length + 1): a binary component spans header + data_length bytes + newline"),
    "ResponseBuilder::parse|assert:overflow:Add(_,1_usize)": (
        1, "data_length + 1 where data_length bytes have actually been received and are held in memory"),
    "ResponseBuilder::parse|call:BytesMut::split_to": (
        1, "msg_end = src.len() - remaining.len() <= src.len()"),
    "ResponseBuilder::parse|call:Buf::advance": (
        1, "advance by msg.len() - (data_length + 1) <= msg.len()"),
    "read_to_buffer|call:IndexMut::index_mut": (
        1, "&mut buf[*total..] with total <= buf.len() (the buffer is doubled as soon as total reaches its length)"),
    "read_to_buffer|call:Index::index": (
        1, "&buf[..*total] with total <= buf.len()"),
    "read_to_buffer|assert:overflow:Add(_,_)": (
        1, "*total += read with read <= buf.len() - total"),
    "read_to_buffer|assert:overflow:Mul(_,2_usize)": (
        1, "buf.len() * 2: the buffer is held in memory, its length is far below usize::MAX / 2"),
    "read_to_buffer|call:BytesMut::resize": (
        1, "doubling of an in-memory buffer (allocation failure is out of scope)"),
    "Connection::receive|call:BytesMut::split_off": (
        1, "split_off(total_received) with total_received <= recv_buf.len(): invariant of read_to_buffer, and re-established on every exit after the split (C09.restore; it was not before fix 78ca7dc)"),
    "Connection::receive|call:BytesMut::resize": (
        1, "restores the length the buffer had at the start of the iteration"),
}


def inventory_rule(rep, prog, cfg):
    cg = callgraph(prog)
    names = ["Connection::connect", "Connection::receive"]
    if cfg != "K3":
        names += ["AsyncConnection::connect", "AsyncConnection::receive"]
    roots = []
    for n in names:
        bs = body_by_name(prog, P + "connection::" + n)
        if len(bs) != 1:
            rep.fail("C09.inventory.anchor", "%s/%s" % (cfg, n), n, "root %s not found" % n)
            continue
        roots.append(bs[0].id)
    sites, R, nb, nblocks = panics.inventory(prog, cg, roots)
    sites = [s for s in sites if s.body.crate == "mpd_protocol"]
    rep.count("roots_" + cfg, len(roots))
    rep.count("bodies_analysed_" + cfg, len([x for x in R if prog.bodies[x].crate == "mpd_protocol"]))
    rep.count("sites_" + cfg, len(sites))
    rest = []
    for s in sites:
        inst = "%s/%s" % (cfg, s.key)
        if s.kind.startswith(("assert:div_zero", "assert:rem_zero")) and div_by_nonzero_const(s.body, s.bb):
            rep.ok("C09.inventory", inst, detail={"where": s.where, "discharged": "non-zero constant divisor"})
            continue
        if s.kind == "call:core::option::Option::unwrap" and panics.unwrap_guarded_by_test(s.body, s.bb):
            rep.ok("C09.inventory", inst, detail={"where": s.where, "discharged": "unwrap dominated by is_some edge"})
            continue
        if s.kind.endswith("Index::index") or s.kind.endswith("IndexMut::index_mut"):
            from .C02 import counted_slice
            READS.bind(prog)
            cs = counted_slice(s.body, s.body.blocks[s.bb]["t"], {n for n in READS if n not in READS_EXT})
            if cs is not None:
                rep.ok("C09.inventory", inst, detail={"where": s.where, "discharged": "slice bounded by the count `%s` that the read helper keeps <= the buffer length "
                                                      "(both are handed to it by &mut; audited in the helper)" % s.body.locals[cs[1]]["name"]})
                continue
        sl = panics.suffix_length_sub(prog, s)
        if sl is not None:
            rep.ok("C09.inventory", inst, detail={"where": s.where, "discharged": sl})
            continue
        cv = panics.constant_arithmetic(prog, s)
        if cv is not None:
            rep.ok("C09.inventory", inst, detail={"where": s.where, "discharged": "arithmetic on compile-time constants, result %d fits" % cv})
            continue
        cap = panics.constant_capacity(prog, s)
        if cap is not None:
            rep.ok("C09.inventory", inst, detail={"where": s.where, "discharged": "capacity is the compile-time constant %d" % cap})
            continue
        rest.append(s)
    am = panics.AuditMatcher(AUDITED, rest)
    seen_n = {}
    for s in rest:
        aud, k = am.lookup(s)
        seen_n[k] = seen_n.get(k, 0) + 1
        inst = "%s/%s" % (cfg, k)
        if aud is not None:
            rep.ok("C09.inventory", inst + ("#%d" % seen_n[k] if aud[0] > 1 else ""), detail={"where": s.where, "audited": aud[1]})
        else:
            rep.fail("C09.inventory", "%s#%d" % (inst, seen_n[k]) if seen_n[k] > 1 else inst, s.where,
                     "unaudited panic-capable construct `%s` in %s, reachable from connect/receive with peer-controlled data" % (s.kind, s.fn))
    rep.floor("C09.inventory", cfg + "/sites", len(sites), 10)


def restore_rule(rep, prog, cfg):
    """Pairing rule for the blocking flavour's buffer bookkeeping: receive() splits the unread tail off the receive buffer
    (`split_off(total_received)`) before parsing and joins it back (`unsplit`) afterwards.  Every path from the split to a
    return must pass the join: an early return in between (e.g. `?` on a parse error) leaves the connection with a short
    buffer and a stale count, and the next receive() panics in split_off."""
    from .C02 import conn_bodies
    from ..common import ref_field_of_local
    rule = "C09.restore"
    b = conn_bodies(prog).get("blocking/receive")
    if b is None:
        rep.fail(rule + ".anchor", cfg, "connection.rs", "blocking receive body not found")
        return
    g = Cfg(b)
    splits = [(bb, t) for bb, t in b.calls() if "bytes::bytes_mut::BytesMut::split_off" in callee_names(t) and t["args"]]
    if not splits:
        rep.ok(rule, cfg + "/no split-off bookkeeping in blocking receive", b.loc(b.span))
        return
    for sbb, st in splits:
        f = ref_field_of_local(b, op_local(st["args"][0]))
        joins = {bb for bb, t in b.calls() if "bytes::bytes_mut::BytesMut::unsplit" in callee_names(t) and t["args"]
                 and ref_field_of_local(b, op_local(t["args"][0])) == f}
        free = reach(g.succs, [st["target"]] if st.get("target") is not None else [], avoid=joins)
        leaks = sorted(x for x in free if b.blocks[x]["t"]["k"] == "return")
        rep.check(bool(joins) and not leaks, rule, cfg + "/blocking receive restores the buffer on every exit", b.loc(b.blocks[sbb]["ts"]),
                  "Connection::receive can return between split_off and unsplit of `%s` (%d such exit(s), e.g. the `?` on a parse error): the "
                  "buffer stays short while the received count is stale, and the next receive() panics in split_off" % (f, len(leaks)),
                  detail={"field": f, "joins": len(joins)})


def numbers_rule(rep, prog, cfg):
    rule = "C09.no-manual-numbers"
    n_bodies = 0
    parse_seen = False
    for b in prog.bodies.values():
        if b.crate != "mpd_protocol" or not norm(b.name).startswith(P + "parser::") or b.raw.get("derived"):
            continue
        n_bodies += 1
        for bb in b.reachable():
            blk = b.blocks[bb]
            t = blk["t"]
            if t["k"] == "assert" and t["kind"].startswith("overflow"):
                rep.fail(rule, "%s/%s %s" % (cfg, norm(prog.bodies.get(b.root, b).name), t["kind"]), b.loc(blk["ts"]),
                         "integer arithmetic in the line parser: numbers must go through str::parse so that overlong numbers become parse errors, not overflow panics")
            for s in blk["s"]:
                if s["k"] == "assign" and s["rv"]["k"] == "binop" and s["rv"]["op"] in ("Mul", "MulUnchecked", "MulWithOverflow", "Shl"):
                    rep.fail(rule, "%s/%s %s" % (cfg, norm(prog.bodies.get(b.root, b).name), s["rv"]["op"]), b.loc(s["span"]),
                             "manual digit arithmetic in the line parser")
            if t["k"] == "call":
                for a in [t["func"]] + t["args"]:
                    c = op_const(a)
                    if c is not None and "fn" in c:
                        fnn = norm(c["fn"]["name"])
                        # str::parse, or nom's own overflow-checked streaming integer parsers
                        if fnn == "core::str::<impl str>::parse" or (fnn.startswith("nom::character::streaming::") and
                                                                      fnn.rsplit("::", 1)[-1] in ("u8", "u16", "u32", "u64", "u128", "i8", "i16", "i32", "i64", "i128")):
                            parse_seen = True
    rep.check(parse_seen, rule, cfg + "/numbers via str::parse", "parser.rs",
              "the line parser no longer converts numbers with str::parse or nom's overflow-checked integer parsers (idiom unknown: failing closed)", detail={"parser_bodies": n_bodies})
    rep.floor(rule, cfg + "/parser bodies", n_bodies, 10)


def invalid_rule(rep, prog, cfg):
    """Non-incomplete parse errors map to Err(InvalidMessage) only."""
    rule = "C09.invalid"
    from ..common import builder_parse_bodies
    targets = [("builder", builder_parse_bodies(prog))]
    lb = conn_bodies(prog)
    targets.append(("blocking/connect", [lb["blocking/connect"]] if lb.get("blocking/connect") else []))
    if cfg != "K3":
        targets.append(("async/connect", [lb["async/connect"]] if lb.get("async/connect") else []))
    for name, bs in targets:
        if len(bs) != 1:
            rep.fail(rule + ".anchor", "%s/%s" % (cfg, name), name, "body not found")
            continue
        b = bs[0]
        g = Cfg(b)
        inc = incomplete_tests(b)
        if len(inc) != 1:
            rep.fail(rule, "%s/%s incomplete test" % (cfg, name), b.loc(b.span), "expected one test for nom's Incomplete, found %d" % len(inc))
            continue
        a = inc[0]
        # blocks constructing MpdProtocolError::InvalidMessage
        inv = {bb for bb, i, s in b.stmts() if s["k"] == "assign" and s["rv"]["k"] == "agg" and s["rv"].get("variant") == "InvalidMessage"}
        # `Err(_)` arm: false side of is_incomplete; it must only reach returns through an InvalidMessage construction,
        # and never the loop's continuation
        # variant-sensitive (A13): when the parse step sits in a helper spliced in here, all of its outcomes merge in its single
        # return block and are told apart again by the caller's `?` / `let else`
        from ..cfg import vreach
        region = vreach(b, a["false"], avoid=set(inv))
        leaks = [x for x in region if b.blocks[x]["t"]["k"] == "return"]
        loops_back = a["bb"] in vreach(b, a["false"])
        rep.check(bool(inv) and not leaks and not loops_back, rule, "%s/%s" % (cfg, name), b.loc(b.blocks[a["bb"]]["ts"]),
                  "a parse error that is not 'incomplete' does not always end in Err(InvalidMessage) (it can %s): malformed input could be retried forever or yield fabricated data"
                  % ("continue the loop" if loops_back else "return something else"))


def read_loop_rule(rep, prog, cfg):
    """Every cycle of connect/receive contains a read whose 0 result leaves the cycle; the builder's
    inner cycle consumes input on every turn."""
    rule = "C09.read-loop"
    lb = conn_bodies(prog)
    for name, b in sorted(lb.items()):
        if cfg == "K3" and name.startswith("async"):
            continue
        if b is None:
            rep.fail(rule + ".anchor", "%s/%s" % (cfg, name), name, "body not found")
            continue
        g = Cfg(b)
        fl = Flow(b)
        zs = zero_read_switch(b, fl)
        n_loops = 0
        for loop in g.loops:
            # await-poll cycles and macro-internal cycles are not protocol loops
            if is_await_cycle(b, loop) or all(third_party_block(prog, b, x) for x in loop):
                continue
            n_loops += 1
            has_read = any(b.blocks[x]["t"]["k"] == "call" and any(n in READS for n in callee_names(b.blocks[x]["t"])) for x in loop)
            exits = [(a, z) for a, z in zs if a["bb"] in loop and z not in loop]
            rep.check(has_read and exits, rule, "%s/%s loop#%d exits on 0-byte read" % (cfg, name, n_loops), b.loc(b.span),
                      "a loop in %s does not contain a read whose 0-byte result leaves the loop: a closed connection would spin forever" % name)
        rep.floor(rule, "%s/%s protocol loops" % (cfg, name), n_loops, 1)
    from ..common import builder_parse_bodies
    bs = builder_parse_bodies(prog)
    if len(bs) == 1:
        b = bs[0]
        g = Cfg(b)
        fl = Flow(b)
        consuming = []
        for bb, t in b.calls():
            if any(n in SHORTEN for n in callee_names(t)) and t["args"]:
                leaves, _ = fl.sources([op_local(t["args"][0])], through_call=identity_through, follow_mut=False)
                if ("param", 2) in leaves:
                    consuming.append(bb)
        from ..cfg import state_cycle_blocks
        feasible_cycle = state_cycle_blocks(b, avoid=consuming)
        for i, loop in enumerate(g.loops):
            rest = [c for c in sccs(g.succs, loop - set(consuming)) if set(c) & feasible_cycle]
            rep.check(not rest, rule, "%s/builder loop#%d consumes" % (cfg, i), b.loc(b.span),
                      "ResponseBuilder::parse has a cycle that does not remove bytes from the source buffer on every turn")
        rep.floor(rule, cfg + "/builder loops", len(g.loops), 1)
        rep.assume("every successfully parsed component spans at least one byte (grammar fact, not decided)")


def is_await_cycle(body, loop):
    has_yield = any(body.blocks[x]["t"]["k"] == "yield" for x in loop)
    if not has_yield:
        return False
    for x in loop:
        chain = body.prog.exp_chain(body.crate, body.blocks[x]["ts"])
        if not any(m == "desugar:Await" for m, _ in chain):
            return False
    return True


def third_party_block(prog, body, bb):
    return panics.third_party(prog, body, body.blocks[bb]["ts"])


def binary_cut_rule(rep, prog, cfg):
    """The binary alternative commits (nom `cut`) once its header matched, so that a bad payload
    terminator cannot fall through to the key-value alternative and fabricate fields."""
    rule = "C09.binary-cut"
    bs = body_by_name(prog, COMPONENT_PARSE)
    if len(bs) != 1:
        rep.fail(rule + ".anchor", cfg, COMPONENT_PARSE, "function not found")
        return
    b = bs[0]
    alts = alt_table(prog, b)
    if alts is None or "BinaryField" not in alts or "Field" not in alts:
        rep.fail(rule, cfg + "/alternatives", b.loc(b.span), "cannot identify the binary and key-value alternatives of the component parser (idiom unknown: failing closed)")
        return
    cg = callgraph(prog)
    fn = alts["BinaryField"]["parser"]
    ok = False
    if fn is not None:
        for bid in cg.reachable([fn]):
            for f, bb in cg.ext.get(bid, []):
                if norm(f["name"]) == "nom::combinator::cut":
                    ok = True
    rep.check(ok, rule, cfg + "/binary alternative commits", b.loc(b.span),
              "the binary-field parser does not wrap its payload part in nom::combinator::cut: when the byte after the announced payload is not a newline "
              "the error is recoverable, `alt` falls through to the key-value parser, `binary: N` becomes an ordinary field and the payload is parsed as protocol lines")
    rep.sample({"alt_order": [k for k, v in sorted(alts.items(), key=lambda kv: kv[1]["index"])]})


def alt_table(prog, b):
    """{variant constructed by the map closure: {index in the alt tuple, parser fn def}}"""
    fl = Flow(b)
    maps = {}
    for bb, t in b.calls():
        if "nom::combinator::map" in callee_names(t) and len(t["args"]) == 2:
            parser = op_const(t["args"][0])
            pfn = None
            if parser is not None and "fn" in parser:
                pfn = parser["fn"]["def"]
            else:
                l = op_local(t["args"][0])
                leaves, _ = fl.sources([l] if l is not None else [], through_call=lambda t2, k=None: tuple(range(8)))
                # e.g. map(tag("OK\n"), ..): parser built by a nom call
            clos = None
            l2 = op_local(t["args"][1])
            for bb2, i2, s2 in b.stmts():
                if s2["k"] == "assign" and s2["place"]["l"] == l2 and s2["rv"]["k"] == "agg" and s2["rv"]["agg"] == "closure":
                    clos = prog.bodies.get(s2["rv"]["def"])
            c2 = op_const(t["args"][1])
            if clos is None and c2 is not None and "closure" in c2:
                clos = prog.bodies.get(c2["closure"])
            if clos is None:
                # `map(parser, ParsedComponent::Variant)`: the tuple-variant constructor itself is the mapping function
                if c2 is not None and "fn" in c2 and "{constructor" in c2["fn"].get("def", "") and "parser::ParsedComponent::" in c2["fn"]["name"]:
                    maps[t["dest"]["l"]] = (norm(c2["fn"]["name"]).rsplit("::", 1)[-1], pfn)
                continue
            vs = {v for v, _, _ in tables.variant_aggs(clos, clos.reachable(), "parser::ParsedComponent")}
            if len(vs) == 1:
                maps[t["dest"]["l"]] = (next(iter(vs)), pfn)
    # the tuple handed to alt
    out = {}
    for bb, i, s in b.stmts():
        if s["k"] == "assign" and s["rv"]["k"] == "agg" and s["rv"]["agg"] == "tuple" and len(s["rv"]["ops"]) >= 2:
            idx = {}
            for k, o in enumerate(s["rv"]["ops"]):
                l = op_local(o)
                if l in maps:
                    idx[maps[l][0]] = {"index": k, "parser": maps[l][1]}
                    continue
                # an alternative that is itself a private parser function holding an `alt` of mapped alternatives (`end_marker`)
                c = op_const(o)
                tid = (c["fn"].get("inst") or c["fn"]["def"]) if c is not None and "fn" in c else None
                sub = prog.bodies.get(tid)
                if sub is not None and sub.crate == b.crate and sub.id != b.id and "ParsedComponent" in sub.raw.get("sig", "") + sub.local_ty(0):
                    inner = alt_table(prog, sub) or {}
                    for v, info in inner.items():
                        if v not in idx:
                            idx[v] = {"index": k, "parser": info.get("parser"), "sub": info["index"], "in": sub.id}
            if len(idx) >= 2:
                out = idx
    return out or None


def run(rep, progs, tier):
    rep.explanation = (
        "Rule-based static analysis (no execution). A7: every panic-capable construct in every "
        "mpd_protocol body reachable through the resolved call graph from Connection::{connect,receive} "
        "and AsyncConnection::{connect,receive} is enumerated and must be in the audited table (reasons "
        "are text, not machine-checked; a new construct, callee or constant is a new key). Further: no "
        "integer arithmetic in the line parser (numbers via str::parse); non-incomplete parse errors "
        "reach only Err(InvalidMessage) and never the loop; every protocol loop contains a read whose "
        "0-byte result leaves it; the builder's loop consumes input every turn; the binary alternative "
        "commits with nom::cut.")
    rep.rule("C09.inventory", "no unaudited panic-capable construct reachable from connect/receive in the protocol crate")
    rep.rule("C09.restore", "blocking receive: every path from split_off to a return passes unsplit (buffer bookkeeping restored on every exit)")
    rep.rule("C09.no-manual-numbers", "no integer arithmetic in parser.rs; numbers through str::parse")
    rep.rule("C09.invalid", "non-incomplete parse error => Err(InvalidMessage), never retried")
    rep.rule("C09.read-loop", "every loop of connect/receive exits on a 0-byte read; builder loop consumes")
    rep.rule("C09.binary-cut", "binary alternative uses cut after its header")
    rep.trusted = ["rustc MIR construction and callee resolution", "mpdfacts exporter", "panic contracts tabulated in mpdlint/panics.py",
                   "nom/bytes/std internals", "audited reasons (text)"]
    rep.assume("memory growth on hostile `binary:` lengths and allocation failure are out of scope")
    for cfg, prog in progs.items():
        READS.bind(prog)
        inventory_rule(rep, prog, cfg)
        restore_rule(rep, prog, cfg)
        numbers_rule(rep, prog, cfg)
        invalid_rule(rep, prog, cfg)
        read_loop_rule(rep, prog, cfg)
        binary_cut_rule(rep, prog, cfg)
