"""C06 — command arguments reach the server byte-for-byte (escaping round-trip).

Decided for the escaping routine itself (A15, strenc.py): the routine is reduced to its transducer — per set of character classes
present in the argument: literals written before, the image of every character, literals written after — and that transducer is
composed with MPD's request tokenizer (NextParam = NextString | NextUnquoted, written out below as a table over the same classes).
The composition must be the identity for every class set.  Plus the choke points: the three textual `Argument` impls write exactly
the routine's output, `add_argument` writes one blank before it.
"""
import itertools

from .. import strenc
from ..callgraph import norm
from ..common import impl_methods, callee_names
from ..facts import callee

LEVEL = ("exhaustive over the finite quotient of argument strings by character class for the escaping routine (abstract interpretation of its MIR, "
         "composed with a table of MPD's tokenizer); rule-based for the choke points")
CONFIGS_QUICK = ["K1"]
CONFIGS_THOROUGH = ["K1", "K3"]
TECHNIQUE = ("static analysis: abstract interpretation of the escaping routine's MIR over the finite quotient of argument strings by character "
             "class (exact transducer per class set), composed with a class-level table of MPD's request tokenizer; textual Argument impls and the "
             "separator checked by path enumeration of their MIR")

# reference: MPD src/util/Tokenizer.cxx — valid_unquoted_char(ch) = ch > 0x20 && ch != '"' && ch != '\''; inside a quoted string a
# backslash makes the next character literal and '"' ends the string
REF_CUTS = [0, 1, 9, 10, 11, 0x20, 0x21, 0x22, 0x23, 0x27, 0x28, 0x5C, 0x5D]
DQ, SQ, BS = 0x22, 0x27, 0x5C


def refclass(cell):
    lo, hi = cell
    if lo == hi:
        one = {0: "NUL", 9: "TAB", 10: "LF", 0x20: "BLANK", DQ: "DQUOTE", SQ: "SQUOTE", BS: "BACKSLASH"}.get(lo)
        if one:
            return one
    if hi < 0x20:
        return "CONTROL"
    return "ORDINARY"


UNQUOTED_INVALID = {"TAB", "LF", "BLANK", "CONTROL", "DQUOTE", "SQUOTE"}
MUST_ESCAPE_QUOTED = {"DQUOTE", "BACKSLASH"}


def find_encoder(prog):
    """the workspace function(s) through which `<str as Argument>::render` sends its text: fn(&str) -> Cow<str> | String"""
    out = []
    for imp, b in impl_methods(prog, "command::Argument", "render"):
        if imp["info"]["self"] != "str":
            continue
        stack, seen = [b], set()
        while stack:
            cur = stack.pop()
            if cur.id in seen:
                continue
            seen.add(cur.id)
            for bb, t in cur.calls():
                f = callee(t)
                if f is None:
                    continue
                for tid in (f.get("inst"), f["def"]):
                    cb = prog.bodies.get(tid)
                    if cb is None:
                        continue
                    rty = cb.local_ty(0)
                    if cb.mir["argc"] == 1 and cb.local_ty(1).replace("'_ ", "").endswith("str") and ("Cow<" in rty or rty.endswith("String")):
                        out.append((b, cb))
                    elif cb.crate == b.crate and not cb.raw.get("pub") and cb.kind in ("Fn", "AssocFn"):
                        stack.append(cb)
                    break
    return out


def predicates_of(prog, body, seen=None, out=None):
    seen = seen if seen is not None else set()
    out = out if out is not None else []
    if body.id in seen:
        return out
    seen.add(body.id)
    for bb in body.reachable():
        blk = body.blocks[bb]
        for s in blk["s"]:
            if s["k"] == "assign" and s["rv"]["k"] == "agg" and s["rv"].get("agg") == "closure" and s["rv"].get("def") in prog.bodies:
                cb = prog.bodies[s["rv"]["def"]]
                if "bool" in cb.local_ty(0):
                    out.append(cb)
                predicates_of(prog, cb, seen, out)
        t = blk["t"]
        if t["k"] == "call":
            f = callee(t)
            if f is not None:
                for tid in (f.get("inst"), f["def"]):
                    cb = prog.bodies.get(tid)
                    if cb is not None:
                        if cb.local_ty(0) == "bool" and cb.mir["argc"] == 1 and cb.local_ty(1).lstrip("&").strip() in ("char", "u8"):
                            out.append(cb)
                        predicates_of(prog, cb, seen, out)
                        break
    return out


def representatives(prog, enc):
    extra = set()
    consts = strenc.char_constants(prog, enc, cuts=extra)
    cells = strenc.partition(consts, set(REF_CUTS) | extra)
    preds = []
    for p in predicates_of(prog, enc):
        if p.id not in [q.id for q in preds]:
            preds.append(p)
    groups = {}
    for c in cells:
        sig = [refclass(c)]
        for p in preds:
            try:
                sig.append(strenc.pred_on_cell(prog, p, c))
            except strenc.EncOpaque:
                sig.append(None)
        if c[0] == c[1] and c[0] in consts:
            sig.append(c[0])         # a character the routine names stays a class of its own
        groups.setdefault(tuple(sig), []).append(c)
    reps = []
    for sig, cs in groups.items():
        if sig[0] in ("NUL", "LF"):
            continue
        # representative: prefer a printable ASCII letter-ish cell for ORDINARY
        pick = cs[0]
        for c in cs:
            if c[0] <= 0x61 <= c[1]:
                pick = c
        name = sig[0]
        reps.append((name, pick, sig))
    # disambiguate equal names
    names = {}
    for name, pick, sig in reps:
        names.setdefault(name, []).append(pick)
    final = []
    for name, pick, sig in reps:
        nm = name if len(names[name]) == 1 else "%s[0x%02X]" % (name, pick[0] if not (pick[0] <= 0x61 <= pick[1]) else 0x61)
        final.append((nm, name, pick))
    return cells, sorted(final, key=lambda x: x[2]), len(preds), len(groups)


def sample_char(cell):
    lo, hi = cell
    if lo <= 0x61 <= hi:
        return "a"
    if 0xD800 <= lo <= 0xDFFF:
        lo = 0xE000
    return chr(lo)


def apply_transducer(res, word_cells):
    out = []
    for it in res.prefix:
        out.append(chr(it[1]))
    for c in word_cells:
        for it in res.per_cell.get(c, ()):
            out.append(sample_char(c) if it == ("cell",) else chr(it[1]))
    for it in res.suffix:
        out.append(chr(it[1]))
    return "".join(out)


def mpd_tokenize(line):
    """port of MPD's request tokenizer (command word, then NextParam until the end); None = the server rejects the line"""
    def ws(ch):
        return ord(ch) <= 0x20

    def valid_unquoted(ch):
        return ord(ch) > 0x20 and ch not in "\"'"
    s = line
    while s and ws(s[-1]):
        s = s[:-1]
    i, n = 0, len(s)
    toks = []
    # command word
    st = i
    while i < n and not ws(s[i]):
        i += 1
    toks.append(s[st:i])
    while i < n and ws(s[i]):
        i += 1
    while i < n:
        if s[i] == '"':
            i += 1
            buf = []
            while True:
                if i >= n:
                    return None
                ch = s[i]
                if ch == '"':
                    break
                if ch == "\\":
                    i += 1
                    if i >= n:
                        return None
                    ch = s[i]
                buf.append(ch)
                i += 1
            i += 1
            if i < n and not ws(s[i]):
                return None
            toks.append("".join(buf))
        else:
            if not valid_unquoted(s[i]):
                return None
            st = i
            i += 1
            while i < n and not ws(s[i]):
                if not valid_unquoted(s[i]):
                    return None
                i += 1
            toks.append(s[st:i])
        while i < n and ws(s[i]):
            i += 1
    return toks


def judge(res, S, name_of):
    """class-level composition of the transducer with MPD's tokenizer: list of (kind, class, mode) that do not round-trip"""
    bad = []
    lits = [it[1] for it in res.prefix]
    if lits == []:
        mode = "unquoted"
    elif lits == [DQ]:
        mode = "quoted"
    else:
        return [("unexpected-leading-literals", "-", "-")]
    sfx = [it[1] for it in res.suffix]

    def text(c, img):
        # images are compared as text: a literal backslash and "the character itself" of the class BACKSLASH are the same thing
        return "".join(sample_char(c) if it == ("cell",) else chr(it[1]) for it in img)
    if mode == "unquoted":
        if sfx:
            bad.append(("trailing-literals-without-opening-quote", "-", mode))
        if not S:
            bad.append(("empty-argument-vanishes", "-", mode))
        for c in S:
            img = text(c, res.per_cell.get(c, ()))
            plain, esc = sample_char(c), "\\" + sample_char(c)
            cls = name_of[c][1]
            if img != plain:
                bad.append(("altered-outside-quotes", name_of[c][0], mode))
            elif cls in UNQUOTED_INVALID:
                bad.append(("unquoted-invalid-char", name_of[c][0], mode))
    else:
        if sfx != [DQ]:
            bad.append(("closing-quote", "-", mode))
        for c in S:
            img = text(c, res.per_cell.get(c, ()))
            plain, esc = sample_char(c), "\\" + sample_char(c)
            cls = name_of[c][1]
            if cls in MUST_ESCAPE_QUOTED:
                if img != esc:
                    bad.append(("unescaped-inside-quotes", name_of[c][0], mode))
            elif img not in (plain, esc):
                bad.append(("altered-inside-quotes", name_of[c][0], mode))
    return bad


def roundtrip_rule(rep, prog, cfg):
    rule = "C06.roundtrip"
    found = find_encoder(prog)
    encs = []
    for _, e in found:
        if e.id not in [x.id for x in encs]:
            encs.append(e)
    if len(encs) != 1:
        rep.fail(rule + ".anchor", cfg + "/escaping routine", "command.rs",
                 "expected exactly one fn(&str) -> Cow<str>|String reached from <str as Argument>::render, found %d (failing closed)" % len(encs))
        return
    enc = encs[0]
    where = enc.loc(enc.span)
    # private helpers of the module the routine was split into (`fn needs_quotes(&str) -> bool`, `fn push_escaped(&mut String, char)`)
    # are spliced in (A12); character predicates stay calls (they are evaluated exactly per class)
    from ..inline import inlined, module_private_helpers
    base_want = module_private_helpers(enc)

    def want(cb):
        if not base_want(cb):
            return False
        tys = [cb.local_ty(i).replace("&", "").strip() for i in range(1, cb.mir["argc"] + 1)]
        return not (cb.local_ty(0) == "bool" and tys in (["char"], ["u8"]))
    enc2 = inlined(prog, enc, want, depth=3)
    if enc2.raw.get("inlined"):
        enc = enc2
    try:
        cells, reps, npred, ngroups = representatives(prog, enc)
    except strenc.EncOpaque as e:
        rep.fail(rule + ".analysable", cfg + "/classes", where, "the character classes of %s cannot be computed: %s (failing closed)" % (enc.name, e))
        return
    name_of = {pick: (nm, cls) for nm, cls, pick in reps}
    rep.note("classes_%s" % cfg, [{"name": nm, "cell": "0x%X-0x%X" % pick} for nm, cls, pick in reps])
    rep.count("char_cells", len(cells))
    rep.count("class_representatives", len(reps))
    if len(reps) > 12:
        rep.fail(rule + ".analysable", cfg + "/classes", where, "%d character classes: too many to enumerate their subsets (failing closed)" % len(reps))
        return
    picks = [pick for _, _, pick in reps]
    seen_keys = {}
    n_sets = 0
    disagreements = []
    for r in range(0, len(picks) + 1):
        for S in itertools.combinations(picks, r):
            n_sets += 1
            try:
                res = strenc.transducer(prog, enc, list(S), cells)
            except strenc.EncOpaque as e:
                rep.fail(rule + ".analysable", cfg + "/" + enc.name.rsplit("::", 1)[-1], where,
                         "the escaping routine is outside the modelled fragment for the class set {%s}: %s (failing closed)" % (", ".join(name_of[c][0] for c in S), e))
                return
            bad = judge(res, S, name_of)
            # independent cross-check of the class-level verdict: apply the derived transducer to witness words and run the tokenizer port
            words = [list(S), list(reversed(S)), [c for c in S for _ in (0, 1)]]
            conc_ok = True
            for w in words:
                text = "".join(sample_char(c) for c in w)
                wire = "cmd " + apply_transducer(res, w)
                if mpd_tokenize(wire) != ["cmd", text]:
                    conc_ok = False
            if conc_ok != (not bad):
                disagreements.append(", ".join(name_of[c][0] for c in S))
            for kind, cls, mode in bad:
                key = "%s:%s:%s" % (kind, cls, mode)
                if key not in seen_keys or len(S) < len(seen_keys[key][0]):
                    seen_keys[key] = (S, res)
            if not bad:
                rep.ok(rule, "%s/{%s}" % (cfg, ",".join(name_of[c][0] for c in S)),
                       detail={"prefix": res.prefix, "suffix": res.suffix, "images": {name_of[c][0]: list(res.per_cell.get(c, ())) for c in S}} if n_sets % 37 == 0 else None)
    rep.count("class_sets_evaluated", n_sets)
    rep.check(not disagreements, rule + ".oracle-agreement", cfg, where,
              "class-level verdict and tokenizer port disagree for class sets %s (checker inconsistency: failing closed)" % disagreements[:3])
    for key, (S, res) in sorted(seen_keys.items()):
        kind, cls, mode = key.split(":")
        w = list(S)
        text = "".join(sample_char(c) for c in w)
        wire = apply_transducer(res, w)
        rep.fail(rule, key, where,
                 "arguments with characters {%s}: %s — e.g. %r is written as %r, which MPD's tokenizer reads as %r"
                 % (", ".join(name_of[c][0] for c in S), kind.replace("-", " "), text, wire, (mpd_tokenize("cmd " + wire) or ["<rejected>"])[1:] if mpd_tokenize("cmd " + wire) is not None else "<rejected>"),
                 facts={"class_set": [name_of[c][0] for c in S], "prefix": res.prefix, "suffix": res.suffix,
                        "images": {name_of[c][0]: list(res.per_cell.get(c, ())) for c in S}})
    rep.floor(rule, cfg + "/class sets", n_sets, 64)


def run(rep, progs, tier):
    from . import C15
    rep.explanation = (
        "Static analysis, no execution of /repo. The escaping routine reached from <str as Argument>::render is interpreted abstractly (A15): "
        "the code points are partitioned by every constant and predicate the routine and MPD's tokenizer distinguish; for every subset of the "
        "resulting classes (the classes present in an argument) the MIR is walked with abstract values (membership answers, zero / non-zero "
        "counts, 'the argument', 'the output buffer', 'a character of class c'), the loop over the characters summarised per class, in both "
        "orders and with repetition; the result is the routine's exact transducer for that class set (literals before, image of each "
        "character, literals after). It is composed with a class-level table of MPD's tokenizer (NextString / NextUnquoted) and must be the "
        "identity; the verdict is cross-checked by applying the derived transducer (not the code) to witness words and feeding a port of the "
        "tokenizer. Textual Argument impls must write exactly the routine's output; add_argument writes one blank before it. NOT decided: "
        "NUL (cannot be carried by the protocol at all) and LF (rejected by the builder, C07) are outside the alphabet; non-textual "
        "renderers (numbers, ranges: C15); filter expressions (C11).")
    rep.rule("C06.roundtrip", "per set of character classes: tokenizer(transducer(argument)) = [argument]")
    rep.rule("C06.roundtrip.oracle-agreement", "class-level verdict = verdict of the tokenizer port on witness words, for every class set")
    rep.rule("C06.choke.render", "String / str / Cow<str> / &A renderers write exactly the escaping routine's output")
    rep.rule("C06.choke.choke", "add_argument writes exactly one 0x20 before the rendered argument")
    rep.rule("C06.builder.arg-lf", "the line-feed scan covers exactly the rendered argument (C07's rule, decided here for C06's clause)")
    rep.rule("C06.builder.rollback", "a rejected argument leaves the command as it was: nothing of it precedes the next argument")
    rep.trusted = ["rustc MIR construction", "mpdfacts exporter", "MPD Tokenizer.cxx semantics (NextParam) as transcribed in this file"]
    rep.assume("arguments containing NUL or LF are outside the analysed alphabet (LF is refused by Command::add_argument, see C07; NUL cannot be sent in an MPD request line)")
    for cfg, prog in progs.items():
        roundtrip_rule(rep, prog, cfg)
        with rep.importing("C15.", "C06.choke."):
            C15.render_rule(rep, prog, cfg, only=("str", "alloc::string::String", "alloc::borrow::Cow<'_, str>", "&A"))
            C15.choke_rule(rep, prog, cfg, separator_only=True)
        # what the builder does around the rendered argument: one separator, the line-feed scan over exactly the rendered bytes, a
        # rejected argument taken back completely (a fragment left behind would become part of the next argument) — C07's rules
        from .C07 import arg_rules
        with rep.importing("C07.", "C06.builder."):
            arg_rules(rep, prog, cfg)
