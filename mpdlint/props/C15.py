"""C15 — predefined commands render to the documented MPD request (DESIGN.md §4/C15)."""
from .. import panics, tables, terms
from ..callgraph import norm
from ..cfg import Cfg
from ..common import body_by_name, callee_names, callgraph, impl_methods
from ..facts import callee, const_int, op_const, op_local, op_place
from ..flow import Flow
from ..shapes import render_shapes, shapes_of

CONFIGS_QUICK = ["K1"]
CONFIGS_THOROUGH = ["K1", "K2"]
TECHNIQUE = "static analysis: path enumeration of every Command::command / Argument::render body with argument provenance (MIR), compared with a table reviewed against the MPD protocol reference"

# Shapes per command: command word, then per argument either a literal keyword or the field of the
# command value it derives from (path through enum variants), `*` = inside a loop.  Extracted from
# the tree once, reviewed line by line against the MPD protocol reference (command reference of
# doc/protocol.rst) and frozen; any deviation is reported with both sides.
EXPECT = {
    'ClearQueue': [
        'clear',
    ],
    'Next': [
        'next',
    ],
    'Ping': [
        'ping',
    ],
    'Previous': [
        'previous',
    ],
    'Stop': [
        'stop',
    ],
    "ClearPlaylist<'a>": [
        'playlistclear f:0',
    ],
    "DeletePlaylist<'a>": [
        'rm f:0',
    ],
    "SaveQueueAsPlaylist<'a>": [
        'save f:0',
    ],
    'SetConsume': [
        'consume f:0',
    ],
    'SetPause': [
        'pause f:0',
    ],
    'SetRandom': [
        'random f:0',
    ],
    'SetRepeat': [
        'repeat f:0',
    ],
    "SubscribeToChannel<'a>": [
        'subscribe f:0',
    ],
    "UnsubscribeFromChannel<'a>": [
        'unsubscribe f:0',
    ],
    'ReplayGainStatus': [
        'replay_gain_status',
    ],
    'Status': [
        'status',
    ],
    'Stats': [
        'stats',
    ],
    'Queue': [
        'playlistinfo',
    ],
    'QueueRange': [
        'playlistid f:0.Single.0.Id.0',
        'playlistinfo f:0.Range.0',
        'playlistinfo f:0.Single.0.Position.0',
    ],
    'CurrentSong': [
        'currentsong',
    ],
    'GetPlaylists': [
        'listplaylists',
    ],
    'GetEnabledTagTypes': [
        'tagtypes',
    ],
    "GetPlaylist<'_>": [
        'listplaylistinfo f:0',
    ],
    'SetVolume': [
        'setvol <f:0|fn:cmp::min|int:100>',
    ],
    'SetSingle': [
        'single "0"',
        'single "1"',
        'single "oneshot"',
    ],
    'SetReplayGainMode': [
        'replay_gain_mode "album"',
        'replay_gain_mode "auto"',
        'replay_gain_mode "off"',
        'replay_gain_mode "track"',
    ],
    'Crossfade': [
        'crossfade <f:0|fn:Duration::as_secs>',
    ],
    'SeekTo': [
        'seek f:0.Position.0 f:1',
        'seekid f:0.Id.0 f:1',
    ],
    'Seek': [
        'seekcur <f:0.Absolute.0|fn:Duration::as_secs_f64|tpl:b"\\xc5 \\x00\\x00p\\x03\\x00\\x00">',
        'seekcur <f:0.Backward.0|fn:Duration::as_secs_f64|tpl:b"\\x01-\\xc5 \\x00\\x00p\\x03\\x00\\x00">',
        'seekcur <f:0.Forward.0|fn:Duration::as_secs_f64|tpl:b"\\x01+\\xc5 \\x00\\x00p\\x03\\x00\\x00">',
    ],
    'Shuffle': [
        'shuffle',
        'shuffle f:0.Some.0',
    ],
    'Play': [
        'play',
        'play f:0.Some.0.Position.0',
        'playid f:0.Some.0.Id.0',
    ],
    "Add<'_>": [
        'addid f:uri',
        'addid f:uri f:position.Some.0',
    ],
    'Delete': [
        'delete f:0.Range.0',
        'deleteid f:0.Id.0',
    ],
    'Move': [
        'move f:from.Range.0 f:to',
        'moveid f:from.Id.0 f:to',
    ],
    'Find': [
        'find f:filter',
        'find f:filter "sort" <f:sort.Some.0|fn:Tag::as_str>',
        'find f:filter "sort" <f:sort.Some.0|fn:Tag::as_str> "window" f:window.Some.0',
        'find f:filter "window" f:window.Some.0',
    ],
    'List<N>': [
        'list f:tag',
        'list f:tag "group"* f:group_by*',
        'list f:tag f:filter',
        'list f:tag f:filter "group"* f:group_by*',
    ],
    'Count': [
        'count f:filter',
    ],
    'CountGrouped': [
        'count "group" f:group_by',
        'count f:filter.Some.0 "group" f:group_by',
    ],
    "RenamePlaylist<'_>": [
        'rename f:from f:to',
    ],
    "LoadPlaylist<'_>": [
        'load f:name',
        'load f:name f:range.Some.0',
    ],
    "AddToPlaylist<'_>": [
        'playlistadd f:playlist f:song_url',
        'playlistadd f:playlist f:song_url f:position.Some.0',
    ],
    "RemoveFromPlaylist<'_>": [
        'playlistdelete f:playlist f:target.Position.0',
        'playlistdelete f:playlist f:target.Range.0',
    ],
    "MoveInPlaylist<'_>": [
        'playlistmove f:playlist f:from f:to',
    ],
    "ListAllIn<'_>": [
        'listallinfo',
        'listallinfo f:directory',
    ],
    'SetBinaryLimit': [
        'binarylimit f:0',
    ],
    "AlbumArt<'_>": [
        'albumart f:uri f:offset',
    ],
    "AlbumArtEmbedded<'_>": [
        'readpicture f:uri f:offset',
    ],
    "TagTypes<'_>": [
        'tagtypes "all"',
        'tagtypes "clear"',
        'tagtypes "disable"',
        'tagtypes "disable" f:0.Disable.0*',
        'tagtypes "enable"',
        'tagtypes "enable" f:0.Enable.0*',
    ],
    "StickerGet<'_>": [
        'sticker "get" "song" f:uri f:name',
    ],
    "StickerSet<'_>": [
        'sticker "set" "song" f:uri f:name f:value',
    ],
    "StickerDelete<'_>": [
        'sticker "delete" "song" f:uri f:name',
    ],
    "StickerList<'_>": [
        'sticker "list" "song" f:uri',
    ],
    "StickerFind<'_>": [
        'sticker "find" "song" f:uri f:name',
        'sticker "find" "song" f:uri f:name "<" f:filter',
        'sticker "find" "song" f:uri f:name "=" f:filter',
        'sticker "find" "song" f:uri f:name ">" f:filter',
    ],
    "Update<'_>": [
        'update',
        'update f:0.Some.0',
    ],
    "Rescan<'_>": [
        'rescan',
        'rescan f:0.Some.0',
    ],
    'ReadChannelMessages': [
        'readmessages',
    ],
    'ListChannels': [
        'channels',
    ],
    "SendChannelMessage<'_>": [
        'sendmessage f:channel f:message',
    ],
}

# Argument renderers: ordered write events per path (templates are rustc's encoded format strings:
# \xc0 = '{}', '\x01+' = literal '+', 'p\x03' = precision 3).
RENDER_EXPECT = {
    'mpd_client::commands::definitions::SongRange': [
        'fmt(tpl:b"\\xc0\\x01:\\x00"; f:from)',
        'fmt(tpl:b"\\xc0\\x01:\\xc0\\x00"; f:from, f:to.Some.0)',
    ],
    'mpd_client::commands::definitions::PositionOrRelative': [
        'fmt(tpl:b"\\x01+\\xc0\\x00"; f:AfterCurrent.0)',
        'fmt(tpl:b"\\x01-\\xc0\\x00"; f:BeforeCurrent.0)',
        'render(f:Absolute.0)',
    ],
    'mpd_client::commands::SongId': [
        'fmt(tpl:b"\\xc0\\x00"; f:0)',
    ],
    'mpd_client::commands::SongPosition': [
        'fmt(tpl:b"\\xc0\\x00"; f:0)',
    ],
    'mpd_client::tag::Tag': [
        'slice(<f:self|fn:<impl str>::as_bytes|fn:Tag::as_str>)',
    ],
    '&A': [
        'render(f:self)',
    ],
    'alloc::string::String': [
        'slice(<f:self|fn:<impl str>::as_bytes|fn:command::escape_argument>)',
    ],
    'str': [
        'slice(<f:self|fn:<impl str>::as_bytes|fn:command::escape_argument>)',
    ],
    "alloc::borrow::Cow<'_, str>": [
        'slice(<f:self|fn:<impl str>::as_bytes|fn:command::escape_argument>)',
    ],
    'bool': [
        'u8(int:48)',
        'u8(int:49)',
    ],
    'core::time::Duration': [
        'fmt(tpl:b"\\xc5 \\x00\\x00p\\x03\\x00\\x00"; <f:self|fn:Duration::as_secs_f64>)',
    ],
    'u8': [
        'fmt(tpl:b"\\xc0\\x00"; f:self)',
    ],
    'u16': [
        'fmt(tpl:b"\\xc0\\x00"; f:self)',
    ],
    'u32': [
        'fmt(tpl:b"\\xc0\\x00"; f:self)',
    ],
    'u64': [
        'fmt(tpl:b"\\xc0\\x00"; f:self)',
    ],
    'usize': [
        'fmt(tpl:b"\\xc0\\x00"; f:self)',
    ],
}

ENUM_TABLES = {
    # (function, enum suffix) -> {variant: literal}
    ("<mpd_client::commands::definitions::SetSingle as mpd_client::commands::Command>::command", "commands::SingleMode"):
        {"Disabled": "0", "Enabled": "1", "Oneshot": "oneshot"},
    ("<mpd_client::commands::definitions::SetReplayGainMode as mpd_client::commands::Command>::command", "commands::ReplayGainMode"):
        {"Off": "off", "Track": "track", "Album": "album", "Auto": "auto"},
    ("<mpd_client::commands::definitions::StickerFind<'_> as mpd_client::commands::Command>::command", "definitions::StickerFindOperator"):
        {"Equals": "=", "GreaterThan": ">", "LessThan": "<"},
}


def shape_rule(rep, prog, cfg):
    rule = "C15.shape"
    n = 0
    seen = set()
    for imp, b in impl_methods(prog, "commands::Command", "command"):
        name = imp["info"]["self"].replace("mpd_client::commands::definitions::", "")
        seen.add(name)
        n += 1
        sh, problems = shapes_of(prog, b)
        got = sorted(" ".join(x) for x in sh)
        exp = EXPECT.get(name)
        where = b.loc(b.span)
        if exp is not None and (problems or sorted(exp) != got):
            # what is sent may be put together by a private helper (`self.0.sign_and_time()`): spliced in (A12), the paths are then
            # those of the command and the helper together
            from ..inline import inlined
            b2 = inlined(prog, b, lambda cb: cb.crate == b.crate and cb.kind in ("Fn", "AssocFn") and not cb.raw.get("pub") and not cb.raw.get("exported")
                         and not cb.raw.get("derived") and not cb.raw.get("coroutine"), depth=2)
            if b2.raw.get("inlined"):
                sh2, problems2 = shapes_of(prog, b2)
                got2 = sorted(" ".join(x) for x in sh2)
                if not problems2 and got2 == sorted(exp):
                    sh, problems, got = sh2, problems2, got2
        if problems:
            rep.fail(rule, "%s/%s analysable" % (cfg, name), where, "command() of %s is not analysable: %s (failing closed)" % (name, problems[:2]))
            continue
        if exp is None:
            # a command added after the table was reviewed: nothing to compare with — not decided, not an alarm
            rep.note("not_in_reference_table_%s_%s" % (cfg, name), got)
            continue
        missing = [x for x in exp if x not in got]
        extra = [x for x in got if x not in exp]
        rep.check(not missing and not extra, rule, "%s/%s" % (cfg, name), where,
                  "%s renders %s; the MPD reference table has %s (unexpected: %s, missing: %s)" % (name, got, exp, extra, missing),
                  detail={"shapes": got})
    rep.floor(rule, cfg + "/Command impls", n, 58)
    gone = set(EXPECT) - seen
    rep.check(not gone, rule, cfg + "/all reference commands present", "definitions.rs", "commands of the reference table no longer exist: %s" % sorted(gone))


def _merge_fmt(path):
    """canonical form of one path of write events: adjacent formatted writes are one formatted write of the concatenated template
    and arguments (`write!("{}:", a); write!("{}", b)` == `write!("{}:{}", a, b)`; the template bytes end in a 0 terminator)"""
    import ast
    import re as _re
    evs = path.split(" ; ")
    out = []
    for ev in evs:
        m = _re.match(r"^fmt\(tpl:(b(?:'|\").*?(?:'|\")); (.*)\)$", ev) or _re.match(r"^fmt\(tpl:(b(?:'|\").*?(?:'|\"))\)$", ev)
        if m and out and out[-1][0] == "fmt":
            try:
                t1, t2 = out[-1][1], ast.literal_eval(m.group(1))
            except Exception:
                out.append(("raw", ev))
                continue
            args = out[-1][2] + ([m.group(2)] if m.lastindex and m.lastindex >= 2 and m.group(2) else [])
            out[-1] = ("fmt", (t1[:-1] if t1.endswith(b"\x00") else t1) + t2, args)
        elif m:
            try:
                out.append(("fmt", ast.literal_eval(m.group(1)), [m.group(2)] if m.lastindex and m.lastindex >= 2 and m.group(2) else []))
            except Exception:
                out.append(("raw", ev))
        else:
            out.append(("raw", ev))
    return " ; ".join(x[1] if x[0] == "raw" else ("fmt(tpl:%r; %s)" % (x[1], ", ".join(x[2])) if x[2] else "fmt(tpl:%r)" % (x[1],)) for x in out)


_VIEW_STEP = None


def _drop_views(ev):
    """`self.as_str()` / `as_ref()` / `deref()` / `borrow()` on the way from a field to what is written only change the view of the
    same text: dropped from the descriptor (`<f:self|fn:as_bytes|fn:String::as_str|fn:escape_argument>` == without `as_str`)"""
    global _VIEW_STEP
    import re as _re
    if _VIEW_STEP is None:
        _VIEW_STEP = _re.compile(r"\|fn:(?:String|str|<impl str>|Cow(?:<[^|>]*>)?|AsRef|Deref|Borrow)::(?:as_str|as_ref|deref|borrow)(?=[|>])")
    return _VIEW_STEP.sub("", ev)


def render_rule(rep, prog, cfg, only=None):
    rule = "C15.render"
    n = 0
    for imp, b in impl_methods(prog, "command::Argument", "render"):
        name = imp["info"]["self"]
        if name.endswith("filter::Filter"):
            continue        # filter expressions: C11
        if only is not None and name not in only:
            continue
        n += 1
        # what is written may go through a private helper of the module (`render_escaped`) or through the renderer of the wrapped
        # value (`self.0.render(buf)` for a newtype): spliced in (A12), so that the write events are those of the whole renderer
        sh, problems = render_shapes(prog, b)
        got = sorted(_drop_views(" ; ".join(x)) for x in sh)
        exp = RENDER_EXPECT.get(name)
        if exp is not None and (problems or got != sorted(exp)):
            from ..inline import inlined, module_private_helpers
            base_want = module_private_helpers(b)
            b2 = inlined(prog, b, lambda cb: base_want(cb) or norm(cb.name).endswith(" as mpd_protocol::command::Argument>::render"), depth=2)
            if b2.raw.get("inlined"):
                sh2, problems2 = render_shapes(prog, b2)
                got2 = sorted(_drop_views(" ; ".join(x)) for x in sh2)
                if not problems2 and got2 == sorted(exp):
                    sh, problems, got = sh2, problems2, got2
        if exp is None:
            rep.note("renderer_not_in_reference_table_%s_%s" % (cfg, name), got)
            continue
        if problems:
            rep.fail(rule, "%s/%s" % (cfg, name), b.loc(b.span), "Argument::render for %s not analysable (%s %s)" % (name, problems[:1], got))
            continue
        if got != sorted(exp) and sorted(_merge_fmt(x) for x in got) == sorted(_merge_fmt(x) for x in exp):
            got = sorted(exp)        # the same bytes, written by a different number of `write!`s
        rep.check(got == sorted(exp), rule, "%s/%s" % (cfg, name), b.loc(b.span),
                  "Argument::render for %s writes %s; the reviewed reference is %s" % (name, got, sorted(exp)), detail={"events": got})
    rep.floor(rule, cfg + "/Argument impls", n, 16 if only is None else len(only))


def enums_rule(rep, prog, cfg):
    rule = "C15.enums"
    for (fn, adt), exp in ENUM_TABLES.items():
        bs = [b for b in prog.bodies.values() if b.kind == "AssocFn" and norm(b.name) == fn]
        short = adt.rsplit("::", 1)[-1]
        if len(bs) != 1:
            rep.fail(rule + ".anchor", "%s/%s" % (cfg, short), fn, "function not found")
            continue
        b = bs[0]
        sws = [s for s in tables.discr_switches(b) if s["adt"].endswith(adt)]
        if not sws:
            # the keyword may be chosen by a private method of the enum (`self.0.keyword()`): spliced in (A12)
            from ..inline import inlined
            b0 = b
            nb2 = inlined(prog, b, lambda cb: cb.crate == b0.crate and cb.kind in ("Fn", "AssocFn") and not cb.raw.get("pub") and not cb.raw.get("exported")
                          and not cb.raw.get("derived") and not cb.raw.get("coroutine"), depth=2)
            if nb2.raw.get("inlined"):
                b = nb2
                sws = [s for s in tables.discr_switches(b) if s["adt"].endswith(adt)]
        if len(sws) != 1:
            rep.fail(rule, "%s/%s match" % (cfg, short), b.loc(b.span), "expected one match on %s, found %d" % (short, len(sws)))
            continue
        sw = sws[0]
        targets = list(sw["arms"].values()) + [sw["otherwise"]]
        for v, lit in exp.items():
            tb = sw["arms"].get(v, sw["otherwise"])
            lits = {l for l, _, _ in tables.str_consts(b, tables.exclusive(b, tb, [x for x in targets if x != tb]))} & set(exp.values())
            rep.check(lits == {lit}, rule, "%s/%s::%s->%s" % (cfg, short, v, "+".join(sorted(lits)) or "-"), b.loc(b.span),
                      "%s::%s is sent as %s, the MPD reference says %r" % (short, v, sorted(lits), lit))
        rep.check(set(sw["variants"]) == set(exp), rule, "%s/%s variants" % (cfg, short), b.loc(b.span),
                  "%s has variants %s, the reference table %s" % (short, sw["variants"], sorted(exp)))
    # bool: true -> '1', false -> '0'
    bs = [b for b in prog.bodies.values() if b.kind == "AssocFn" and norm(b.name) == "<bool as mpd_protocol::command::Argument>::render"]
    if len(bs) == 1:
        b = bs[0]
        got = {}
        for bb in sorted(b.reachable()):
            t = b.blocks[bb]["t"]
            if t["k"] == "switch" and t.get("ty") == "bool":
                zero = [x for v, x in t["targets"] if v == 0]
                for val, tgt in ((True, t["otherwise"]), (False, zero[0] if zero else None)):
                    if tgt is None:
                        continue
                    for x in tables.exclusive(b, tgt, [t["otherwise"]] + zero) or {tgt}:
                        for s in b.blocks[x]["s"]:
                            if s["k"] == "assign" and s["rv"]["k"] == "use" and const_int(op_const(s["rv"]["op"])) in (48, 49):
                                got[val] = const_int(op_const(s["rv"]["op"]))
        rep.check(got == {True: 49, False: 48}, rule, cfg + "/bool", b.loc(b.span), "booleans are sent as %s, MPD expects 1 / 0" % got, detail={str(k): v for k, v in got.items()})
    else:
        rep.fail(rule + ".anchor", cfg + "/bool", "command.rs", "bool renderer not found")


def overflow_rule(rep, prog, cfg):
    rule = "C15.no-overflow"
    cg = callgraph(prog)
    roots = [b.id for imp, b in impl_methods(prog, "commands::Command", "command")]
    # constructors / builders of the command structs
    for b in prog.bodies.values():
        if b.kind in ("Fn", "AssocFn") and b.crate == "mpd_client" and norm(b.name).startswith("mpd_client::commands::definitions::") and not b.raw.get("derived"):
            roots.append(b.id)
    sites, R, nb, nblocks = panics.inventory(prog, cg, roots)
    n = 0
    for s in sites:
        if s.kind.startswith("assert:overflow") and s.body.crate in ("mpd_client",) and "responses" not in s.fn:
            n += 1
            rep.fail(rule, "%s/%s" % (cfg, s.key), s.where,
                     "overflow-checked arithmetic `%s` on the command construction/rendering path of %s: positions must saturate at the integer maximum instead of panicking" % (s.kind, s.fn))
    rep.check(n == 0, rule, cfg + "/no arithmetic assert", "commands/definitions.rs", "see above", detail={"bodies": nb})
    bs = body_by_name(prog, "mpd_client::commands::definitions::SongRange::new_usize")
    if len(bs) != 1:
        rep.fail(rule + ".anchor", cfg + "/SongRange::new_usize", "definitions.rs", "range normalisation not found")
        return
    b = bs[0]
    if not [1 for bb, t in b.calls() if "core::num::<impl usize>::saturating_add" in callee_names(t)]:
        # the two bounds may be normalised by private helpers (`Self::first_position(range.start_bound())`): spliced in (A12)
        from ..inline import inlined, module_private_helpers
        nb2 = inlined(prog, b, module_private_helpers(b), depth=2)
        b = nb2 if nb2.raw.get("inlined") else b
    sat = [bb for bb, t in b.calls() if "core::num::<impl usize>::saturating_add" in callee_names(t)]
    plain = [s for bb, i, s in b.stmts() if s["k"] == "assign" and s["rv"]["k"] == "binop" and s["rv"]["op"].startswith(("Add", "Sub"))]
    # one for the excluded start bound, one for the included end bound; each adds the constant 1
    ones = [const_int(op_const(b.blocks[bb]["t"]["args"][1])) for bb in sat]
    rep.check(len(sat) == 2 and ones == [1, 1] and not plain, rule, cfg + "/saturating range normalisation", b.loc(b.span),
              "range bounds are not normalised with exactly two saturating_add(1) (excluded start, included end): found %d saturating, constants %s, %d plain add/sub"
              % (len(sat), ones, len(plain)))
    # which bound gets the +1: Excluded start / Included end
    sws = tables.discr_switches(b)
    ok = 0
    for sw in sws:
        if not sw["adt"].endswith("ops::range::Bound"):
            continue
        targets = list(sw["arms"].values()) + [sw["otherwise"]]
        which = {}
        for v, tb in sw["arms"].items():
            region = tables.exclusive(b, tb, [x for x in targets if x != tb])
            which[v] = any(x in region for x in sat)
        ok += 1
        rep.sample({"bound_plus_one": which})
    starts = []
    for sw in sws:
        if sw["adt"].endswith("ops::range::Bound"):
            targets = list(sw["arms"].values()) + [sw["otherwise"]]
            starts.append({v: any(x in tables.exclusive(b, tb, [y for y in targets if y != tb]) for x in sat) for v, tb in sw["arms"].items()})
    exp = [{"Included": False, "Excluded": True, "Unbounded": False}, {"Included": True, "Excluded": False, "Unbounded": False}]
    norm_starts = [{k: v for k, v in d.items()} for d in starts]
    rep.check(sorted(map(str, norm_starts)) == sorted(map(str, exp)), rule, cfg + "/+1 on excluded start and included end", b.loc(b.span),
              "the +1 of range normalisation is applied to %s; expected start: Excluded, end: Included" % norm_starts)


def range_norm_rule(rep, prog, cfg):
    """Range normalisation as a table of terms: every function of the commands module that matches on the bounds of a
    RangeBounds value must compute, per bound variant, exactly the value MPD's START:END (END exclusive) needs."""
    rule = "C15.range-norm"
    P = lambda v: ("field", ("scrut",), v, "0")
    one = ("const", 1)
    some = lambda t: ("agg", "core::option::Option", "Some", (t,))
    EXPECT_BASE = {
        "start": {"Included": P("Included"), "Excluded": ("sat_add", P("Excluded"), one), "Unbounded": ("const", 0)},
        "end": {"Included": some(("sat_add", P("Included"), one)), "Excluded": some(P("Excluded")),
                "Unbounded": ("agg", "core::option::Option", "None", ())},
    }
    bound = lambda v, ops: ("agg", "core::ops::range::Bound", v, ops)
    EXPECT_WRAP = {side: {"Included": bound("Included", (("field", P("Included"), None, "0"),)),
                          "Excluded": bound("Excluded", (("field", P("Excluded"), None, "0"),)),
                          "Unbounded": bound("Unbounded", ())} for side in ("start", "end")}
    found = 0
    for b in prog.bodies.values():
        if b.crate != "mpd_client" or b.raw.get("derived") or not norm(b.name).startswith("mpd_client::commands::"):
            continue
        if not any(any(n.endswith(("RangeBounds::start_bound", "RangeBounds::end_bound")) for n in callee_names(t)) for _, t in b.calls()):
            continue
        # the per-bound conversion may sit in a private helper (`position_bound(range.start_bound())`): when the function itself
        # does not match on the bounds it asked for, the helpers that are handed a Bound are spliced in (A12)
        def _direct(bx):
            dsts = {t["dest"]["l"] for _, t in bx.calls() if any(n.endswith(("RangeBounds::start_bound", "RangeBounds::end_bound")) for n in callee_names(t))}
            return any(sw["adt"].endswith("ops::range::Bound") and sw["place"]["l"] in dsts for sw in tables.discr_switches(bx))
        if not _direct(b):
            from ..inline import inlined, module_private_helpers
            base_want = module_private_helpers(b)
            b = inlined(prog, b, lambda cb: base_want(cb) and any("ops::range::Bound" in cb.local_ty(i) for i in range(1, cb.mir["argc"] + 1)), depth=1)
        side_of = {}
        for bb, t in b.calls():
            ns = callee_names(t)
            for side in ("start", "end"):
                if any(n.endswith("RangeBounds::%s_bound" % side) for n in ns) and t.get("dest") is not None:
                    side_of[t["dest"]["l"]] = side
        grew = True
        while grew:                 # the bound under the names it is moved through (a spliced helper's parameter)
            grew = False
            for _, _, st in b.stmts():
                if st["k"] == "assign" and not st["place"]["p"] and st["rv"]["k"] == "use" and st["place"]["l"] not in side_of:
                    pl = op_place(st["rv"]["op"])
                    if pl is not None and not pl["p"] and pl["l"] in side_of:
                        side_of[st["place"]["l"]] = side_of[pl["l"]]
                        grew = True
        if not side_of:
            continue
        # an `if let Bound::Unbounded = ..` test that rejects a range (MPD's `move START:END` needs an END): it is the END bound
        # that must not be open — the start of a range is always allowed to be open (it denotes 0)
        for sw in tables.discr_switches(b):
            if sw["adt"].endswith("ops::range::Bound") and sw["place"]["l"] in side_of and not sw["place"]["p"] and list(sw["arms"]) == ["Unbounded"]:
                g0 = Cfg(b)
                region = tables.exclusive(b, sw["arms"]["Unbounded"], [sw["otherwise"]])
                rejects = any(b.blocks[x]["t"]["k"] == "call" and b.blocks[x]["t"].get("target") is None for x in region) or \
                    any(b.blocks[x]["t"]["k"] in ("unreachable",) for x in region)
                if rejects:
                    rep.check(side_of[sw["place"]["l"]] == "end", rule, "%s/%s rejects an open end" % (cfg, norm(b.name)), b.loc(b.blocks[sw["bb"]]["ts"]),
                              "%s rejects ranges whose %s bound is open; the command needs a closed END, an open start is legal (0)" % (
                                  norm(b.name), side_of[sw["place"]["l"]]))
        sws = [sw for sw in tables.discr_switches(b) if sw["adt"].endswith("ops::range::Bound") and sw["place"]["l"] in side_of and not sw["place"]["p"]
               and len(sw["arms"]) >= 2]   # an `if let Bound::Unbounded` test (Move::range's guard) is not a normaliser
        if not sws:
            continue
        found += 1
        fn = norm(b.name)
        results = {}
        last_join = None
        wrapper = None
        for sw in sws:
            side = side_of[sw["place"]["l"]]
            join, arms = terms.match_arms(b, sw)
            last_join = join
            common = None
            for v, (env, err) in arms.items():
                common = set(env) if common is None else common & set(env)
            common = sorted(common or [])
            missing = [v for v in ("Included", "Excluded", "Unbounded") if v not in arms]
            if missing or join is None or len(common) != 1 or any(err for env, err in arms.values()):
                rep.fail(rule, "%s/%s %s bound" % (cfg, fn, side), b.loc(b.blocks[sw["bb"]]["ts"]),
                         "the match on the %s bound is not three straight-line arms assigning one result (arms %s, result locals %s, %s): normalisation not recognised"
                         % (side, sorted(arms), common, [err for env, err in arms.values() if err]))
                continue
            res = common[0]
            results[side] = res
            got = {v: terms.canon(env[res]) for v, (env, err) in arms.items()}
            is_wrap = all(isinstance(t, tuple) and t[0] == "agg" and t[1] == "core::ops::range::Bound" for t in got.values())
            wrapper = is_wrap if wrapper is None else (wrapper and is_wrap)
            exp = (EXPECT_WRAP if is_wrap else EXPECT_BASE)[side]
            for v in ("Included", "Excluded", "Unbounded"):
                rep.check(got[v] == exp[v], rule, "%s/%s %s bound %s" % (cfg, fn, side, v), b.loc(b.blocks[sw["arms"][v]]["ts"]),
                          "%s bound %s is normalised to `%s`; MPD's half-open START:END needs `%s` (x = the matched bound)"
                          % (side, v, terms.show(got[v]), terms.show(exp[v])))
            rep.sample({"fn": fn, "side": side, "arms": {v: terms.show(t) for v, t in got.items()}})
        if set(results) == {"start", "end"} and last_join is not None:
            # from the join of the match that comes last in the control flow (the one from which the return is reached in a
            # straight line); results are compared up to plain moves (a spliced helper's result is moved into the caller's local)
            env = {}
            for sw in sws:
                j2, _ = terms.match_arms(b, sw)
                if j2 is None:
                    continue
                e2, _ = terms.follow_arm(b, j2, None, None)
                if 0 in e2:
                    env = e2

            def _root(t):
                while isinstance(t, tuple) and t and t[0] == "free":
                    d = [st for _, _, st in b.stmts() if st["k"] == "assign" and st["place"]["l"] == t[1] and not st["place"]["p"]]
                    cd = [t2 for _, t2 in b.calls() if t2.get("dest") is not None and t2["dest"]["l"] == t[1] and not t2["dest"]["p"]]
                    if len(d) == 1 and not cd and d[0]["rv"]["k"] == "use" and op_local(d[0]["rv"]["op"]) is not None \
                            and not (op_place(d[0]["rv"]["op"]) or {}).get("p"):
                        t = ("free", op_local(d[0]["rv"]["op"]))
                        continue
                    break
                return t

            def _roots(t):
                if isinstance(t, tuple) and t and t[0] == "free":
                    return _root(t)
                if isinstance(t, tuple):
                    return tuple(_roots(x) if isinstance(x, tuple) else x for x in t)
                return t
            ret = _roots(terms.canon(env.get(0, ("unknown", "no return value"))))
            s_, e_ = _root(("free", results["start"])), _root(("free", results["end"]))
            if ret[0] == "agg" and ret[1].endswith("::SongRange"):
                ok = ret[3] == (s_, e_)
            elif ret[0] == "call":
                ok = ret[2] == (("agg", "tuple", None, (s_, e_)),)
            else:
                ok = False
            rep.check(ok, rule, "%s/%s start,end order" % (cfg, fn), b.loc(b.span),
                      "the normalised bounds do not reach the range value as (start, end): returns `%s` with start=_%d end=_%d"
                      % (terms.show(ret), results["start"], results["end"]))
    rep.floor(rule, cfg + "/normalisers", found, 2, "commands/definitions.rs")



def range_owner_rule(rep, prog, cfg):
    """Ranges reach the wire normalised (inclusive / exclusive / open bounds, saturating end): that is decided on the constructors of
    the range type (C15.range-norm).  It holds for every range only if nobody else builds one: a `SongRange { from, to }` written out in a
    command constructor bypasses the normalisation — and the invariants other commands rely on (`move` needs a closed end)."""
    rule = "C15.range-norm"
    inside, outside = 0, []
    for b in prog.bodies.values():
        if b.crate != "mpd_client" or b.raw.get("derived"):
            continue
        root = prog.bodies.get(b.root, b)
        for bb, i, st in b.stmts():
            if st["k"] == "assign" and st["rv"]["k"] == "agg" and st["rv"].get("agg") == "adt" and norm(st["rv"].get("adt_name") or "").endswith("definitions::SongRange"):
                if norm(root.name).startswith("mpd_client::commands::definitions::SongRange::"):
                    inside += 1
                else:
                    outside.append((norm(root.name), b.loc(st.get("span") or b.span)))
    for name, where in outside:
        rep.fail(rule, "%s/%s builds a range itself" % (cfg, name), where,
                 "%s constructs a SongRange without going through the range type's normalising constructors: bounds written here are not the "
                 "`START:END` the reference table was decided for (e.g. an open end where `move` needs a closed one, no saturation at the maximum)" % name)
    rep.check(inside >= 1, rule, cfg + "/ranges are built by the range type's constructors", "definitions.rs",
              "no construction of SongRange found inside its own constructors (anchor moved: failing closed)", detail={"constructions": inside})


def builder_rule(rep, prog, cfg):
    """Builder methods that take the command by value: every parameter the caller already gave (every field of `self`) reaches
    the command that is returned, unless the method replaces exactly that field by one of its own parameters.  A field that is
    consumed and not used (e.g. `filter: None` in a method that turns a filtered count into a grouped count) silently drops a
    parameter: the request sent denotes other values than the Rust value built."""
    rule = "C15.shape"
    adts = {a["name"]: a for a in prog.adts.values()}
    n = 0
    for b in prog.bodies.values():
        if b.crate != "mpd_client" or b.kind != "AssocFn" or b.raw.get("derived") or b.mir["argc"] < 1:
            continue
        nm = norm(b.name)
        if not nm.startswith("mpd_client::commands::definitions::"):
            continue
        ty = b.local_ty(1)
        if ty.startswith("&") or "mpd_client::commands::definitions::" not in b.local_ty(0):
            continue
        a = adts.get(ty.split("<")[0])
        if not a or len(a["variants"]) != 1 or not a["variants"][0]["fields"]:
            continue
        fields = [f["name"] if f["name"] is not None else str(i) for i, f in enumerate(a["variants"][0]["fields"])]
        read = set()

        def note(pl):
            if pl is None or pl["l"] != 1:
                return
            if not pl["p"]:
                read.update(fields)
                return
            for e in pl["p"]:
                if isinstance(e, dict) and "f" in e:
                    read.add(e.get("n") if e.get("n") is not None else str(e["f"]))
                    return
        for bb, i, st in b.stmts():
            if st["k"] != "assign":
                continue
            rv = st["rv"]
            if rv["k"] in ("use", "cast"):
                note(op_place(rv["op"]))
            elif rv["k"] in ("ref", "discr"):
                note(rv["place"])
            elif rv["k"] == "agg":
                for o in rv["ops"]:
                    note(op_place(o))
        for bb, t in b.calls():
            for o in t["args"]:
                note(op_place(o))
        n += 1
        unused = [f for f in fields if f not in read]
        if not unused:
            continue
        fl = Flow(b)
        # fields of the returned aggregate that are fed by a parameter of the method
        from_param = set()
        for bb, i, st in b.stmts():
            if st["k"] == "assign" and st["rv"]["k"] == "agg" and st["rv"].get("agg") == "adt" and "mpd_client::commands::definitions::" in str(st["rv"].get("adt_name")):
                for fname, o in zip(st["rv"]["fields"], st["rv"]["ops"]):
                    l = op_local(o)
                    if l is None:
                        continue
                    leaves, _ = fl.sources([l], through_call=lambda t2, k=None: tuple(range(4)), follow_mut=False)
                    if any(x[0] == "param" and x[1] >= 2 for x in leaves):
                        from_param.add(fname)
        dropped = [f for f in unused if f not in from_param]
        rep.check(not dropped, rule, "%s/%s keeps %s" % (cfg, nm.rsplit("::", 2)[-2] + "::" + nm.rsplit("::", 1)[-1], "+".join(unused)), b.loc(b.span),
                  "%s consumes the command but does not use its field(s) %s, and no parameter of the method takes their place: a parameter the caller "
                  "gave earlier is silently dropped from the request" % (nm, dropped))
    rep.floor(rule, cfg + "/by-value builder methods", n, 20)


KEEP_OLD = ("get_or_insert", "get_or_insert_with", "get_or_insert_default", "or_insert", "or_insert_with", "or_default", "or", "or_else", "xor")


def setter_rule(rep, prog, cfg):
    """A by-value setter (`fn filter(mut self, filter) -> Self`, documented "overwrites") stores its parameter: the parameter must
    not be handed, together with a `&mut` of a field of self, to a keep-the-old-value operation (`Option::get_or_insert`,
    `Entry::or_insert`, `Option::or`): the second call of the setter would then be ignored and the request rendered with the first
    value."""
    rule = "C15.shape"
    n = 0
    for b in prog.bodies.values():
        if b.crate != "mpd_client" or b.kind != "AssocFn" or b.raw.get("derived") or b.mir["argc"] < 2:
            continue
        nm = norm(b.name)
        if not nm.startswith("mpd_client::commands::definitions::") or b.local_ty(1).startswith("&") or \
                "mpd_client::commands::definitions::" not in b.local_ty(0):
            continue
        n += 1
        fl = Flow(b)
        bad = []
        for bb, t in b.calls():
            short = (callee_names(t) or ["?"])[0].rsplit("::", 1)[-1].split("::<")[0]
            if short not in KEEP_OLD or not t["args"]:
                continue
            recv, _ = fl.sources([op_local(t["args"][0])] if op_local(t["args"][0]) is not None else [], follow_mut=False)
            from_self = any(x[0] == "param" and x[1] == 1 for x in recv)
            args_from_param = False
            for a in t["args"][1:]:
                la = op_local(a)
                if la is None:
                    continue
                leaves, _ = fl.sources([la], through_call=lambda t2, k=None: tuple(range(4)), follow_mut=False)
                if any(x[0] == "param" and x[1] >= 2 for x in leaves):
                    args_from_param = True
            if from_self and args_from_param:
                bad.append(short)
        # ... and does not fold it into the old value (`self.offset += offset`, `Self { offset: self.offset + offset, .. }`): a field
        # of the command computed by arithmetic from that same field and the parameter makes the setter an accumulator — the request
        # then carries the sum of all calls
        def fields_of(place):
            return [e.get("n") or e.get("f") for e in place["p"] if isinstance(e, dict) and "f" in e]

        def reads_field(local_or_place, fld, depth=4):
            """does this operand (a place, or a local through copies) read field `fld` of self?"""
            pl = local_or_place
            if pl["l"] == 1 and fields_of(pl) == fld:
                return True
            if pl["p"] or depth <= 0:
                return False
            for _, _, s3 in b.stmts():
                if s3["k"] == "assign" and s3["place"]["l"] == pl["l"] and not s3["place"]["p"] and s3["rv"]["k"] == "use":
                    o3 = s3["rv"]["op"]
                    p3 = (o3.get("copy") or o3.get("move")) if isinstance(o3, dict) else None
                    if p3 is not None and reads_field(p3, fld, depth - 1):
                        return True
            return False

        targets = []        # (field name, local holding the new value)
        for bb, i, st in b.stmts():
            if st["k"] != "assign":
                continue
            if st["place"]["l"] == 1 and st["place"]["p"] and st["rv"]["k"] in ("use", "binop"):
                for k2 in ("op", "a", "b"):
                    o = st["rv"].get(k2)
                    pl = (o.get("copy") or o.get("move")) if isinstance(o, dict) else None
                    if pl is not None and pl["l"] != 1:
                        targets.append((fields_of(st["place"]), pl["l"]))
            if st["rv"]["k"] == "agg" and st["rv"].get("agg") == "adt" and "mpd_client::commands::definitions::" in norm(st["rv"].get("adt_name") or ""):
                for fname, o in zip(st["rv"].get("fields") or [], st["rv"]["ops"]):
                    pl = (o.get("copy") or o.get("move")) if isinstance(o, dict) else None
                    if pl is not None and pl["l"] != 1:
                        targets.append(([fname], pl["l"]))
        for fld, vl in targets:
            _, seen = fl.sources([vl], through_call=None, follow_mut=False)
            for _, _, s2 in b.stmts():
                if s2["k"] != "assign" or s2["place"]["l"] not in seen or s2["rv"]["k"] != "binop" or s2["rv"]["op"].split("With")[0] not in ("Add", "Sub", "Mul", "BitOr", "BitXor"):
                    continue
                ops2 = []
                for k2 in ("a", "b"):
                    o = s2["rv"].get(k2)
                    pl = (o.get("copy") or o.get("move")) if isinstance(o, dict) else None
                    if pl is not None:
                        ops2.append(pl)
                old = any(reads_field(pl, fld) for pl in ops2)
                par = False
                for pl in ops2:
                    lv, _ = fl.sources([pl["l"]], through_call=None, follow_mut=False)
                    if any(x[0] == "param" and x[1] >= 2 for x in lv):
                        par = True
                if old and par and ("accumulate into `%s`" % ".".join(str(x) for x in fld)) not in bad:
                    bad.append("accumulate into `%s`" % ".".join(str(x) for x in fld))
        rep.check(not bad, rule, "%s/%s stores its parameter" % (cfg, nm.rsplit("::", 2)[-2] + "::" + nm.rsplit("::", 1)[-1]), b.loc(b.span),
                  "%s hands its parameter to `%s` on a field of the command: a value set earlier is kept and the new one dropped, so the request is "
                  "rendered with a parameter other than the one last given" % (nm, ", ".join(bad)))
    rep.floor(rule, cfg + "/by-value setters", n, 15)


def choke_rule(rep, prog, cfg, separator_only=False):
    rule = "C15.choke"
    aa = body_by_name(prog, "mpd_protocol::command::Command::add_argument")
    if len(aa) != 1:
        rep.fail(rule + ".anchor", cfg, "command.rs", "Command::add_argument not found")
        return
    b = aa[0]
    g = Cfg(b)
    sp = [(bb, t) for bb, t in b.calls() if "bytes::buf::buf_mut::BufMut::put_u8" in callee_names(t)]
    rd = [(bb, t) for bb, t in b.calls() if "mpd_protocol::command::Argument::render" in callee_names(t)]
    ok = len(sp) == 1 and len(rd) == 1 and const_int(op_const(sp[0][1]["args"][1])) == 32 and g.dom(sp[0][0], rd[0][0])
    if not ok and len(sp) == 1 and len(rd) == 1 and const_int(op_const(sp[0][1]["args"][1])) == 32:
        # render-validate-append form: the argument is rendered into a scratch buffer first; the one space is written right
        # before the scratch buffer is appended to the command (details: C07.arg-lf)
        apps = [bb for bb, t in b.calls() if any(n in ("bytes::bytes_mut::BytesMut::extend_from_slice", "bytes::buf::buf_mut::BufMut::put_slice",
                                                       "bytes::buf::buf_mut::BufMut::put", "bytes::bytes_mut::BytesMut::unsplit") for n in callee_names(t))]
        ok = len(apps) == 1 and g.dom(rd[0][0], sp[0][0]) and g.dom(sp[0][0], apps[0])
    rep.check(ok, rule, cfg + "/one separator before each argument", b.loc(b.span),
              "add_argument does not write exactly one space (0x20) before the rendered argument: a parameter would not occupy exactly one argument slot")
    # textual impls go through the single escaping routine: covered by C15.render (slice(escape_argument(self)))
    if not separator_only:
        quote_trigger_rule(rep, prog, cfg)


WS_SETS = {"core::char::methods::<impl char>::is_whitespace": {0x20, 0x09, 0x0A, 0x0B, 0x0C, 0x0D, 0x85, 0xA0},
           "core::char::methods::<impl char>::is_ascii_whitespace": {0x20, 0x09, 0x0A, 0x0C, 0x0D}}


def _pattern_chars(prog, t):
    """characters of a `str::contains` pattern term: char constant, constant char array / slice, known predicate"""
    t = terms.canon(t)
    while isinstance(t, tuple) and t[0] == "call" and t[1] and t[1].rsplit("::", 1)[-1] in ("index", "as_slice", "as_ref", "deref", "borrow") and t[2]:
        t = terms.canon(t[2][0])
    if t[0] == "const":
        v = t[1]
        if isinstance(v, int):
            return {v}
        if isinstance(v, str):
            for name, cs in WS_SETS.items():
                if norm(v) == name:
                    return set(cs)
            if len(v) >= 3 and v[0] == "'" and v[-1] == "'":
                from ..facts import parse_rust_literal
                try:
                    ch = parse_rust_literal('"' + v[1:-1].replace('"', '\\"') + '"')
                    if isinstance(ch, (bytes, str)) and len(ch) >= 1:
                        return {ord(ch.decode() if isinstance(ch, bytes) else ch)}
                except Exception:
                    return None
        return None
    if t[0] == "agg" and t[1] == "array":
        out = set()
        for o in t[3]:
            cs = _pattern_chars(prog, o)
            if cs is None:
                return None
            out |= cs
        return out
    return None


def quote_trigger_rule(rep, prog, cfg):
    """A parameter containing a blank or a tab is split by MPD's tokenizer unless the argument is quoted: the quoting
    decision of the escaping routine must be a whole-argument membership test whose character set includes both."""
    rule = "C15.choke"
    bs = body_by_name(prog, "mpd_protocol::command::escape_argument")
    if len(bs) != 1:
        rep.fail(rule + ".anchor", cfg + "/escape_argument", "command.rs", "the escaping routine was not found")
        return
    b = bs[0]
    quote_push = [bb for bb, t in b.calls() if any(n.endswith("String::push") for n in callee_names(t)) and len(t["args"]) == 2
                  and op_const(t["args"][1]) is not None and op_const(t["args"][1]).get("c") in ("'\"'", "'\\\"'")]
    switches = set()
    for bb in b.reachable():
        t = b.blocks[bb]["t"]
        if t["k"] == "switch" and op_local(t["discr"]) is not None:
            switches.add(op_local(t["discr"]))
    fl = Flow(b)
    triggers = []
    for bb, t in b.calls():
        if not any(n.endswith("str>::contains") or n.endswith("::str::contains") for n in callee_names(t)) or len(t["args"]) != 2 or t.get("dest") is None:
            continue
        pl = op_local(t["args"][1])
        cs = _pattern_chars(prog, terms.term_of_local(b, pl)) if pl is not None else _pattern_chars(prog, terms.eval_op({}, None, t["args"][1]))
        derived, _uses = fl.forward([t["dest"]["l"]])
        controls = bool(set(derived) & switches)
        triggers.append({"bb": bb, "chars": sorted(cs) if cs is not None else None, "controls_branch": controls})
    good = [x for x in triggers if x["chars"] is not None and {0x20, 0x09} <= set(x["chars"]) and x["controls_branch"]]
    if not good and quote_push:
        # loop form: `for c in argument.chars() { if <c is a separator> { needs_quotes = true } .. }` — the flag is the boolean
        # local whose true edge leads to the push of the quote; the trigger set is computed exactly (A5, loop-body mode)
        from .. import charset
        IT_NEXT = "core::iter::traits::iterator::Iterator::next"
        g = Cfg(b)
        flags = set()
        for bb in sorted(b.reachable()):
            t = b.blocks[bb]["t"]
            if t["k"] != "switch" or op_local(t["discr"]) is None:
                continue
            zero = [x for v, x in t["targets"] if v == 0]
            if not zero:
                continue
            true_side = tables.exclusive(b, t["otherwise"], zero)
            if any(q in true_side for q in quote_push):
                l = op_local(t["discr"])
                for _ in range(4):
                    defs = [s2 for _, _, s2 in b.stmts() if s2["k"] == "assign" and s2["place"]["l"] == l and not s2["place"]["p"]]
                    if len(defs) == 1 and defs[0]["rv"]["k"] == "use" and op_local(defs[0]["rv"]["op"]) is not None:
                        l = op_local(defs[0]["rv"]["op"])
                    else:
                        break
                flags.add(l)
        for hbb, ht in [(bb, t) for bb, t in b.calls() if IT_NEXT in callee_names(t)]:
            if ht.get("dest") is None or ht["dest"]["p"]:
                continue
            opt = ht["dest"]["l"]
            sw = [x for x in tables.discr_switches(b) if x["place"]["l"] == opt and not x["place"]["p"]]
            if len(sw) != 1:
                continue
            some_bb = sw[0]["arms"].get("Some", sw[0]["otherwise"])
            if hbb not in g.reach([some_bb]):
                continue
            for fl_ in flags:
                try:
                    hit, width, ncells = charset.loop_flag_set(prog, b, some_bb, hbb, opt, fl_)
                except charset.Opaque:
                    continue
                chars = {c for lo, hi in hit for c in range(lo, min(hi, 0x7F) + 1)}
                tr = {"bb": hbb, "chars": sorted(chars), "controls_branch": True, "form": "loop"}
                triggers.append(tr)
                if {0x20, 0x09} <= chars:
                    good.append(tr)
    if not (good and quote_push):
        # the quoting decision is not written in one of the forms above: ask the transducer of the routine (A15) directly —
        # an argument consisting of blanks, and one consisting of tabs, must come out in double quotes
        try:
            from .. import strenc
            from .C06 import representatives
            cells, reps, _np, _ng = representatives(prog, b)
            picks = {cls: pick for nm, cls, pick in reps}
            verdicts = {}
            for cls in ("BLANK", "TAB"):
                res = strenc.transducer(prog, b, [picks[cls]], cells)
                verdicts[cls] = [it[1] for it in res.prefix] == [0x22] and [it[1] for it in res.suffix] == [0x22]
            if all(verdicts.values()):
                rep.ok(rule, cfg + "/blank and tab force quoting", detail={"decided_by": "A15 transducer", "quoted": verdicts})
                return
            triggers.append({"A15": verdicts})
        except Exception as e:      # EncOpaque, missing class: fall through to the idiom verdict
            triggers.append({"A15": "not analysable: %s" % (e,)})
    rep.check(bool(good) and bool(quote_push), rule, cfg + "/blank and tab force quoting", b.loc(b.span),
              "the escaping routine has no recognised quoting decision covering both separators: expected `argument.contains(<constant set including ' ' and '\\t'>)` "
              "controlling the push of '\"'; found membership tests %s and %d quote pushes (a parameter with the missing separator would arrive as two arguments)"
              % (triggers, len(quote_push)), detail={"triggers": triggers, "quote_pushes": len(quote_push)})


def run(rep, progs, tier):
    rep.explanation = (
        "Rule-based static analysis (no execution). A8: every path of every <T as Command>::command body "
        "(58 impls) is enumerated by abstract interpretation of the command value (word from the constant "
        "given to RawCommand::new, then each argument/add_argument event with the literal or the field of "
        "the command it derives from, sliced field-sensitively inside that path); the set of shapes per "
        "command is compared with a table reviewed against the MPD protocol reference. The same for every "
        "Argument::render impl (ordered write events with format template and operands). Variant->literal "
        "tables of SingleMode, ReplayGainMode, sticker operators and bool; no overflow-checked arithmetic on "
        "the construction/rendering path, range bounds normalised by saturating_add(1) on the excluded start "
        "and included end; one 0x20 separator per argument. NOT decided: millisecond rounding, clamp "
        "values beyond the constant shown in the shape, byte-level fidelity of strings (C06).")
    rep.rule("C15.shape", "per command: word, keywords, argument count/order/provenance on every path = reviewed MPD table")
    rep.rule("C15.render", "per Argument impl: ordered write events = reviewed table")
    rep.rule("C15.enums", "variant -> literal tables of SingleMode / ReplayGainMode / sticker operators / bool")
    rep.rule("C15.no-overflow", "no arithmetic Assert on the command path; saturating +1 on excluded start / included end")
    rep.rule("C15.range-norm", "per bound variant the normalised term is x / sat(x+1) / 0 / Some / None as START:END needs; start,end order kept")
    rep.rule("C15.choke", "one separator per argument")
    rep.trusted = ["rustc MIR construction", "mpdfacts exporter", "MPD protocol command reference (reviewed table)", "rustc's format template encoding"]
    for cfg, prog in progs.items():
        shape_rule(rep, prog, cfg)
        builder_rule(rep, prog, cfg)
        setter_rule(rep, prog, cfg)
        render_rule(rep, prog, cfg)
        enums_rule(rep, prog, cfg)
        overflow_rule(rep, prog, cfg)
        range_norm_rule(rep, prog, cfg)
        range_owner_rule(rep, prog, cfg)
        choke_rule(rep, prog, cfg)
