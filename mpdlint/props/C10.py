"""C10 — end of stream is clean only on a response boundary (DESIGN.md §4/C10)."""
from .. import tables
from ..callgraph import norm
from ..cfg import Cfg, reach
from ..common import (body_by_name, callee_names, family, last_named_field, logic_body, logic_or_inlined, ref_field_of_local,
                      switch_atom)
from ..facts import callee, const_int, op_const, op_local, op_place
from ..flow import Flow, identity_through

CONFIGS_QUICK = ["K1"]
CONFIGS_THOROUGH = ["K1", "K3"]
LEVEL = ("guard/polarity decision on the CFG: the classification rule (clean EOF iff no frame in progress "
         "and zero unconsumed bytes) is decided for every path from the zero-read edge in both receive "
         "flavours and both connects")
TECHNIQUE = "static analysis: CFG guard/polarity rule with provenance of the tested facts (MIR)"

PARSE = "mpd_protocol::response::ResponseBuilder::parse"
INPROG = "mpd_protocol::response::ResponseBuilder::is_frame_in_progress"
READS_EXT = {"tokio::io::util::async_read_ext::AsyncReadExt::read_buf", "std::io::Read::read",
             "tokio::io::util::async_read_ext::AsyncReadExt::read"}


class _Reads:
    """`n in READS`: a transport read, or a workspace function of the protocol crate that wraps one
    (found by what it calls, not by its name)."""

    def __init__(self):
        self.cache = {}
        self.prog = None

    def bind(self, prog):
        self.prog = prog
        if id(prog) not in self.cache:
            names = set(READS_EXT)
            for b in prog.bodies.values():
                if b.crate != "mpd_protocol" or b.kind not in ("Fn", "AssocFn"):
                    continue
                n = norm(b.name)
                if n.rsplit("::", 1)[-1] in ("connect", "receive", "command", "command_list", "send", "send_list"):
                    continue        # the connection operations themselves are not "a read"
                for bb, t in b.calls():
                    if any(x in READS_EXT for x in callee_names(t)):
                        names.add(n)
            self.cache[id(prog)] = names
        return self

    def __contains__(self, n):
        return n in self.cache.get(id(self.prog), READS_EXT)

    def __iter__(self):
        return iter(self.cache.get(id(self.prog), READS_EXT))


READS = _Reads()
GREETING = "mpd_protocol::parser::greeting"


def zero_read_switch(body, fl):
    """switch blocks testing `<value derived from the read call> ==/!= 0`: [(atom, zero_target)]"""
    out = []
    for bb in sorted(body.reachable()):
        a = switch_atom(body, bb)
        if a is None or a["kind"] != "cmp" or a["op"] not in ("Eq", "Ne"):
            continue
        k = const_int(op_const(a["rhs"]))
        x = a["lhs"]
        if k is None:
            k = const_int(op_const(a["lhs"]))
            x = a["rhs"]
        if k != 0:
            continue
        l = op_local(x)
        if l is None:
            p = op_place(x)
            l = p["l"] if p else None
        if l is None:
            continue
        leaves, _ = fl.sources([l], through_call=identity_through, follow_mut=False)
        from_read = False
        for leaf in leaves:
            if leaf[0] == "call" and any(n in READS for n in callee_names(body.blocks[leaf[1]]["t"])):
                from_read = True
        if from_read:
            zero = a["true"] if a["op"] == "Eq" else a["false"]
            a = dict(a, manufactured=sorted(str(x[1]) for x in leaves if x[0] == "const"))
            out.append((a, zero))
    return out


_EOF_CTOR = {}


def eof_error_blocks(body):
    """Blocks calling io::Error::new(ErrorKind::UnexpectedEof, ..)."""
    out = set()
    for bb, t in body.calls():
        if "std::io::error::Error::new" in callee_names(t) and t["args"]:
            c = op_const(t["args"][0])
            txt = c["c"] if c else ""
            if c is None:
                l = op_local(t["args"][0])
                for bb2, i2, s2 in body.stmts():
                    if s2["k"] == "assign" and s2["place"]["l"] == l and s2["rv"]["k"] == "agg":
                        txt = s2["rv"].get("variant", "")
                    if s2["k"] == "assign" and s2["place"]["l"] == l and s2["rv"]["k"] == "use" and op_const(s2["rv"]["op"]):
                        txt = op_const(s2["rv"]["op"])["c"]
            if "UnexpectedEof" in txt:
                out.add(bb)
    # ... or calling a private helper of the crate that does nothing but build that error (`fn unexpected_eof(msg) -> ..Error`)
    prog = body.prog
    for bb, t in body.calls():
        f = callee(t)
        hb = prog.bodies.get((f or {}).get("inst") or (f or {}).get("def")) if f else None
        if hb is None or hb is body or hb.crate != body.crate or hb.raw.get("pub") or hb.raw.get("exported") or hb.kind not in ("Fn", "AssocFn"):
            continue
        key = (id(prog), hb.id)
        if key not in _EOF_CTOR:
            g = Cfg(hb)
            rets = [x for x in hb.reachable() if hb.blocks[x]["t"]["k"] == "return"]
            inner = eof_error_blocks_local(hb)
            # every way through the helper builds the error, there is no loop, and nothing else of the crate is called
            _EOF_CTOR[key] = bool(inner) and not g.loops and all(not (set(rets) & reach(g.succs, [0], avoid=list(inner))) for _ in (0,)) and \
                ("Error" in hb.local_ty(0)) and not any((callee(t2) or {}).get("def", "").startswith(hb.crate + "::") for _, t2 in hb.calls())
        if _EOF_CTOR[key]:
            out.add(bb)
    return out


def eof_error_blocks_local(body):
    out = set()
    for bb, t in body.calls():
        if "std::io::error::Error::new" in callee_names(t) and t["args"]:
            c = op_const(t["args"][0])
            txt = c["c"] if c else ""
            if c is None:
                l = op_local(t["args"][0])
                for bb2, i2, s2 in body.stmts():
                    if s2["k"] == "assign" and s2["place"]["l"] == l and s2["rv"]["k"] == "agg":
                        txt = s2["rv"].get("variant", "")
                    if s2["k"] == "assign" and s2["place"]["l"] == l and s2["rv"]["k"] == "use" and op_const(s2["rv"]["op"]):
                        txt = op_const(s2["rv"]["op"])["c"]
            if "UnexpectedEof" in txt:
                out.add(bb)
    return out


def ok_none_blocks(body):
    """Blocks that build `Ok(None)` (clean end)."""
    none_locals = set()
    for bb, i, s in body.stmts():
        if s["k"] == "assign" and s["rv"]["k"] == "agg" and s["rv"].get("variant") == "None" and not s["place"]["p"]:
            none_locals.add(s["place"]["l"])
    out = set()
    for bb, i, s in body.stmts():
        if s["k"] == "assign" and s["rv"]["k"] == "agg" and s["rv"].get("variant") == "Ok" \
                and s["rv"].get("adt_name", "").endswith("result::Result") and s["rv"]["ops"]:
            l = op_local(s["rv"]["ops"][0])
            if l in none_locals:
                out.add(bb)
    return out


def ok_blocks(body):
    out = set()
    for bb, i, s in body.stmts():
        if s["k"] == "assign" and s["rv"]["k"] == "agg" and s["rv"].get("variant") == "Ok" \
                and s["rv"].get("adt_name", "").endswith("result::Result"):
            out.add(bb)
    return out


def buffer_field_of_parse(body):
    """Name of the connection field handed to ResponseBuilder::parse in this body."""
    for bb, t in body.calls():
        if PARSE in callee_names(t) and len(t["args"]) >= 2:
            return ref_field_of_local(body, op_local(t["args"][1]))
    return None


def written_fields(body):
    """Connection fields assigned, or passed by `&mut`, in this body."""
    out = set()
    for bb, i, s in body.stmts():
        if s["k"] == "assign":
            if s["place"]["p"]:
                n = last_named_field(s["place"])
                if n:
                    out.add(n)
            if s["rv"]["k"] == "ref" and s["rv"]["mut"]:
                n = last_named_field(s["rv"]["place"])
                if n:
                    out.add(n)
    return out


def byte_count_operand(body, x, buf_field, written):
    """x is the number of unconsumed bytes: a field of the connection that this function keeps up to date
    (and that is not the buffer itself), or len() of the buffer it parses from."""
    ok = False
    p = op_place(x)
    l = p["l"] if p is not None else None
    if p is not None and p["p"]:
        f = last_named_field(p)
        ok = f is not None and f in written and f != buf_field
    elif l is not None:
        for _ in range(4):          # through plain copies (a named local, the component of a matched tuple)
            d = [s for bb, i, s in body.stmts() if s["k"] == "assign" and s["place"]["l"] == l and not s["place"]["p"]]
            if len(d) == 1 and d[0]["rv"]["k"] == "use" and op_local(d[0]["rv"]["op"]) is not None and not (op_place(d[0]["rv"]["op"]) or {}).get("p") \
                    and not any(t2["dest"]["l"] == l for _, t2 in body.calls() if t2.get("dest") is not None):
                l = op_local(d[0]["rv"]["op"])
                continue
            break
        for bb, i, s in body.stmts():
            if s["k"] == "assign" and s["place"]["l"] == l and not s["place"]["p"] and s["rv"]["k"] == "use":
                p2 = op_place(s["rv"]["op"])
                if p2 is not None and p2["p"]:
                    f = last_named_field(p2)
                    if f is not None and f in written and f != buf_field:
                        ok = True
        for bb, t in body.calls():
            if t["dest"]["l"] == l and any(nm == "bytes::bytes_mut::BytesMut::len" for nm in callee_names(t)):
                if ref_field_of_local(body, op_local(t["args"][0])) == buf_field:
                    ok = True
    return ok


def byte_fact(body, atom, buf_field, written, param_ok=None):
    """Does this switch test 'unconsumed bytes == 0'?  Returns the target taken when there are
    ZERO unconsumed bytes, or None if the atom is not such a test."""
    if atom["kind"] == "call":
        n = atom["names"]
        if any(x.endswith("::is_empty") for x in n) and atom["args"]:
            f = ref_field_of_local(body, op_local(atom["args"][0]))
            if f is not None and f == buf_field:
                return atom["true"]
        return None
    if atom["kind"] == "cmp":
        k = const_int(op_const(atom["rhs"]))
        x = atom["lhs"]
        op = atom["op"]
        if k is None:
            k = const_int(op_const(atom["lhs"]))
            x = atom["rhs"]
            op = {"Lt": "Gt", "Gt": "Lt", "Le": "Ge", "Ge": "Le"}.get(op, op)
        if k is None:
            return None
        ok = byte_count_operand(body, x, buf_field, written)
        if not ok and param_ok is not None:
            l = op_local(x)
            # a parameter of a helper (possibly copied into a temporary): decided by what the caller passes
            for _ in range(4):
                if l is None or 1 <= l <= body.mir["argc"]:
                    break
                defs = [s2 for _, _, s2 in body.stmts() if s2["k"] == "assign" and s2["place"]["l"] == l and not s2["place"]["p"]]
                l = op_local(defs[0]["rv"]["op"]) if len(defs) == 1 and defs[0]["rv"]["k"] == "use" else None
            if l is not None and 1 <= l <= body.mir["argc"]:
                ok = param_ok(l)
        if not ok:
            return None
        if k == 0:
            return {"Eq": atom["true"], "Ne": atom["false"], "Gt": atom["false"], "Le": atom["true"]}.get(op)
        if k == 1:
            return {"Lt": atom["true"], "Ge": atom["false"]}.get(op)
        return None
    return None


def receive_rule(rep, prog, cfg, fn, flavour):
    rule = "C10.guard"
    b = logic_or_inlined(prog, fn, {PARSE})
    if b is None:
        rep.fail(rule + ".anchor", "%s/%s" % (cfg, flavour), fn, "no body of %s calls ResponseBuilder::parse" % fn)
        return
    fl = Flow(b)
    g = Cfg(b)
    zs = zero_read_switch(b, fl)
    if len(zs) != 1:
        rep.fail(rule, "%s/%s zero-read test" % (cfg, flavour), b.loc(b.span),
                 "expected exactly one test of the read result against 0 in %s, found %d (a 0-byte read must be classified)" % (fn, len(zs)))
        return
    atom, zero_t = zs[0]
    # the count that is classified is the read's own result: a 0 put there by the code (e.g. for a reset or a timeout reported
    # by the transport as an error) would turn a transport failure into "end of stream", possibly a clean one
    rep.check(not atom.get("manufactured"), rule, "%s/%s classified count is the read result" % (cfg, flavour), b.loc(b.blocks[atom["bb"]]["ts"]),
              "the value tested against 0 after the read can also be the constant %s assigned by %s itself: a read error folded into a "
              "0-byte read is reported as an end of stream (clean on a response boundary) instead of the transport's error" % (atom.get("manufactured"), fn))
    helper_count_rule(rep, prog, cfg, flavour, b, rule)
    region = g.reach([zero_t])
    clean = ok_none_blocks(b) & region
    if not clean:
        # the classification may live in a helper the zero-read edge calls and whose result it returns
        if helper_rule(rep, prog, cfg, flavour, b, g, fl, zero_t, region):
            deliver_first(rep, cfg, flavour, b, g)
            return
    if len(clean) != 1:
        rep.fail(rule, "%s/%s clean-EOF return" % (cfg, flavour), b.loc(b.blocks[atom["bb"]]["ts"]),
                 "expected exactly one Ok(None) construction after a 0-byte read, found %d" % len(clean))
        return
    C = next(iter(clean))
    buf_field = buffer_field_of_parse(b)
    written = written_fields(b)
    in_prog_ok = bytes_ok = False
    atoms_seen = []
    for bb in sorted(region):
        a = switch_atom(b, bb)
        if a is None:
            continue
        if a["kind"] == "call" and INPROG in a["names"]:
            atoms_seen.append("is_frame_in_progress")
            # C reachable only through the false edge
            if C not in reach(g.succs, [zero_t], avoid_edges=[(a["bb"], a["false"])]) and C not in reach(g.succs, [a["true"]], avoid=[a["bb"]]):
                in_prog_ok = True
            continue
        z = byte_fact(b, a, buf_field, written)
        if z is not None:
            atoms_seen.append("unconsumed-bytes")
            nz = a["false"] if z == a["true"] else a["true"]
            if C not in reach(g.succs, [zero_t], avoid_edges=[(a["bb"], z)]) and C not in reach(g.succs, [nz], avoid=[a["bb"]]):
                bytes_ok = True
    if not (in_prog_ok and bytes_ok):
        # the guard may be written as a boolean value (`let clean = !in_progress && buf.is_empty()`) instead of nested
        # branches: decide it by evaluating the boolean locals under each assignment of the two facts (A14)
        from ..cfg import BoolReach

        def atom_of(kind, bb, obj):
            if kind == "call":
                ns = callee_names(obj)
                if INPROG in ns:
                    return ("P", False)
                if any(x.endswith("::is_empty") for x in ns) and obj["args"] and ref_field_of_local(b, op_local(obj["args"][0])) == buf_field:
                    return ("E", False)
                return None
            rv = obj["rv"]
            z = byte_fact(b, {"kind": "cmp", "op": rv["op"], "lhs": rv["a"], "rhs": rv["b"], "true": "T", "false": "F", "bb": bb}, buf_field, written)
            if z is None:
                return None
            return ("E", z == "F")
        br = BoolReach(b, atom_of)
        # the facts are computed after the read returned 0: evaluate from the zero-read edge
        reach_c = {(p_, e_): C in br.blocks(zero_t, {"P": p_, "E": e_}) for p_ in (False, True) for e_ in (False, True)}
        if reach_c[(False, True)] and not reach_c[(True, True)] and not reach_c[(True, False)] and not reach_c[(False, False)]:
            in_prog_ok = bytes_ok = True
            atoms_seen.append("boolean form: Ok(None) reachable exactly when !in_progress && no unconsumed bytes")
        else:
            if not (reach_c[(True, True)] or reach_c[(True, False)]):
                in_prog_ok = True
            if not (reach_c[(False, False)] or reach_c[(True, False)]):
                bytes_ok = True
    where = b.loc(b.blocks[C]["s"][0]["span"]) if b.blocks[C]["s"] else b.loc(b.span)
    rep.check(in_prog_ok, rule, "%s/%s frame-in-progress disjunct" % (cfg, flavour), where,
              "after a 0-byte read, Ok(None) (clean close) is reachable without passing the false side of "
              "ResponseBuilder::is_frame_in_progress(): an EOF after complete lines of a response would be clean",
              detail={"atoms": atoms_seen})
    rep.check(bytes_ok, rule, "%s/%s unconsumed-bytes disjunct" % (cfg, flavour), where,
              "after a 0-byte read, Ok(None) (clean close) is reachable without passing the 'zero unconsumed bytes' side of a test "
              "on the receive buffer this function parses from (%s) / the byte count it maintains: an EOF inside a partial line would be clean"
              % buf_field, detail={"atoms": atoms_seen, "buffer": buf_field})
    # every other way out of the zero-read region is an UnexpectedEof error
    eofs = eof_error_blocks(b)
    other = reach(g.succs, [zero_t], avoid=list(eofs) + [C])
    leaks = [x for x in other if b.blocks[x]["t"]["k"] == "return"]
    rep.check(not leaks and bool(eofs & region), rule, "%s/%s otherwise UnexpectedEof" % (cfg, flavour), where,
              "after a 0-byte read there is a way to return that is neither the clean Ok(None) nor an io::Error of kind UnexpectedEof")
    deliver_first(rep, cfg, flavour, b, g)


def helper_count_rule(rep, prog, cfg, flavour, b, rule):
    """The read helper's result is the transport's own answer: the value it returns derives from the transport read (through
    `?`), never from a constant put there for some error kind (`Interrupted => 0` makes the callers see an end of stream)."""
    for bb, t in b.calls():
        for n in callee_names(t):
            if n in READS and n not in READS_EXT:
                for hb in body_by_name(prog, n):
                    consts = set()
                    reads = False
                    for fb in family(prog, hb):
                        fl2 = Flow(fb)
                        leaves, _ = fl2.sources([0], through_call=identity_through, follow_mut=False)
                        for leaf in leaves:
                            if leaf[0] == "const" and str(leaf[1]).rstrip("_usize").isdigit():
                                consts.add(str(leaf[1]))
                            if leaf[0] == "call" and any(x in READS_EXT for x in callee_names(fb.blocks[leaf[1]]["t"])):
                                reads = True
                    rep.check(reads and not consts, rule, "%s/%s %s returns the transport's count" % (cfg, flavour, n.rsplit("::", 1)[-1]), hb.loc(hb.span),
                              "the read helper %s can return a count that is the constant %s rather than what the transport reported (or its result does "
                              "not derive from the transport read): its callers classify 0 as the end of the stream" % (n, sorted(consts)))


def deliver_first(rep, cfg, flavour, b, g):
    # C10.deliver-first: parse dominates the read
    pb = [bb for bb, t in b.calls() if PARSE in callee_names(t)]
    rb = [bb for bb, t in b.calls() if any(n in READS for n in callee_names(t))]
    rep.check(pb and rb and all(g.dom(pb[0], r) for r in rb), "C10.deliver-first", "%s/%s" % (cfg, flavour), b.loc(b.span),
              "the parse attempt on buffered bytes does not dominate the read: complete responses already buffered may not be delivered before EOF is observed")


def helper_rule(rep, prog, cfg, flavour, b, g, fl, zero_t, region):
    """EOF classification extracted into a helper: `break helper(&self, builder.is_frame_in_progress())`.
    Decides the same guard rule inside the helper, with the *caller's* buffer / maintained counters."""
    rule = "C10.guard"
    cands = []
    for bb in sorted(region):
        t = b.blocks[bb]["t"]
        if t["k"] != "call":
            continue
        f = callee(t)
        tid = (f.get("inst") or f["def"]) if f else None
        if tid in prog.bodies and prog.bodies[tid].crate == "mpd_protocol" and "Result<" in prog.bodies[tid].local_ty(0):
            cands.append((bb, t, prog.bodies[tid]))
    if len(cands) != 1:
        return False
    cbb, ct, H = cands[0]
    # which arguments carry the frame-in-progress fact
    inprog_params = set()
    for i, a in enumerate(ct["args"]):
        l = op_local(a)
        if l is None:
            continue
        leaves, _ = fl.sources([l], through_call=identity_through, follow_mut=False)
        if any(x[0] == "call" and INPROG in callee_names(b.blocks[x[1]]["t"]) for x in leaves):
            inprog_params.add(i + 1)
    # the helper's result is what the caller returns from the zero-read region
    leaves, _ = fl.sources([0], through_call=identity_through, follow_mut=False)
    if ("call", cbb) not in leaves:
        return False
    Hl = logic_body(prog, norm(H.name), set()) or H
    hb = H
    # the body that holds the logic (tracing::instrument may nest it)
    from ..common import family
    for fb in family(prog, H):
        if ok_none_blocks(fb):
            hb = fb
    hg = Cfg(hb)
    clean = ok_none_blocks(hb)
    if len(clean) != 1:
        rep.fail(rule, "%s/%s helper clean-EOF return" % (cfg, flavour), hb.loc(hb.span),
                 "the EOF helper %s does not build exactly one Ok(None)" % norm(H.name))
        return True
    C = next(iter(clean))
    buf_field = buffer_field_of_parse(b)
    written = written_fields(b) | written_fields(hb)
    in_prog_ok = bytes_ok = False
    for bb in sorted(hb.reachable()):
        a = switch_atom(hb, bb)
        if a is None:
            continue
        if (a["kind"] == "param" and a["param"] in inprog_params) or (a["kind"] == "call" and INPROG in a["names"]):
            if C not in reach(hg.succs, [0], avoid_edges=[(a["bb"], a["false"])]) and C not in reach(hg.succs, [a["true"]], avoid=[a["bb"]]):
                in_prog_ok = True
            continue
        def param_ok(k, _ct=ct):
            return k - 1 < len(_ct["args"]) and byte_count_operand(b, _ct["args"][k - 1], buf_field, written_fields(b))
        z = byte_fact(hb, a, buf_field, written_fields(b), param_ok)      # counters must be maintained by the *caller*
        if z is not None:
            nz = a["false"] if z == a["true"] else a["true"]
            if C not in reach(hg.succs, [0], avoid_edges=[(a["bb"], z)]) and C not in reach(hg.succs, [nz], avoid=[a["bb"]]):
                bytes_ok = True
    where = hb.loc(hb.span)
    rep.check(in_prog_ok, rule, "%s/%s frame-in-progress disjunct" % (cfg, flavour), where,
              "in the EOF helper %s, Ok(None) is reachable without passing the false side of the frame-in-progress fact handed over by %s receive" % (norm(H.name), flavour))
    rep.check(bytes_ok, rule, "%s/%s unconsumed-bytes disjunct" % (cfg, flavour), where,
              "in the EOF helper %s, Ok(None) is reachable without passing the 'zero unconsumed bytes' side of a test on the buffer the %s receive parses from (%s) "
              "or a byte count that this receive flavour itself maintains: an EOF inside a partial line would be clean" % (norm(H.name), flavour, buf_field))
    eofs = eof_error_blocks(hb)
    other = reach(hg.succs, [0], avoid=list(eofs) + [C])
    leaks = [x for x in other if hb.blocks[x]["t"]["k"] == "return"]
    rep.check(not leaks and bool(eofs), rule, "%s/%s otherwise UnexpectedEof" % (cfg, flavour), where,
              "the EOF helper can return something that is neither the clean Ok(None) nor an io::Error of kind UnexpectedEof")
    return True


def connect_rule(rep, prog, cfg, fn, flavour):
    rule = "C10.connect"
    from ..common import logic_or_inlined
    b = logic_or_inlined(prog, fn, {GREETING})       # the greeting parse may sit in a private helper (`parse_greeting`)
    if b is None:
        rep.fail(rule + ".anchor", "%s/%s" % (cfg, flavour), fn, "no body of %s calls parser::greeting" % fn)
        return
    fl = Flow(b)
    g = Cfg(b)
    zs = zero_read_switch(b, fl)
    if len(zs) != 1:
        rep.fail(rule, "%s/%s zero-read test" % (cfg, flavour), b.loc(b.span),
                 "expected exactly one test of the read result against 0 in %s, found %d" % (fn, len(zs)))
        return
    atom, zero_t = zs[0]
    rep.check(not atom.get("manufactured"), rule, "%s/%s classified count is the read result" % (cfg, flavour), b.loc(b.blocks[atom["bb"]]["ts"]),
              "the value tested against 0 after the read can also be the constant %s assigned by %s itself (a read error folded into a 0-byte read)"
              % (atom.get("manufactured"), fn))
    helper_count_rule(rep, prog, cfg, flavour + " connect", b, rule)
    eofs = eof_error_blocks(b)
    other = reach(g.succs, [zero_t], avoid=list(eofs))
    leaks = [x for x in other if b.blocks[x]["t"]["k"] == "return"]
    oks = ok_blocks(b) & g.reach([zero_t])
    # the greeting parse must not be attempted on the zero edge either (no way back into the loop)
    back = any(GREETING in callee_names(b.blocks[x]["t"]) for x in g.reach([zero_t]) if b.blocks[x]["t"]["k"] == "call")
    rep.check(not leaks and not oks and not back and bool(eofs), rule, "%s/%s EOF is UnexpectedEof" % (cfg, flavour),
              b.loc(b.blocks[atom["bb"]]["ts"]),
              "a stream ending before the greeting's line end does not always yield an io::Error of kind UnexpectedEof")


def in_progress_def(rep, prog, cfg):
    """is_frame_in_progress() is true for every builder state except the initial one."""
    rule = "C10.in-progress-def"
    bs = body_by_name(prog, INPROG)
    if len(bs) != 1:
        rep.fail(rule + ".anchor", cfg, INPROG, "function not found")
        return
    b = bs[0]
    # the question may be put to the state itself (`!self.state.is_initial()`): private helpers of the module are part of it
    from ..inline import inlined, module_private_helpers
    nb = inlined(prog, b, module_private_helpers(b), depth=2)
    b = nb if nb.raw.get("inlined") else b
    adt = None
    for a in prog.adts.values():
        if a["name"].endswith("response::ResponseState"):
            adt = a
    if adt is None:
        rep.fail(rule + ".anchor", cfg, "ResponseState", "the builder's state enum was not found (machine replaced: failing closed)")
        return
    variants = [v["name"] for v in adt["variants"]]
    result = {}
    how = None
    # form (a): PartialEq::ne / eq against the constant unit variant `Initial`, derived PartialEq
    for bb, t in b.calls():
        ns = callee_names(t)
        if "core::cmp::PartialEq::ne" in ns or "core::cmp::PartialEq::eq" in ns:
            consts = set()
            for a in t["args"]:
                l = op_local(a)
                for bb2, i2, s2 in b.stmts():
                    if s2["k"] == "assign" and s2["rv"]["k"] == "agg" and s2["rv"].get("adt_name", "").endswith("ResponseState"):
                        # reference to that temp?
                        if ref_or_same(b, l, s2["place"]["l"]):
                            consts.add(s2["rv"]["variant"])
            derived_eq = any(i["info"].get("self", "").endswith("response::ResponseState") and norm(i["info"].get("trait_name", "")) == "core::cmp::PartialEq"
                             and i["info"]["derived"] for i in prog.impls)
            if len(consts) == 1 and derived_eq and t["dest"]["l"] == 0:
                k = next(iter(consts))
                unit = not [v for v in adt["variants"] if v["name"] == k][0]["fields"]
                if unit:
                    ne = "core::cmp::PartialEq::ne" in ns
                    for v in variants:
                        result[v] = (v != k) if ne else (v == k)
                    how = "state %s %s" % ("!=" if ne else "==", k)
    if not result:
        # form (b): match on the discriminant yielding constants
        for sw in tables.discr_switches(b):
            if not sw["adt"].endswith("response::ResponseState"):
                continue
            targets = list(sw["arms"].values()) + [sw["otherwise"]]
            for v in variants:
                tb = sw["arms"].get(v, sw["otherwise"])
                vals = set()
                for bb in tables.exclusive(b, tb, [x for x in targets if x != tb]) or {tb}:
                    for s in b.blocks[bb]["s"]:
                        if s["k"] == "assign" and s["place"]["l"] == 0 and s["rv"]["k"] == "use":
                            c = op_const(s["rv"]["op"])
                            if c is not None and c["ty"] == "bool":
                                vals.add(bool(c.get("int")))
                if len(vals) == 1:
                    result[v] = next(iter(vals))
            how = "match on the state"
    if set(result) != set(variants):
        # form (c): any straight evaluation of boolean constants / negations behind a match on the state (`!matches!(..)`):
        # follow the one path each variant takes and evaluate the returned boolean
        result = {}
        sws = [sw for sw in tables.discr_switches(b) if sw["adt"].endswith("response::ResponseState")]
        by_bb = {sw["bb"]: sw for sw in sws}
        for v in variants if sws else []:
            env = {}
            bb = 0
            val = None
            for _ in range(200):
                blk = b.blocks[bb]
                for st in blk["s"]:
                    if st["k"] != "assign" or st["place"]["p"]:
                        continue
                    rv = st["rv"]
                    x = None
                    if rv["k"] == "use":
                        c = op_const(rv["op"])
                        if c is not None and c.get("ty") == "bool":
                            x = bool(c.get("int"))
                        elif op_local(rv["op"]) is not None:
                            x = env.get(op_local(rv["op"]))
                    elif rv["k"] == "unop" and rv["op"] == "Not" and op_local(rv["a"]) is not None and env.get(op_local(rv["a"])) is not None:
                        x = not env[op_local(rv["a"])]
                    if x is None:
                        env.pop(st["place"]["l"], None)
                    else:
                        env[st["place"]["l"]] = x
                t = blk["t"]
                if t["k"] == "return":
                    val = env.get(0)
                    break
                if bb in by_bb:
                    bb = by_bb[bb]["arms"].get(v, by_bb[bb]["otherwise"])
                elif t["k"] == "switch":
                    l = op_local(t["discr"])
                    if l is None or env.get(l) is None:
                        break
                    hit = [x2 for vv, x2 in t["targets"] if vv == (1 if env[l] else 0)]
                    bb = hit[0] if hit else t["otherwise"]
                elif t["k"] in ("goto", "drop") or (t["k"] == "call" and t.get("target") is not None):
                    if t["k"] == "call":
                        env.pop(t["dest"]["l"], None)
                    bb = t["target"]
                else:
                    break
            if val is not None:
                result[v] = val
        how = "evaluation per state"
    if set(result) != set(variants):
        rep.fail(rule, cfg + "/idiom", b.loc(b.span),
                 "cannot evaluate is_frame_in_progress() per builder state (unknown idiom: failing closed)")
        return
    for v in variants:
        exp = v != "Initial"
        rep.check(result[v] == exp, rule, "%s/%s" % (cfg, v), b.loc(b.span),
                  "is_frame_in_progress() is %s in builder state %s (%s): an EOF in that state %s"
                  % (result[v], v, how, "would be reported as a clean close although lines of a response were consumed" if exp else "would be an error on a response boundary"),
                  detail={"how": how, "value": result[v]})


def ref_or_same(body, local, target, depth=4):
    for _ in range(depth):
        if local == target:
            return True
        defs = [s for bb, i, s in body.stmts() if s["k"] == "assign" and s["place"]["l"] == local and not s["place"]["p"]]
        if len(defs) != 1:
            return False
        rv = defs[0]["rv"]
        if rv["k"] == "ref" and rv["place"]["p"] in ([], ["*"]):
            local = rv["place"]["l"]
        elif rv["k"] == "use" and op_local(rv["op"]) is not None:
            local = op_local(rv["op"])
        else:
            return False
    return local == target


def run(rep, progs, tier):
    rep.explanation = (
        "Rule-based static analysis (no execution). In each receive flavour the edge 'read returned 0 "
        "bytes' is located by provenance (a comparison with 0 of a value derived from the read call); "
        "from that edge the block that builds Ok(None) must be reachable only through the false side of "
        "a test of ResponseBuilder::is_frame_in_progress() AND through the 'zero bytes' side of a test "
        "on the very buffer this function parses from (or the byte count this function maintains); every "
        "other exit must build io::Error::new(UnexpectedEof); is_frame_in_progress() itself is evaluated "
        "per builder state; in each connect the zero-read edge reaches only UnexpectedEof; the parse "
        "attempt dominates the read. This decides the classification rule for all paths.")
    rep.rule("C10.guard", "Ok(None) after a 0-byte read is guarded by !frame_in_progress AND zero unconsumed bytes (right buffer, right polarity); else UnexpectedEof")
    rep.rule("C10.in-progress-def", "is_frame_in_progress() is true in every builder state except Initial")
    rep.rule("C10.connect", "0-byte read during the greeting always yields UnexpectedEof")
    rep.rule("C10.deliver-first", "parse on buffered bytes dominates the read")
    rep.rule("C10.segmentation", "imported from C02: only streaming combinators in the line parser")
    rep.trusted = ["rustc MIR construction", "mpdfacts exporter", "BytesMut::is_empty/len semantics", "Read::read / read_buf return 0 only at EOF"]
    for cfg, prog in progs.items():
        READS.bind(prog)
        receive_rule(rep, prog, cfg, "mpd_protocol::connection::Connection::receive", "blocking")
        connect_rule(rep, prog, cfg, "mpd_protocol::connection::Connection::connect", "blocking")
        if cfg != "K3":
            receive_rule(rep, prog, cfg, "mpd_protocol::connection::AsyncConnection::receive", "async")
            connect_rule(rep, prog, cfg, "mpd_protocol::connection::AsyncConnection::connect", "async")
        in_progress_def(rep, prog, cfg)
        # "every cut position": a cut just in front of a terminator must be 'need more' (then EOF => UnexpectedEof), which only
        # the streaming combinators give — a complete-input one reports the cut as a malformed message instead
        from .C02 import streaming_rule
        with rep.importing("C02.streaming", "C10.segmentation"):
            streaming_rule(rep, prog, cfg)
