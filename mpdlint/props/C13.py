"""C13 — command lists framed as one batch, typed replies pair positionally (DESIGN.md §4/C13)."""
from .. import tables
from ..callgraph import norm
from ..cfg import Cfg, reach
from ..common import body_by_name, callee_names, const_value_of, family, impl_methods, op_int, switch_atom
from ..facts import callee, const_int, const_str, op_const, op_local, op_place
from ..flow import Flow, identity_through
from ..inline import inlined, same_impl_helpers

CONFIGS_QUICK = ["K1"]
WITNESS_PREFIX = "C13"
CONFIGS_THOROUGH = ["K1", "K2"]
TECHNIQUE = "static analysis: positional provenance command i <-> frame i <-> output i in all tuple/Vec impls (MIR), CFG shape of list rendering"

CMD = "mpd_client::commands::Command::"
RAWLIST = "mpd_protocol::command::CommandList::"
NEXT = "core::iter::traits::iterator::Iterator::next"


def field_index_of(body, local, base=1, depth=4):
    """local = &(*_base).K / move _base.K  ->  K"""
    for _ in range(depth):
        defs = [s for bb, i, s in body.stmts() if s["k"] == "assign" and s["place"]["l"] == local and not s["place"]["p"]]
        if len(defs) != 1:
            return None
        rv = defs[0]["rv"]
        p = rv["place"] if rv["k"] == "ref" else op_place(rv["op"]) if rv["k"] == "use" else None
        if p is None:
            return None
        if p["l"] == base:
            fs = [e["f"] for e in p["p"] if isinstance(e, dict) and "f" in e]
            return fs[0] if len(fs) == 1 else None
        if p["p"] in ([], ["*"]):
            local = p["l"]
            continue
        return None
    return None


def dom_order(g, bbs):
    return sorted(bbs, key=lambda b: sum(1 for o in bbs if o != b and g.dom(o, b)))


def through(t, kind=None):
    r = identity_through(t, kind)
    if r is not None:
        return r
    return None


def tuple_rule(rep, prog, cfg):
    rule = "C13.tuple"
    n_impls = 0
    by_impl = {}
    for imp, b in impl_methods(prog, "commands::command_list::CommandList", "command_list"):
        by_impl.setdefault(imp["info"]["impl"], {})["command_list"] = (imp, b)
    for imp, b in impl_methods(prog, "commands::command_list::CommandList", "responses"):
        by_impl.setdefault(imp["info"]["impl"], {})["responses"] = (imp, b)
    for key, d in sorted(by_impl.items()):
        imp = (d.get("command_list") or d.get("responses"))[0]
        n = imp["info"].get("self_tuple_arity")
        if n is None:
            continue
        n_impls += 1
        tag = "%s/tuple%d" % (cfg, n)
        # ---- command_list ----
        if "command_list" not in d or "responses" not in d:
            rep.fail(rule, tag + " methods", imp["info"]["self"], "impl lacks command_list or responses")
            continue
        b = d["command_list"][1]
        g = Cfg(b)
        fl = Flow(b)
        cmd_calls = [(bb, t) for bb, t in b.calls() if CMD + "command" in callee_names(t)]
        order = dom_order(g, [bb for bb, t in cmd_calls])
        idxs = [field_index_of(b, op_local(b.blocks[bb]["t"]["args"][0])) for bb in order]
        rep.check(idxs == list(range(n)), rule, tag + " command_list order", b.loc(b.span),
                  "the raw list is built from tuple fields %s, expected %s — command i would not be the i-th line of the batch" % (idxs, list(range(n))),
                  detail={"fields": idxs})
        # k-th command feeds new (k=0) / the k-th add
        new_calls = [(bb, t) for bb, t in b.calls() if RAWLIST + "new" in callee_names(t)]
        add_calls = [(bb, t) for bb, t in b.calls() if RAWLIST + "add" in callee_names(t) or RAWLIST + "command" in callee_names(t)]
        feed = []
        sinks = [x for x in new_calls] + [(bb, t) for bb, t in sorted(add_calls, key=lambda x: dom_order(g, [y[0] for y in add_calls]).index(x[0]))]
        ok = len(new_calls) == 1 and len(add_calls) == n - 1
        if ok:
            for k, (sbb, st) in enumerate(sinks):
                arg = st["args"][-1]
                leaves, _ = fl.sources([op_local(arg)], through_call=through, follow_mut=False)
                srcs = [x[1] for x in leaves if x[0] == "call" and CMD + "command" in callee_names(b.blocks[x[1]]["t"])]
                feed.append([order.index(s) for s in srcs])
            ok = feed == [[k] for k in range(n)]
        rep.check(ok, rule, tag + " command_list feeds", b.loc(b.span),
                  "commands do not feed CommandList::new / add in position order (feeds: %s)" % feed)
        # ---- responses ----
        b = inlined(prog, d["responses"][1], same_impl_helpers(d["responses"][1], module=True))
        g = Cfg(b)
        fl = Flow(b)
        nexts = [bb for bb, t in b.calls() if NEXT in callee_names(t)]
        # all on one iterator that derives from the frames parameter
        recv_src = set()
        for bb in nexts:
            leaves, _ = fl.sources([op_local(b.blocks[bb]["t"]["args"][0])], through_call=lambda t, k=None: (0,), follow_mut=False)
            recv_src.add(("param", 2) in leaves)
        norder = dom_order(g, nexts)
        resp = [(bb, t) for bb, t in b.calls() if CMD + "response" in callee_names(t)]
        pairs = []
        for bb, t in resp:
            k = field_index_of(b, op_local(t["args"][0]))
            leaves, _ = fl.sources([op_local(t["args"][1])], through_call=through, follow_mut=False)
            js = sorted({norder.index(x[1]) for x in leaves if x[0] == "call" and x[1] in nexts})
            pairs.append((k, js))
        pairs.sort(key=lambda x: (x[0] is None, x[0]))
        exp = [(k, [k]) for k in range(n)]
        rep.check(pairs == exp and recv_src == {True} and len(nexts) == n, rule, tag + " frame i -> command i", b.loc(b.span),
                  "typed responses are not decoded positionally: (command field, frames taken) = %s, expected %s" % (pairs, exp),
                  detail={"pairs": pairs})
        # output component i derives from the response of command i
        out_ok = False
        got = None
        for bb, i, s in b.stmts():
            if s["k"] == "assign" and s["rv"]["k"] == "agg" and s["rv"]["agg"] == "tuple" and len(s["rv"]["ops"]) == n:
                got = []
                for o in s["rv"]["ops"]:
                    leaves, _ = fl.sources([op_local(o)] if op_local(o) is not None else [], through_call=through, follow_mut=False)
                    ks = sorted({field_index_of(b, op_local(b.blocks[x[1]]["t"]["args"][0])) for x in leaves
                                 if x[0] == "call" and CMD + "response" in callee_names(b.blocks[x[1]]["t"])})
                    got.append(ks)
                if got == [[k] for k in range(n)]:
                    out_ok = True
        rep.check(out_ok, rule, tag + " output i <- command i", b.loc(b.span),
                  "component i of the returned tuple is not the response of command i (got %s)" % got)
    rep.floor(rule, cfg + "/tuple impls", n_impls, 8)


def vec_rule(rep, prog, cfg):
    rule = "C13.vec"
    d = {}
    for m in ("command_list", "responses"):
        for imp, b in impl_methods(prog, "commands::command_list::CommandList", m):
            if imp["info"]["self"].startswith("alloc::vec::Vec<"):
                d[m] = b
    if set(d) != {"command_list", "responses"}:
        rep.fail(rule + ".anchor", cfg, "command_list.rs", "impl CommandList for Vec<C> not found")
        return
    b = d["responses"]
    fl = Flow(b)
    zips = [(bb, t) for bb, t in b.calls() if "core::iter::traits::iterator::Iterator::zip" in callee_names(t)]
    ok = False
    detail = {}
    if len(zips) == 1:
        zbb, zt = zips[0]
        l0, _ = fl.sources([op_local(zt["args"][0])], through_call=lambda t, k=None: (0,), follow_mut=False)
        l1, _ = fl.sources([op_local(zt["args"][1])], through_call=lambda t, k=None: (0,), follow_mut=False)
        a_ok = ("param", 1) in l0 and ("param", 2) not in l0 and ("param", 2) in l1 and ("param", 1) not in l1
        resp = [(bb, t) for bb, t in b.calls() if CMD + "response" in callee_names(t)]
        pos_ok = False
        if len(resp) == 1:
            rbb, rt = resp[0]
            # command = item.0, frame = item.1 of the zipped pair
            p0 = tuple_pos(b, op_local(rt["args"][0]))
            p1 = tuple_pos(b, op_local(rt["args"][1]))
            pos_ok = p0 == 0 and p1 == 1
            detail = {"command_from": p0, "frame_from": p1}
        pushes = [(bb, t) for bb, t in b.calls() if "alloc::vec::Vec::push" in callee_names(t)]
        push_ok = False
        for bb, t in pushes:
            leaves, _ = fl.sources([op_local(t["args"][1])], through_call=through, follow_mut=False)
            if any(x[0] == "call" and CMD + "response" in callee_names(b.blocks[x[1]]["t"]) for x in leaves):
                push_ok = True
        # adapter form: zip(..).map(|(command, frame)| command.response(frame)).collect()
        if not resp and not pushes:
            from .C12 import closure_of_local
            maps = [(bb, t) for bb, t in b.calls() if "core::iter::traits::iterator::Iterator::map" in callee_names(t)]
            cols = [(bb, t) for bb, t in b.calls() if "core::iter::traits::iterator::Iterator::collect" in callee_names(t)]
            if len(maps) == 1 and len(cols) == 1:
                mbb, mt = maps[0]
                lm, _ = fl.sources([op_local(mt["args"][0])], through_call=lambda t, k=None: (0,), follow_mut=False)
                lc, _ = fl.sources([op_local(cols[0][1]["args"][0])], through_call=lambda t, k=None: (0,), follow_mut=False)
                lr, _ = fl.sources([0], through_call=through, follow_mut=False)
                clo = closure_of_local(prog, b, op_local(mt["args"][1]))
                if clo is not None and ("call", zbb) in lm and ("call", mbb) in lc and ("call", cols[0][0]) in lr:
                    cresp = [(bb, t) for bb, t in clo.calls() if CMD + "response" in callee_names(t)]
                    if len(cresp) == 1:
                        p0 = tuple_pos(clo, op_local(cresp[0][1]["args"][0]))
                        p1 = tuple_pos(clo, op_local(cresp[0][1]["args"][1]))
                        fl2 = Flow(clo)
                        lz, _ = fl2.sources([0], through_call=through, follow_mut=False)
                        pos_ok = p0 == 0 and p1 == 1
                        push_ok = ("call", cresp[0][0]) in lz
                        detail = {"command_from": p0, "frame_from": p1, "form": "zip.map.collect"}
        back = set()
        for bb, t in b.calls():
            for n in callee_names(t):
                if n.rsplit("::", 1)[-1] in ("rev", "next_back", "rfold", "nth_back"):
                    back.add(n.rsplit("::", 1)[-1])
        detail["backward_adaptors"] = sorted(back)
        ok = a_ok and pos_ok and push_ok and not back
    # zip stops at the shorter side: pairing "frame i <-> command i for every i" needs the two lengths to be equal before it
    # (a short reply must be an error, as in the tuple impls, not a shorter vector)
    if len(zips) == 1:
        from ..common import switch_atom
        pass  # (Cfg, reach are module-level imports)
        g = Cfg(b)
        eq_edges = []
        for bb in range(len(b.blocks)):
            a = switch_atom(b, bb)
            if not a or a["kind"] != "cmp" or a["op"] not in ("Eq", "Ne"):
                continue
            srcs = []
            for o in (a["lhs"], a["rhs"]):
                lv, _ = fl.sources([op_local(o)] if op_local(o) is not None else [], through_call=lambda t, k=None: (0,), follow_mut=False)
                is_len = any(x[0] == "call" and any(n.endswith("::len") for n in callee_names(b.blocks[x[1]]["t"])) for x in lv)
                srcs.append({x[1] for x in lv if x[0] == "param"} if is_len else set())
            if (srcs[0], srcs[1]) in (({1}, {2}), ({2}, {1})):
                eq_edges.append((bb, a["true"] if a["op"] == "Eq" else a["false"], a["false"] if a["op"] == "Eq" else a["true"]))
        guarded = False
        for bb, eq_t, ne_t in eq_edges:
            guarded = guarded or zips[0][0] not in reach(g.succs, [ne_t])
        rep.check(guarded, rule, cfg + "/responses: lengths equal before zip", b.loc(b.blocks[zips[0][0]]["ts"]),
                  "Vec<C>::responses zips commands with frames without first requiring `self.len() == frames.len()` (an equality test whose unequal "
                  "edge cannot reach the zip): zip stops at the shorter side, so a reply with too few frames gives Ok with fewer responses than commands")
    rep.check(ok, rule, cfg + "/responses zip", b.loc(b.span),
              "Vec<C>::responses does not pair command i with frame i by one zip(self, frames) and push the results in order (%s)" % detail, detail=detail)
    b = d["command_list"]
    names = set()
    fnitems = set()
    for bb, t in b.calls():
        names.update(callee_names(t))
        for a in t["args"]:
            c = op_const(a)
            if c is not None and "fn" in c:
                fnitems.add(norm(c["fn"]["name"]))
    ok = (CMD + "command" in fnitems or CMD + "command" in names) and RAWLIST + "new" in names and \
        ("core::iter::traits::collect::Extend::extend" in names or RAWLIST + "add" in names) and \
        not any(n.rsplit("::", 1)[-1] in ("rev", "next_back", "rfold", "last") for n in names)
    rep.check(ok, rule, cfg + "/command_list in order", b.loc(b.span),
              "Vec<C>::command_list does not map Command::command over the vector in order into CommandList::new + extend")
    # None iff empty, decided on the outcome of the first next() (A13): with a first command the function can only return
    # Some(the list built from it); without one it builds nothing
    from ..cfg import VariantReach
    gq = Cfg(b)
    news_q = [bb for bb, t in b.calls() if RAWLIST + "new" in callee_names(t)]
    firsts = [(bb, t) for bb, t in b.calls() if t.get("dest") is not None and b.local_ty(t["dest"]["l"]).startswith("core::option::Option<") and
              any(n.rsplit("::", 1)[-1] in ("next", "split_first", "first", "split_last") for n in callee_names(t)) and
              news_q and all(gq.dom(bb, nb_) for nb_ in news_q)]      # the Option-valued question that is asked before the list is built
    if len(firsts) >= 1:
        vr = VariantReach(b)
        fbb, ft = firsts[0]
        some_blocks = vr.blocks_after_def(fbb, ft["dest"]["l"], ("Some",))
        none_blocks = vr.blocks_after_def(fbb, ft["dest"]["l"], ("None",))

        def ret_aggs(blocks, variant):
            return [bb for bb in sorted(blocks) for st in b.blocks[bb]["s"] if st["k"] == "assign" and st["place"]["l"] == 0 and not st["place"]["p"]
                    and st["rv"]["k"] == "agg" and st["rv"].get("variant") == variant]
        news = {bb for bb, t in b.calls() if RAWLIST + "new" in callee_names(t)}
        residual_none = [bb for bb in some_blocks if b.blocks[bb]["t"]["k"] == "call" and
                         "core::ops::try_trait::FromResidual::from_residual" in callee_names(b.blocks[bb]["t"])]
        ok2 = bool(ret_aggs(some_blocks, "Some")) and not ret_aggs(some_blocks, "None") and not residual_none and not (none_blocks & news) \
            and bool(some_blocks & news)
        rep.check(ok2, rule, cfg + "/a non-empty vector yields Some(list)", b.loc(b.span),
                  "Vec<C>::command_list: with a first command present the function %s; without one it %s — a non-empty vector must give Some(list of "
                  "its commands) and only an empty one None (None makes the client send nothing and answer with an empty result)"
                  % ("can return None" if ret_aggs(some_blocks, "None") or residual_none or not ret_aggs(some_blocks, "Some") else "returns Some",
                     "still builds a list" if none_blocks & news else "builds nothing"))
    else:
        rep.fail(rule, cfg + "/a non-empty vector yields Some(list)", b.loc(b.span), "no first next() found in Vec<C>::command_list (idiom unknown: failing closed)")
    fl = Flow(b)
    leaves, _ = fl.sources([0], through_call=through)
    rep.check(any(x[0] == "call" and NEXT in callee_names(b.blocks[x[1]]["t"]) for x in leaves) or
              any(x[0] == "call" and RAWLIST + "new" in callee_names(b.blocks[x[1]]["t"]) for x in leaves), rule, cfg + "/None iff empty", b.loc(b.span),
              "the result of Vec<C>::command_list does not depend on whether a first command exists")


def tuple_pos(body, local, depth=6):
    """local derives from `<x as Some>.0.K` (pattern of the zipped pair): K"""
    for _ in range(depth):
        defs = [s for bb, i, s in body.stmts() if s["k"] == "assign" and s["place"]["l"] == local and not s["place"]["p"]]
        if len(defs) != 1:
            return None
        rv = defs[0]["rv"]
        if rv["k"] != "use":
            return None
        p = op_place(rv["op"])
        if p is None:
            return None
        fs = [e["f"] for e in p["p"] if isinstance(e, dict) and "f" in e]
        if fs:
            return fs[-1] if len(fs) >= 2 or any(isinstance(e, dict) and "v" in e for e in p["p"]) else fs[-1]
        local = p["l"]
    return None


def render_rule(rep, prog, cfg):
    rule = "C13.render"
    bs = body_by_name(prog, RAWLIST + "render")
    if len(bs) != 1:
        rep.fail(rule + ".anchor", cfg, RAWLIST + "render", "function not found")
        return
    # the two forms may be written in private helpers (`render_single` / `render_wrapped`, `Command::into_line`): spliced in (A12)
    from ..inline import module_private_helpers
    b = inlined(prog, bs[0], module_private_helpers(bs[0]))
    g = Cfg(b)
    # the `len == 1` test
    one = None
    for bb in sorted(b.reachable()):
        a = switch_atom(b, bb)
        if a and a["kind"] == "cmp" and a["op"] in ("Eq", "Ne"):
            k = op_int(b, a["rhs"])
            if k is None:
                k = op_int(b, a["lhs"])
            if k == 1:
                one = (a["true"], a["false"]) if a["op"] == "Eq" else (a["false"], a["true"])
    if one is None:
        # `match <[Command; 1]>::try_from(self.0) { Ok([only]) => .., Err(commands) => .. }`: converting the vector into an array
        # of one succeeds exactly when its length is 1
        for bb, t in b.calls():
            if any(n.endswith("TryFrom::try_from") or n.endswith("TryInto::try_into") for n in callee_names(t)) and t.get("dest") is not None \
                    and "; 1]" in b.local_ty(t["dest"]["l"]).split(",")[0]:
                for sw in tables.discr_switches(b):
                    if sw["place"]["l"] == t["dest"]["l"] and not sw["place"]["p"]:
                        okt, errt = sw["arms"].get("Ok", sw["otherwise"]), sw["arms"].get("Err", sw["otherwise"])
                        if okt != errt:
                            one = (okt, errt)
    if one is None:
        rep.fail(rule, cfg + "/single test", b.loc(b.span), "no `len == 1` test found in CommandList::render (idiom unknown: failing closed)")
        return
    single = reach(g.succs, [one[0]], avoid=[one[1]])
    multi = reach(g.succs, [one[1]], avoid=[one[0]])
    single_only, multi_only = single - multi, multi - single

    def puts(region):
        out = []
        for bb in sorted(region):
            t = b.blocks[bb]["t"]
            if t["k"] != "call":
                continue
            ns = callee_names(t)
            if "bytes::buf::buf_mut::BufMut::put_u8" in ns:
                out.append(("u8", const_int(op_const(t["args"][1])), bb))
            elif "bytes::buf::buf_mut::BufMut::put_slice" in ns or "bytes::bytes_mut::BytesMut::extend_from_slice" in ns:
                out.append(("slice", const_value_of(prog, b, t["args"][1]), bb))
        return out
    ps = puts(single_only)
    rep.check([x[:2] for x in ps] == [("u8", 10)], rule, cfg + "/single command is bare", b.loc(b.span),
              "a list of one command is not written as that bare command + LF (writes on that path: %s)" % [x[:2] for x in ps])
    pm = puts(multi_only)
    consts = [x for x in pm if x[0] == "slice" and x[1] is not None]
    cmdslices = [x for x in pm if x[0] == "slice" and x[1] is None]
    lfs = [x for x in pm if x[0] == "u8"]
    loops = g.loops
    in_loop = lambda bb: any(bb in l for l in loops)
    begin = [x for x in consts if x[1] == "command_list_ok_begin\n"]
    end = [x for x in consts if x[1] == "command_list_end\n"]
    ok = len(begin) == 1 and len(end) == 1 and len(consts) == 2 and len(cmdslices) == 1 and len(lfs) == 1 and lfs[0][1] == 10 \
        and in_loop(cmdslices[0][2]) and in_loop(lfs[0][2]) and not in_loop(begin[0][2]) and not in_loop(end[0][2]) \
        and g.dom(begin[0][2], cmdslices[0][2]) and end[0][2] in reach(g.succs, [cmdslices[0][2]]) and not g.dom(end[0][2], cmdslices[0][2])
    rep.check(ok, rule, cfg + "/batch framing", b.loc(b.span),
              "a list of N>=2 commands is not written as command_list_ok_begin LF, each command + LF in a loop, command_list_end LF "
              "(constants: %s, command slices: %d, LF writes: %s)" % ([x[1] for x in consts], len(cmdslices), [x[1] for x in lfs]),
              detail={"keywords": [x[1] for x in consts]})
    # iteration order of the loop: forward over self.0
    names = set()
    for bb, t in b.calls():
        names.update(callee_names(t))
    rep.check(not any(n.rsplit("::", 1)[-1] in ("rev", "next_back", "rfold") for n in names), rule, cfg + "/forward order", b.loc(b.span),
              "the commands are rendered in reverse order")


def empty_rule(rep, prog, cfg):
    rule = "C13.empty"
    root = body_by_name(prog, "mpd_client::client::Client::command_list")
    if len(root) != 1:
        rep.fail(rule + ".anchor", cfg, "Client::command_list", "public anchor not found")
        return
    b = None
    for fb in family(prog, root[0]):
        if any("mpd_client::commands::command_list::CommandList::command_list" in callee_names(t) for bb, t in fb.calls()):
            b = fb
    if b is None:
        rep.fail(rule, cfg + "/shape", root[0].loc(root[0].span), "Client::command_list does not call CommandList::command_list")
        return
    # the conversion of the frames may sit in a private helper of the client (`typed_list_responses`): spliced in (A12); the
    # functions that talk to the connection stay calls
    b = inlined(prog, b, same_impl_helpers(b, exclude={"mpd_client::client::Client::raw_command_list", "mpd_client::client::Client::do_send",
                                                       "mpd_client::client::Client::raw_command"}))
    g = Cfg(b)
    cl = [(bb, t) for bb, t in b.calls() if "mpd_client::commands::command_list::CommandList::command_list" in callee_names(t)][0]
    sw = tables.discr_switches(b)
    none_t = some_t = None
    for s in sw:
        if s["place"]["l"] == cl[1]["dest"]["l"] and s["adt"].endswith("option::Option"):
            none_t = s["arms"].get("None", s["otherwise"])
            some_t = s["arms"].get("Some", s["otherwise"])
    sends = [bb for bb, t in b.calls() if any(n in ("mpd_client::client::Client::raw_command_list", "mpd_client::client::Client::do_send",
                                                     "mpd_client::client::Client::raw_command") for n in callee_names(t))]
    resp = [bb for bb, t in b.calls() if "mpd_client::commands::command_list::CommandList::responses" in callee_names(t)]
    from_none = reach(g.succs, [none_t]) if none_t is not None else set()
    ok = none_t is not None and resp and sends and any(r in from_none for r in resp) and not (set(sends) & from_none) \
        and all(s in reach(g.succs, [some_t]) for s in sends)
    rep.check(ok, rule, cfg + "/None arm skips the connection", b.loc(b.span),
              "an empty typed list does not go straight to responses() without sending anything")
    # ... and independently of the connection: nothing can fail, and the client's state is not consulted, before the list was
    # asked whether it is empty (an empty list must give the empty result whatever happened to the connection before)
    before = reach(g.succs, [0], avoid=[cl[0]])
    early = []
    for bb in sorted(before):
        blk = b.blocks[bb]
        if blk["t"]["k"] == "return" and bb != cl[0]:
            early.append("return")
        t = blk["t"]
        if t["k"] == "call":
            for n in callee_names(t):
                if n.startswith("mpd_client::client::Client::") or n.startswith("tokio::sync::"):
                    early.append(n.rsplit("::", 1)[-1])
    rep.check(not early, rule, cfg + "/emptiness decided first", b.loc(b.span),
              "Client::command_list consults the connection (%s) or can return before asking the list whether it is empty: the result for an empty "
              "list would depend on the connection's history" % sorted(set(early)))


RENDER_AUDITED = {
    "CommandList::render|call:Option::unwrap": (1, "pop().unwrap() directly behind `self.len() == 1`"),
    "CommandList::render|assert:overflow:Add(_,_)": (2, "sum of the lengths of buffers that exist in memory: cannot exceed usize"),
    "CommandList::render|assert:overflow:Add(_,1_usize)": (1, "length of a buffer in memory plus its line feed"),
    "CommandList::render|call:BytesMut::with_capacity": (1, "capacity = total length of the commands already in memory plus the two framing constants"),
}


def render_total_rule(rep, prog, cfg):
    """Writing the batch cannot fail for a long list: the panic-capable constructs reachable from CommandList::render / add /
    new are enumerated (A7) and must be the audited ones — additions of in-memory lengths.  A subtraction or a capacity that can
    wrap there (e.g. the pre-sizing formula written with `-`) panics for lists longer than the framing constants."""
    from .. import panics
    from ..common import callgraph
    rule = "C13.render"
    cg = callgraph(prog)
    roots = [b.id for n in ("render", "add", "new") for b in body_by_name(prog, "mpd_protocol::command::CommandList::" + n)]
    if len(roots) != 3:
        rep.fail(rule + ".anchor", cfg + "/CommandList::render/add/new", "mpd_protocol/src/command.rs", "anchors not found")
        return
    sites, R, nb, nblocks = panics.inventory(prog, cg, roots)
    sites = [x for x in sites if x.body.crate == "mpd_protocol"]
    rest = []
    for x in sites:
        inst = "%s/%s" % (cfg, x.key)
        if x.kind == "call:core::option::Option::unwrap" and panics.unwrap_guarded_by_test(x.body, x.bb):
            rep.ok(rule, inst, detail={"where": x.where, "discharged": "unwrap dominated by a test"})
            continue
        cv = panics.constant_arithmetic(prog, x)
        if cv is not None:
            rep.ok(rule, inst, detail={"where": x.where, "discharged": "arithmetic on compile-time constants, result %d fits" % cv})
            continue
        rest.append(x)
    am = panics.AuditMatcher(RENDER_AUDITED, rest)
    seen_n = {}
    for x in rest:
        aud, k = am.lookup(x)
        seen_n[k] = seen_n.get(k, 0) + 1
        inst = "%s/%s#%d" % (cfg, k, seen_n[k])
        if aud is not None:
            rep.ok(rule, inst, detail={"where": x.where, "audited": aud[1]})
        else:
            rep.fail(rule, inst, x.where, "unaudited panic-capable construct `%s` in %s on the way a command list is rendered: a list of ordinary "
                     "commands could abort the caller instead of being written as one batch" % (x.kind, x.fn))
    rep.floor(rule, cfg + "/panic-capable constructs on the render path", len(sites), 4)


def run(rep, progs, tier):
    rep.explanation = (
        "Rule-based static analysis (no execution). For each of the 8 tuple impls (arity read from the self "
        "type) the raw list is fed from tuple fields 0..n-1 in dominance order (first into "
        "CommandList::new, the others into the successive add calls), responses() takes n frames by n "
        "successive next() calls on one iterator over the frames parameter, the k-th taken frame is the "
        "argument of self.k.response(..) and its result is component k of the returned tuple; Vec pairs by "
        "one zip(self, frames) (command = .0, frame = .1) and pushes in order; render: the len == 1 path "
        "emits only LF after the bare command, the other path emits command_list_ok_begin LF before the "
        "loop, each command + LF inside it and command_list_end LF after it; an empty typed list reaches "
        "responses() without any send. NOT decided: that the server answers one frame per command.")
    rep.rule("C13.tuple", "tuple impls 1..8 pair command i <-> frame i <-> output i")
    rep.rule("C13.vec", "Vec pairs by zip and pushes in order; command_list maps in order, None iff empty")
    rep.rule("C13.render", "single => bare command; N>=2 => ok_begin, commands in a loop, end")
    rep.rule("C13.empty", "empty typed list sends nothing")
    rep.rule("C13.one-line.arg-lf", "every argument is scanned for a line feed after rendering (C07's rule): N commands are N lines")
    rep.rule("C13.one-line.rollback", "a rejected argument leaves the command as it was (C07's rule)")
    rep.trusted = ["rustc MIR construction", "mpdfacts exporter", "std Vec/zip iteration order", "MPD list keywords (protocol reference)"]
    for cfg, prog in progs.items():
        tuple_rule(rep, prog, cfg)
        vec_rule(rep, prog, cfg)
        render_rule(rep, prog, cfg)
        render_total_rule(rep, prog, cfg)
        # "one block holding the N command lines": no line inside the block may itself be a framing word, so Command::build refuses
        # all three (decided by the C07 machinery on the validator of Command::build)
        from .C07 import build_validator, list_words_rule
        V = build_validator(prog)
        if V is None:
            rep.fail("C13.render", cfg + "/framing words refused as commands", "mpd_protocol/src/command.rs", "validator of Command::build not found (failing closed)")
        else:
            list_words_rule(rep, prog, cfg, V, rule="C13.render")
        # "... holding the N command lines in order": a command is one line only if no argument can carry a line feed — the scan over
        # the rendered argument and the rollback are C07's rules, decided here for C13's clause
        from .C07 import arg_rules
        with rep.importing("C07.", "C13.one-line."):
            arg_rules(rep, prog, cfg)
        empty_rule(rep, prog, cfg)
