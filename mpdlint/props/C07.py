"""C07 — user strings can never add a command or change list framing (DESIGN.md §4/C07)."""
from .. import charset, tables
from ..callgraph import norm
from ..cfg import Cfg, reach
from ..common import body_by_name, callee_names, callgraph, helper_owners, switch_atom, last_named_field
from ..inline import inlined, same_impl_helpers
from ..facts import callee, const_int, const_str, op_const, op_local, op_place
from ..flow import Flow, identity_through
from ..scans import SCANS, SCAN_RECEIVER_OK, closure_of_local, found_rejects, only_err_returns, scan_of, with_scan_helpers

CONFIGS_QUICK = ["K1"]
WITNESS_PREFIX = "C07"
CONFIGS_THOROUGH = ["K1", "K3"]
TECHNIQUE = "static analysis: charset abstract interpretation of the validators, CFG post-dominance / rollback provenance, who-may-write the command buffer (MIR)"

M = "mpd_protocol::command::"
FRAMING_WORDS = ["command_list_begin", "command_list_ok_begin", "command_list_end"]
MPD_WORD = [(0x30, 0x39), (0x41, 0x5A), (0x5F, 0x5F), (0x61, 0x7A)]     # MPD's command-word alphabet: letters, digits, underscore
def name_rules(rep, prog, cfg):
    build = body_by_name(prog, M + "Command::build")
    if len(build) != 1:
        rep.fail("C07.anchor", cfg + "/Command::build", M + "Command::build", "public anchor not found")
        return
    build = build[0]
    # the validator: the function whose Result decides Ok/Err of build
    vcalls = [(bb, t) for bb, t in build.calls() if callee(t) and callee(t)["def"] in prog.bodies and "Result<()" in prog.bodies[callee(t)["def"]].local_ty(0).replace(" ", "")]
    if len(vcalls) != 1:
        rep.fail("C07.name-alphabet", cfg + "/validator", build.loc(build.span), "expected one validator call in Command::build, found %d" % len(vcalls))
        return
    vbb, vt = vcalls[0]
    V = prog.bodies[callee(vt)["def"]]
    g = Cfg(build)
    # the command is only constructed on the validator's Ok arm
    sw = build.blocks[vt["target"]]["t"]
    ok_t = [b for v, b in sw["targets"] if v == 0] if sw["k"] == "switch" else []
    err_t = [b for v, b in sw["targets"] if v == 1] if sw["k"] == "switch" else []
    if sw["k"] == "switch":       # `if let Err(..)` / `if let Ok(..)` list only one variant
        if not ok_t and err_t:
            ok_t = [sw["otherwise"]]
        if not err_t and ok_t:
            err_t = [sw["otherwise"]]
    cons = [bb for bb, i, s in build.stmts() if s["k"] == "assign" and s["rv"]["k"] == "agg" and s["rv"].get("adt_name", "").endswith("command::Command")]
    ok = bool(ok_t and err_t and cons) and all(c in reach(g.succs, ok_t) and c not in reach(g.succs, err_t) for c in cons)
    if not ok and cons:
        # `validate(name).map_err(..)?; Ok(Command(..))`: decided on the outcome of the validator call (A13) — with Err the
        # construction is not reachable, with Ok it is
        from ..cfg import VariantReach
        vr = VariantReach(build)
        res_l = vt["dest"]["l"]
        on_err = vr.blocks_after_def(vbb, res_l, ("Err",))
        on_ok = vr.blocks_after_def(vbb, res_l, ("Ok",))
        ok = all(c in on_ok and c not in on_err for c in cons)
    rep.check(ok, "C07.name-alphabet", cfg + "/constructed only when valid", build.loc(build.span),
              "Command::build constructs the command on a path that does not come from the validator's Ok result")
    # what is stored is what was validated: the bytes derive from the name through conversions that keep them
    KEEP = {"core::convert::From::from", "core::convert::Into::into", "core::str::<impl str>::as_bytes", "alloc::borrow::ToOwned::to_owned",
            "alloc::string::ToString::to_string", "bytes::bytes_mut::BytesMut::from", "bytes::bytes::Bytes::copy_from_slice",
            "core::ops::deref::Deref::deref", "core::convert::AsRef::as_ref", "alloc::string::String::from", "alloc::string::String::as_bytes",
            "alloc::string::String::as_str", "bytes::bytes_mut::BytesMut::extend_from_slice", "bytes::buf::buf_mut::BufMut::put_slice",
            "core::clone::Clone::clone", "alloc::string::String::into_bytes", "alloc::vec::Vec::as_slice"}
    bfl = Flow(build)
    for cb in cons:
        for st in build.blocks[cb]["s"]:
            if st["k"] == "assign" and st["rv"]["k"] == "agg" and st["rv"].get("adt_name", "").endswith("command::Command"):
                leaves, _ = bfl.sources([op_local(o) for o in st["rv"]["ops"] if op_local(o) is not None], through_call=lambda t2, k=None: (0, 1), follow_mut=True)
                changing = sorted({callee_names(build.blocks[x[1]]["t"])[0] for x in leaves if x[0] in ("call", "callmut")
                                   and not any(n in KEEP for n in callee_names(build.blocks[x[1]]["t"]))})
                rep.check(("param", 1) in leaves and not changing and not any(x[0] == "const" for x in leaves), "C07.name-alphabet",
                          cfg + "/stored name is the validated name", build.loc(st["span"]),
                          "the bytes stored in the command are not the validated name itself but pass through %s: what reaches the wire "
                          "(e.g. a case-folded `command_list_end`) was never checked" % (changing or "a constant"))
    # who may construct a Command at all
    for b in prog.bodies.values():
        if b.crate != "mpd_protocol" or b.raw.get("derived"):
            continue
        for bb, i, s in b.stmts():
            if s["k"] == "assign" and s["rv"]["k"] == "agg" and s["rv"].get("adt_name", "").endswith("command::Command") and s["rv"]["agg"] == "adt":
                root = norm(prog.bodies.get(b.root, b).name)
                rep.check(root == M + "Command::build", "C07.name-alphabet", "%s/constructor %s" % (cfg, root), b.loc(s["span"]),
                          "%s constructs a Command without going through the name validation" % root)
    # alphabet
    V = with_scan_helpers(prog, V)
    try:
        sc = scan_of(prog, V)
    except charset.Opaque as e:
        rep.fail("C07.name-alphabet", cfg + "/alphabet", V.loc(V.span), "the command-name validator is not analysable (%s): failing closed" % e)
        return
    valid = charset.complement(sc["bad"], sc["width"])
    rep.check(found_rejects(V, sc) and sc["receiver_ok"], "C07.name-alphabet", cfg + "/invalid char rejected", V.loc(V.span),
              "a character outside the accepted set does not always lead to an Err return, or the scan does not run over the name itself (via %s)" % sc["receiver_via"])
    rep.check(charset.subset(valid, MPD_WORD), "C07.name-alphabet", cfg + "/alphabet ⊆ MPD word chars", V.loc(V.span),
              "command names may contain %s; MPD's command-word alphabet is %s — whitespace, control characters or quotes in a name split or change the request line"
              % (charset.fmt_set(valid), charset.fmt_set(MPD_WORD)), detail={"accepts": charset.fmt_set(valid), "cells": sc["cells"]})
    # empty name
    empty_ok = False
    for bb, t in V.calls():
        if any(n.endswith("::is_empty") for n in callee_names(t)):
            a = switch_atom(V, t["target"])
            if a and only_err_returns(V, a["true"]):
                empty_ok = True
    rep.check(empty_ok, "C07.name-alphabet", cfg + "/empty rejected", V.loc(V.span), "the empty command name is not rejected")
    list_words_rule(rep, prog, cfg, V)


def build_validator(prog):
    """The function whose Result decides Ok/Err of Command::build (None when the anchor or the idiom is not found)."""
    build = body_by_name(prog, M + "Command::build")
    if len(build) != 1:
        return None
    vcalls = [(bb, t) for bb, t in build[0].calls() if callee(t) and callee(t)["def"] in prog.bodies and
              "Result<()" in prog.bodies[callee(t)["def"]].local_ty(0).replace(" ", "")]
    return prog.bodies[callee(vcalls[0][1])["def"]] if len(vcalls) == 1 else None


def list_words_rule(rep, prog, cfg, V, rule="C07.list-words"):
    cg = callgraph(prog)
    rejected = set()
    how = []
    scope = [prog.bodies[x] for x in cg.reachable([V.id]) if prog.bodies[x].crate == "mpd_protocol"]
    for b in scope:
        preds = []   # (true edge leads to Err in V, set of words)
        for bb, t in b.calls():
            ns = callee_names(t)
            if "core::str::<impl str>::starts_with" in ns and len(t["args"]) == 2:
                pat = tables.arg_str(b, t["args"][1])
                if pat is not None:
                    words = {w for w in FRAMING_WORDS if w.startswith(pat)}
                    if leads_to_err(prog, V, b, bb, t):
                        rejected |= words
                        how.append("starts_with(%r)" % pat)
        for c in tables.str_compares(b):
            if c["lit"] in FRAMING_WORDS and not c["ci"]:
                if compare_leads_to_err(prog, V, b, c):
                    rejected.add(c["lit"])
                    how.append("== %r" % c["lit"])
    for w in FRAMING_WORDS:
        rep.check(w in rejected, rule, "%s/%s rejected" % (cfg, w), V.loc(V.span),
                  "the command name %r is not rejected (recognised tests: %s): a caller can open or close a command list by hand and break the library's list framing"
                  % (w, how or "none — idiom unknown, failing closed"), detail={"tests": how})


def leads_to_err(prog, V, b, bb, t):
    """The boolean produced by call (bb,t) in body b makes V return Err when true."""
    if b.id == V.id:
        a = switch_atom(V, t["target"])
        return bool(a and a["kind"] == "call" and a["call_bb"] == bb and only_err_returns(V, a["true"]))
    # b is a predicate helper: its result is the call's result
    if t["dest"]["l"] != 0:
        fl = Flow(b)
        leaves, _ = fl.sources([0], through_call=None)
        if ("call", bb) not in leaves or any(x[0] in ("const",) for x in leaves):
            return False
    for bb2, t2 in V.calls():
        f = callee(t2)
        if f is not None and f["def"] == b.id:
            a = switch_atom(V, t2["target"])
            if a and a["kind"] == "call" and only_err_returns(V, a["true"]):
                return True
    return False


def compare_leads_to_err(prog, V, b, c):
    if b.id == V.id:
        return only_err_returns(V, c["true"])
    # helper returning true on the compare's true edge
    vals = set()
    for x in tables.exclusive(b, c["true"], [c["false"]]) or {c["true"]}:
        for s in b.blocks[x]["s"]:
            if s["k"] == "assign" and s["place"]["l"] == 0 and s["rv"]["k"] == "use":
                k = op_const(s["rv"]["op"])
                if k is not None and k["ty"] == "bool":
                    vals.add(bool(k.get("int")))
    if vals != {True}:
        return False
    for bb2, t2 in V.calls():
        f = callee(t2)
        if f is not None and f["def"] == b.id:
            a = switch_atom(V, t2["target"])
            if a and a["kind"] == "call" and only_err_returns(V, a["true"]):
                return True
    return False


def is_buf_place(place):
    """`<Command>.0` — the only BytesMut field named `0` in the crate."""
    for e in place["p"]:
        if isinstance(e, dict) and "f" in e and e.get("n") == "0" and e["ty"].endswith("BytesMut"):
            return True
    return False


def scratch_design(rep, prog, cfg, b, g, fl, rbb, rt, vbb, vt, V, scratch):
    """add_argument in the render-validate-append form (see arg_rules)."""
    def refs(local, base):
        for bb2, i2, s2 in b.stmts():
            if s2["k"] == "assign" and s2["place"]["l"] == local and s2["rv"]["k"] == "ref" and s2["rv"]["place"]["l"] == base and s2["rv"]["place"]["p"] in ([], ["*"]):
                return True
        return False

    def derives_from_scratch(op):
        l = op_local(op)
        if l is None:
            return False
        leaves, vis = fl.sources([l], through_call=lambda t2, k=None: (0,), follow_mut=False)
        return scratch in vis
    rep.check(g.dom(rbb, vbb) and derives_from_scratch(vt["args"][0]), "C07.arg-lf", cfg + "/validates the rendered bytes", b.loc(b.blocks[vbb]["ts"]),
              "the validator is not applied to the buffer the argument was rendered into")
    # the result of the validation
    sw = b.blocks[vt["target"]]["t"]
    err_t = [x for v, x in sw["targets"] if v == 1] if sw["k"] == "switch" else []
    ok_t = [x for x in ([sw["otherwise"]] + [x for v, x in sw["targets"] if v == 0])] if sw["k"] == "switch" else []
    ok_t = [x for x in ok_t if x not in err_t]
    if not err_t or not ok_t:
        rep.fail("C07.rollback", cfg + "/err arm", b.loc(b.span), "cannot see the Err arm of the validation result")
        return
    # mutations of the command buffer
    muts = []
    for bb, t in b.calls():
        for a in t["args"][:1]:
            l = op_local(a)
            if l is None:
                continue
            for bb2, i2, s2 in b.stmts():
                if s2["k"] == "assign" and s2["place"]["l"] == l and s2["rv"]["k"] == "ref" and s2["rv"]["mut"] and is_buf_place(s2["rv"]["place"]):
                    muts.append((bb, t))
    ok_region = reach(g.succs, ok_t, avoid=[vbb])
    before_or_err = [bb for bb, t in muts if bb not in ok_region or bb in reach(g.succs, err_t, avoid=[vbb] + ok_t)]
    rep.check(not before_or_err, "C07.rollback", cfg + "/command untouched unless valid", b.loc(b.span),
              "the command buffer is modified before the rendered argument was validated, or on the rejected path: a rejected argument would leave "
              "the command changed")
    seps = [(bb, t) for bb, t in muts if "bytes::buf::buf_mut::BufMut::put_u8" in callee_names(t)]
    apps = [(bb, t) for bb, t in muts if any(n in ("bytes::bytes_mut::BytesMut::extend_from_slice", "bytes::buf::buf_mut::BufMut::put_slice",
                                                     "bytes::buf::buf_mut::BufMut::put", "bytes::bytes_mut::BytesMut::unsplit") for n in callee_names(t))]
    other = [callee_names(t)[0] for bb, t in muts if (bb, t) not in seps and (bb, t) not in apps
             and not any(n in ("bytes::bytes_mut::BytesMut::reserve", "bytes::bytes_mut::BytesMut::len") for n in callee_names(t))]
    sep_ok = len(seps) == 1 and const_int(op_const(seps[0][1]["args"][1])) == 32 and not any(seps[0][0] in l for l in g.loops)
    app_ok = len(apps) == 1 and len(apps[0][1]["args"]) > 1 and derives_from_scratch(apps[0][1]["args"][1]) and not any(apps[0][0] in l for l in g.loops)
    rep.check(sep_ok and app_ok and not other and g.dom(seps[0][0], apps[0][0]) if seps and apps else False, "C07.arg-lf", cfg + "/one unconditional separator",
              b.loc(b.span),
              "on the accepted path add_argument must write exactly one space and then exactly the validated bytes (found %d separator(s), %d append(s) of the "
              "validated buffer, other writes %s): what reaches the command would differ from what was checked" % (len(seps), len([x for x in apps]), other))
    renders = [bb for bb, t in b.calls() if M + "Argument::render" in callee_names(t)]
    rep.check(len(renders) == 1 and not any(renders[0] in l for l in g.loops), "C07.arg-lf", cfg + "/validation after rendering", b.loc(b.span),
              "the argument is rendered more than once: the bytes appended may differ from the bytes validated")
    try:
        sc = scan_of(prog, V)
        rep.check(sc["bad"] == [(10, 10)], "C07.arg-lf", cfg + "/rejects exactly LF", V.loc(V.span),
                  "the argument validator rejects %s, it must reject the line feed (and nothing that legitimately occurs in arguments)" % charset.fmt_set(sc["bad"]),
                  detail={"rejects": charset.fmt_set(sc["bad"])})
        rep.check(found_rejects(V, sc) and sc["receiver_ok"], "C07.arg-lf", cfg + "/scan over the raw bytes", V.loc(V.span),
                  "the line-feed scan does not run directly over the bytes it was given (goes through %s), or a hit does not lead to Err" % (sc["receiver_via"] or "?"))
    except charset.Opaque as e:
        rep.fail("C07.arg-lf", cfg + "/validator", V.loc(V.span), "the argument validator is not analysable (%s): failing closed" % e)


def arg_rules(rep, prog, cfg):
    aa = body_by_name(prog, M + "Command::add_argument")
    if len(aa) != 1:
        rep.fail("C07.anchor", cfg + "/Command::add_argument", M + "Command::add_argument", "public anchor not found")
        return
    # the rollback may be a private method of Command: analyse add_argument with such helpers spliced in (A12)
    b = inlined(prog, aa[0], same_impl_helpers(aa[0]))
    g = Cfg(b)
    fl = Flow(b)
    render = [(bb, t) for bb, t in b.calls() if M + "Argument::render" in callee_names(t)]
    vcalls = [(bb, t) for bb, t in b.calls() if callee(t) and callee(t)["def"] in prog.bodies
              and "Result<()" in prog.bodies[callee(t)["def"]].local_ty(0).replace(" ", "")]
    if len(render) != 1 or len(vcalls) != 1:
        rep.fail("C07.arg-lf", cfg + "/shape", b.loc(b.span), "expected one Argument::render call and one validator call in add_argument (found %d / %d)" % (len(render), len(vcalls)))
        return
    rbb, rt = render[0]
    vbb, vt = vcalls[0]
    V = prog.bodies[callee(vt)["def"]]
    # design B: the argument is rendered once into a scratch buffer, the scratch buffer is validated, and only then appended
    # (separator + the very same bytes); a rejected argument never touches the command
    target = op_local(rt["args"][1]) if len(rt["args"]) > 1 else None
    into_cmd = False
    scratch = None
    cur = target
    for _ in range(5):   # through reborrows `&mut (*x)`
        nxt = None
        for bb2, i2, s2 in b.stmts():
            if s2["k"] == "assign" and s2["place"]["l"] == cur and not s2["place"]["p"] and s2["rv"]["k"] == "ref":
                if is_buf_place(s2["rv"]["place"]):
                    into_cmd = True
                elif not s2["rv"]["place"]["p"]:
                    scratch = s2["rv"]["place"]["l"]
                elif s2["rv"]["place"]["p"] == ["*"]:
                    nxt = s2["rv"]["place"]["l"]
        if into_cmd or scratch is not None or nxt is None:
            break
        cur = nxt
    if not into_cmd and scratch is not None:
        scratch_design(rep, prog, cfg, b, g, fl, rbb, rt, vbb, vt, V, scratch)
        return
    rep.check(g.pdom(vbb, rbb) and g.dom(rbb, vbb), "C07.arg-lf", cfg + "/validation after rendering", b.loc(b.blocks[vbb]["ts"]),
              "the argument validation does not run after Argument::render on every path: a renderer's output could reach the wire unchecked")
    # exactly one separator byte is written, unconditionally, between taking the length and rendering: the validated
    # range `[len + 1..]` and the rollback rely on it
    seps = [(bb, t) for bb, t in b.calls() if "bytes::buf::buf_mut::BufMut::put_u8" in callee_names(t)]
    lens = [bb for bb, t in b.calls() if "bytes::bytes_mut::BytesMut::len" in callee_names(t) and g.dom(bb, rbb)]
    sep_ok = len(seps) == 1 and g.dom(seps[0][0], rbb) and not any(seps[0][0] in l for l in g.loops) and lens and all(g.dom(l, seps[0][0]) for l in lens)
    rep.check(sep_ok, "C07.arg-lf", cfg + "/one unconditional separator", b.loc(b.span),
              "add_argument does not write exactly one separator byte on every path between taking the buffer length and rendering the argument: "
              "the validated range (everything after length + 1) then misses the first rendered byte or covers stale bytes")
    # the validated slice starts at that length + 1
    sl = None
    for bb2, t2 in b.calls():
        if any(n.endswith("Index::index") for n in callee_names(t2)) and g.dom(rbb, bb2) and g.dom(bb2, vbb):
            sl = t2
    if sl is not None:
        leaves_i, _ = fl.sources([op_local(sl["args"][1])], follow_mut=False)
        from_len = any(x[0] == "call" and x[1] in lens for x in leaves_i)
        consts = sorted(x[1] for x in leaves_i if x[0] == "const")
        rep.check(from_len and consts == ["1_usize"], "C07.arg-lf", cfg + "/validated range starts after the separator", b.loc(b.span),
                  "the validated slice does not start at (length before the call) + 1 (sources: len=%s consts=%s)" % (from_len, consts))
    # validated bytes are a slice of the command buffer itself, not the argument value
    leaves, _ = fl.sources([op_local(vt["args"][0])], through_call=lambda t2, k=None: (0,), follow_mut=False)
    from_self = ("param", 1) in leaves
    from_arg = ("param", 2) in leaves
    rep.check(from_self and not from_arg, "C07.arg-lf", cfg + "/validates the rendered bytes", b.loc(b.blocks[vbb]["ts"]),
              "the validator is not applied to a slice of the command buffer (what was actually rendered) but to %s — a user-defined Argument::render could emit other bytes"
              % ("the argument value" if from_arg else "something else"))
    try:
        sc = scan_of(prog, V)
        rep.check(sc["bad"] == [(10, 10)], "C07.arg-lf", cfg + "/rejects exactly LF", V.loc(V.span),
                  "the argument validator rejects %s, it must reject the line feed (and nothing that legitimately occurs in arguments)" % charset.fmt_set(sc["bad"]),
                  detail={"rejects": charset.fmt_set(sc["bad"])})
        rep.check(found_rejects(V, sc) and sc["receiver_ok"], "C07.arg-lf", cfg + "/scan over the raw bytes", V.loc(V.span),
                  "the line-feed scan does not run directly over the bytes it was given (goes through %s), or a hit does not lead to Err: "
                  "a lossy conversion in between can hide a line feed" % (sc["receiver_via"] or "?"))
    except charset.Opaque as e:
        rep.fail("C07.arg-lf", cfg + "/validator", V.loc(V.span), "the argument validator is not analysable (%s): failing closed" % e)
    # ---- rollback ----
    sw = b.blocks[vt["target"]]["t"]
    err_t = [x for v, x in sw["targets"] if v == 1] if sw["k"] == "switch" else []
    ok_t = [x for x in ([sw["otherwise"]] + [x for v, x in sw["targets"] if v == 0])] if sw["k"] == "switch" else []
    if not err_t:
        rep.fail("C07.rollback", cfg + "/err arm", b.loc(b.span), "cannot see the Err arm of the validation result")
        return
    err_region = reach(g.succs, err_t, avoid=[vbb])
    ok_region = reach(g.succs, [x for x in ok_t if x not in err_t], avoid=[vbb]) - err_region
    # first mutation of the buffer in the function
    muts = []
    for bb, t in b.calls():
        for a in t["args"]:
            l = op_local(a)
            if l is None:
                continue
            for bb2, i2, s2 in b.stmts():
                if s2["k"] == "assign" and s2["place"]["l"] == l and s2["rv"]["k"] == "ref" and s2["rv"]["mut"] and is_buf_place(s2["rv"]["place"]):
                    muts.append((bb, t))
            if l in fl.mutrefs and any(True for _ in ()):
                pass
    truncs = [(bb, t) for bb, t in muts if "bytes::bytes_mut::BytesMut::truncate" in callee_names(t)]
    in_err = [(bb, t) for bb, t in truncs if bb in err_region]
    rep.check(len(in_err) == 1 and not [x for x in truncs if x[0] in ok_region], "C07.rollback", cfg + "/truncate on Err only", b.loc(b.span),
              "a rejected argument is not rolled back by exactly one truncate on the Err path (found %d on Err, %d on Ok)" % (len(in_err), len([x for x in truncs if x[0] in ok_region])))
    if len(in_err) == 1:
        tbb, tt = in_err[0]
        leaves, _ = fl.sources([op_local(tt["args"][1])], follow_mut=False)
        len_calls = [x[1] for x in leaves if x[0] == "call" and "bytes::bytes_mut::BytesMut::len" in callee_names(b.blocks[x[1]]["t"])]
        arith = [x for x in leaves if x[0] == "const"]
        first_mut = [bb for bb, t in muts if bb not in err_region and "bytes::bytes_mut::BytesMut::len" not in callee_names(t)]
        dom_ok = bool(len_calls) and all(all(g.dom(lc, m) and lc != m for m in first_mut) for lc in len_calls)
        rep.check(dom_ok and not arith, "C07.rollback", cfg + "/length taken before the first write", b.loc(b.blocks[tbb]["ts"]),
                  "the rollback length does not derive solely from BytesMut::len taken before the first mutation of the call (constants involved: %s): a rejected argument leaves the command changed" % arith)
        later = [bb for bb, t in muts if bb in reach(g.succs, [tt["target"]]) and bb != tbb]
        rep.check(not later, "C07.rollback", cfg + "/nothing after the rollback", b.loc(b.blocks[tbb]["ts"]),
                  "the command buffer is mutated again after the rollback")


def owners_rule(rep, prog, cfg):
    rule = "C07.lf-owners"
    allowed = {M + "Command::add_argument", M + "CommandList::render", "mpd_protocol::connection::Connection::send",
               "mpd_protocol::connection::AsyncConnection::send"}
    if cfg == "K3":
        allowed.discard("mpd_protocol::connection::AsyncConnection::send")
    seen = set()
    touching = set()
    for b in prog.bodies.values():
        if b.crate == "mpd_protocol" and not b.raw.get("derived"):
            for bb, i, s in b.stmts():
                if s["k"] == "assign" and ((s["rv"]["k"] == "ref" and s["rv"]["mut"] and is_buf_place(s["rv"]["place"]))
                                           or (s["rv"]["k"] == "use" and "move" in s["rv"]["op"] and is_buf_place(s["rv"]["op"]["move"]))
                                           or (s["place"]["p"] and is_buf_place(s["place"]))):
                    touching.add(norm(prog.bodies.get(b.root, b).name))
    # a private helper called only by the allowed writers is part of them (and is held to the same byte rules below)
    owners = helper_owners(prog, touching, allowed)
    for b in prog.bodies.values():
        if b.crate != "mpd_protocol" or b.raw.get("derived"):
            continue
        root = norm(prog.bodies.get(b.root, b).name)
        own = owners.get(root)
        touches = False
        for bb, i, s in b.stmts():
            if s["k"] != "assign":
                continue
            rv = s["rv"]
            if rv["k"] == "ref" and rv["mut"] and is_buf_place(rv["place"]):
                touches = True
            if rv["k"] == "use" and "move" in rv["op"] and is_buf_place(rv["op"]["move"]):
                touches = True
            if s["place"]["p"] and is_buf_place(s["place"]):
                touches = True
        if not touches:
            continue
        seen |= own or {root}
        rep.check(own is not None, rule, "%s/writer %s" % (cfg, root), b.loc(b.span),
                  "%s obtains mutable access to a Command's byte buffer; only add_argument (validated), send and list rendering (one LF each) may" % root)
        if own == {M + "Command::add_argument"}:
            continue
        # every byte appended here is the constant LF; slices appended are whole commands or the framing constants
        for bb, t in b.calls():
            ns = callee_names(t)
            if "bytes::buf::buf_mut::BufMut::put_u8" in ns:
                k = const_int(op_const(t["args"][1]))
                rep.check(k == 10, rule, "%s/%s put_u8" % (cfg, root), b.loc(b.blocks[bb]["ts"]),
                          "%s appends a byte other than the constant LF (0x0A) to a command" % root)
            elif any(n.startswith("bytes::buf::buf_mut::BufMut::put_") or n in ("bytes::bytes_mut::BytesMut::extend_from_slice",) for n in ns):
                if own != {M + "CommandList::render"}:
                    rep.fail(rule, "%s/%s %s" % (cfg, root, ns[0].rsplit("::", 1)[-1]), b.loc(b.blocks[bb]["ts"]),
                             "%s appends more than the line terminator to a command" % root)
    # the rule is "nobody else writes"; that it still sees writers at all is guarded by the two that cannot go away — the
    # argument appender and the list renderer (a `send` may delegate its terminator to the renderer: `CommandList::new(c).render()`)
    missing = {M + "Command::add_argument", M + "CommandList::render"} - seen
    rep.check(not missing, rule + ".floor", cfg + "/expected writers present", "command.rs / connection.rs",
              "expected writers not found (anchor moved: failing closed): %s" % sorted(missing))
    # the buffer is not reachable from outside the crate
    adt = [a for a in prog.adts.values() if a["name"] == "mpd_protocol::command::Command"]
    ok = len(adt) == 1 and not adt[0]["variants"][0]["fields"][0]["pub"]
    rep.check(ok, rule, cfg + "/buffer field not public", "command.rs", "Command's byte buffer is a public field: arbitrary bytes (including LF) can be put into a command")
    adt = [a for a in prog.adts.values() if a["name"] == "mpd_protocol::command::CommandList"]
    ok = len(adt) == 1 and not adt[0]["variants"][0]["fields"][0]["pub"]
    rep.check(ok, rule, cfg + "/list field not public", "command.rs", "CommandList's vector is a public field")


def run(rep, progs, tier):
    rep.explanation = (
        "Rule-based static analysis (no execution). The exact accept sets of the name and argument "
        "validators are computed by abstract interpretation over a partition of the code-point range "
        "(A5) together with the polarity of their use (found => Err); the name alphabet must be within "
        "MPD's word alphabet and the empty name rejected; a Command is constructed only on the "
        "validator's Ok arm and by no other function; the three list-framing words must be rejected by a "
        "recognised test; in add_argument the validator post-dominates Argument::render, is applied to a "
        "slice of the command buffer itself, scans those raw bytes for exactly LF, and on Err the buffer is "
        "truncated to a length taken before the first write, with nothing after; the only other writers of "
        "a command's bytes append the constant LF (send) or whole commands plus framing constants (render); "
        "the buffer fields are not public.")
    rep.rule("C07.name-alphabet", "command-word alphabet ⊆ [A-Za-z0-9_], empty rejected, Command constructed only when valid")
    rep.rule("C07.list-words", "command_list_begin / command_list_ok_begin / command_list_end rejected")
    rep.rule("C07.arg-lf", "LF check runs after render, on the rendered bytes, over the raw bytes, rejecting exactly LF")
    rep.rule("C07.rollback", "rejected argument: truncate to the pre-call length, nothing after")
    rep.rule("C07.lf-owners", "only send/render add LF; buffer not public")
    rep.trusted = ["rustc MIR construction", "mpdfacts exporter", "MPD's tokenizer word alphabet and line framing", "BytesMut semantics"]
    for cfg, prog in progs.items():
        name_rules(rep, prog, cfg)
        arg_rules(rep, prog, cfg)
        owners_rule(rep, prog, cfg)
        # a request whose tail is lost to a short write loses its terminating LF / `command_list_end`: the next request is glued on
        from .C05 import complete_write_rule
        with rep.importing("C05.complete-write", "C07.lf-owners.complete-write"):
            complete_write_rule(rep, prog, cfg)
