"""C17 — album art reassembled byte-exactly (DESIGN.md §4/C17): offset / progress / fallback rules."""
from .. import tables
from ..callgraph import norm
from ..cfg import Cfg, FlagReach, reach, sccs
from ..common import callee_names, last_named_field, logic_body, switch_atom
from ..facts import callee, const_int, op_const, op_local, op_place
from ..flow import Flow, identity_through
from ..inline import inlined, same_impl_helpers
from .C09 import is_await_cycle, third_party_block

CONFIGS_QUICK = ["K1"]
CONFIGS_THOROUGH = ["K1", "K2"]
TECHNIQUE = "static analysis: provenance of chunk offsets, loop-progress rule, flag-sensitive CFG reachability of the fallback request (MIR)"

CMD = "mpd_client::client::Client::command"
EMB = "mpd_client::commands::definitions::AlbumArtEmbedded::"
ART = "mpd_client::commands::definitions::AlbumArt::"
EXTEND = "bytes::bytes_mut::BytesMut::extend_from_slice"
# ways of appending a chunk to the accumulation buffer (receiver = args[0], data = args[1])
APPENDS = {EXTEND, "bytes::bytes_mut::BytesMut::unsplit", "bytes::buf::buf_mut::BufMut::put_slice", "bytes::buf::buf_mut::BufMut::put",
           "core::iter::traits::collect::Extend::extend"}


def awaited_result(body, fl, call_bb):
    """Local that receives the output of awaiting the future created by the call in call_bb."""
    fut = body.blocks[call_bb]["t"]["dest"]["l"]
    derived, _ = fl.forward([fut], through_call=lambda t, ai: any(
        n in ("core::future::into_future::IntoFuture::into_future", "core::pin::Pin::new_unchecked", "core::future::future::Future::poll",
              "tracing::instrument::Instrument::instrument", "tracing::instrument::Instrument::in_current_span") for n in callee_names(t)))
    # the value moved out of Poll::Ready
    for bb, i, s in body.stmts():
        if s["k"] == "assign" and s["rv"]["k"] == "use":
            p = op_place(s["rv"]["op"])
            if p is not None and p["l"] in derived and any(isinstance(e, dict) and e.get("n") == "Ready" for e in p["p"]):
                # follow plain moves to the user-visible temp
                cur = s["place"]["l"]
                for _ in range(4):
                    nxt = [s2["place"]["l"] for bb2, i2, s2 in body.stmts() if s2["k"] == "assign" and s2["rv"]["k"] == "use"
                           and op_local(s2["rv"]["op"]) == cur and not s2["place"]["p"]]
                    if len(nxt) == 1:
                        cur = nxt[0]
                    else:
                        break
                return cur
    return None


def awaited_def(body, fl, call_bb):
    """(block, local) of the statement that moves the output of awaiting the future created in call_bb out of Poll::Ready."""
    fut = body.blocks[call_bb]["t"]["dest"]["l"]
    derived, _ = fl.forward([fut], through_call=lambda t, ai: any(
        n in ("core::future::into_future::IntoFuture::into_future", "core::pin::Pin::new_unchecked", "core::future::future::Future::poll",
              "tracing::instrument::Instrument::instrument", "tracing::instrument::Instrument::in_current_span") for n in callee_names(t)))
    for bb, i, s in body.stmts():
        if s["k"] == "assign" and s["rv"]["k"] == "use" and not s["place"]["p"]:
            p = op_place(s["rv"]["op"])
            if p is not None and p["l"] in derived and any(isinstance(e, dict) and e.get("n") == "Ready" for e in p["p"]):
                cur = s["place"]["l"]
                for s2 in body.blocks[bb]["s"][i + 1:]:       # moved on within the same block
                    if s2["k"] == "assign" and s2["rv"]["k"] == "use" and op_local(s2["rv"]["op"]) == cur and not s2["place"]["p"] \
                            and not (op_place(s2["rv"]["op"]) or {}).get("p"):
                        cur = s2["place"]["l"]
                return bb, cur
    return None


def cmd_kind(body, fl, call_bb):
    """'embedded' / 'cover' for a Client::command call, by the constructor its command argument derives from."""
    t = body.blocks[call_bb]["t"]
    leaves, _ = fl.sources([op_local(t["args"][1])], through_call=lambda t2, k=None: (0,), follow_mut=False)
    kinds = set()
    for leaf in leaves:
        if leaf[0] == "call":
            for n in callee_names(body.blocks[leaf[1]]["t"]):
                if n == EMB + "new":
                    kinds.add("embedded")
                if n == ART + "new":
                    kinds.add("cover")
    return kinds


def run(rep, progs, tier):
    rep.explanation = (
        "Rule-based static analysis (no execution) of the public anchor Client::album_art. Decided clauses: "
        "the offset of every chunk request inside the loop derives from len() of the accumulation buffer "
        "and only from it; every turn of the loop either returns or appends data derived from the chunk "
        "reply to that buffer, and the loop guard compares the buffer length with a size derived from the "
        "first reply; the cover-file request is reachable from the embedded-picture request only through "
        "the Ok(None) edge or the edge `error.code == 5` of an ErrorResponse (flag-sensitive reachability "
        "over the `embedded` flag), every other error edge returns that error; inside the loop the "
        "embedded command is used exactly when the flag is set; the MIME type derives from the first "
        "embedded reply. NOT decided: byte-exactness of BytesMut concatenation, servers returning empty "
        "chunks, concurrency (C01).")
    for r, t in (("C17.offset", "chunk offsets derive from len() of the accumulation buffer only"),
                 ("C17.progress", "every loop turn returns or extends the buffer with reply data; guard = len < size of first reply"),
                 ("C17.fallback", "fallback only on Ok(None) or ACK code 5; other errors propagate"),
                 ("C17.source", "the loop uses the command that produced the first chunk"),
                 ("C17.mime", "MIME derives from the first embedded reply")):
        rep.rule(r, t)
    rep.trusted = ["rustc MIR construction", "mpdfacts exporter", "ACK_ERROR_UNKNOWN = 5 (MPD protocol reference)", "BytesMut semantics"]
    rep.rule("C17.offset.setter", "the offset setter of the chunk commands stores its parameter (C15's rule on by-value setters, decided here for C17's clause: the loop passes the absolute position)")
    for cfg, prog in progs.items():
        one(rep, prog, cfg)
        # "offset = bytes received so far" holds on the wire only if `offset(n)` *sets* the offset: an accumulating setter adds the
        # absolute position to what a reused request already holds
        from .C15 import setter_rule
        with rep.importing("C15.shape", "C17.offset.setter"):
            setter_rule(rep, prog, cfg)


def one(rep, prog, cfg):
    b = logic_body(prog, "mpd_client::client::Client::album_art", APPENDS)
    if b is None:
        rep.fail("C17.anchor", cfg, "Client::album_art", "public anchor Client::album_art (with an extend_from_slice) not found")
        return
    # requests may be issued through private (async) helpers of the client: analyse album_art with them spliced in (A12)
    b = inlined(prog, b, same_impl_helpers(b))
    if b.raw.get("inlined"):
        rep.sample({"C17 helpers spliced into album_art (%s)" % cfg: sorted(set(b.raw["inlined"]))})
    # `let (mut out, expected_size, mime) = match first { .. }`: the components are kept apart
    from ..inline import scalarize_tuples
    b = scalarize_tuples(prog, b)
    g = Cfg(b)
    fl = Flow(b)
    ext = [(bb, t) for bb, t in b.calls() if any(n in APPENDS for n in callee_names(t)) and len(t["args"]) == 2
           and "BytesMut" in b.local_ty(op_local(t["args"][0]) if op_local(t["args"][0]) is not None else 0)]
    if len(ext) != 1:
        rep.fail("C17.progress", cfg + "/accumulation", b.loc(b.span), "expected one extend_from_slice, found %d" % len(ext))
        return
    ebb, et = ext[0]
    out = None
    for bb, i, s in b.stmts():
        if s["k"] == "assign" and s["place"]["l"] == op_local(et["args"][0]) and s["rv"]["k"] == "ref" and not s["rv"]["place"]["p"]:
            out = s["rv"]["place"]["l"]
    if out is None:
        rep.fail("C17.progress", cfg + "/accumulation buffer", b.loc(b.span), "cannot identify the accumulation buffer")
        return
    loop = [l for l in g.loops if ebb in l and not is_await_cycle(b, l)]
    loop = max(loop, key=len) if loop else None
    if loop is None:
        rep.fail("C17.progress", cfg + "/loop", b.loc(b.span), "extend_from_slice is not inside a loop")
        return

    def len_of_out(call_bb):
        t = b.blocks[call_bb]["t"]
        if "bytes::bytes_mut::BytesMut::len" not in callee_names(t):
            return False
        a = op_local(t["args"][0])
        for bb, i, s in b.stmts():
            if s["k"] == "assign" and s["place"]["l"] == a and s["rv"]["k"] == "ref" and s["rv"]["place"]["l"] == out and not s["rv"]["place"]["p"]:
                return True
        return False

    # ---- C17.offset ----
    offs = [(bb, t) for bb, t in b.calls() if any(n in (EMB + "offset", ART + "offset") for n in callee_names(t)) and bb in loop]
    rep.floor("C17.offset", cfg + "/offset calls in the loop", len(offs), 2)
    for bb, t in offs:
        leaves, _ = fl.sources([op_local(t["args"][1])], follow_mut=False)
        lens = [x for x in leaves if x[0] == "call" and len_of_out(x[1]) and x[1] in loop]
        other = [x for x in leaves if not (x[0] == "call" and len_of_out(x[1]) and x[1] in loop)]
        kind = "embedded" if EMB + "offset" in callee_names(t) else "cover"
        rep.check(lens and not other, "C17.offset", "%s/%s offset <- out.len()" % (cfg, kind), b.loc(b.blocks[bb]["ts"]),
                  "the offset of the next %s chunk request does not derive solely from the number of bytes accumulated so far, measured in this iteration (other sources: %s): "
                  "chunks of unequal length would be skipped or duplicated" % (kind, sorted(map(str, other))))
    # ---- C17.progress ----
    rest = sccs(g.succs, loop - {ebb})
    rest = [l for l in rest if not is_await_cycle(b, l) and not all(third_party_block(prog, b, x) for x in l)]
    rep.check(not rest, "C17.progress", cfg + "/every turn extends the buffer or leaves", b.loc(b.blocks[ebb]["ts"]),
              "the chunk loop can go around without appending to the accumulation buffer: no progress towards the expected size")
    # data appended derives from the chunk reply
    cmds_in_loop = [bb for bb, t in b.calls() if CMD in callee_names(t) and bb in loop]
    leaves, _ = fl.sources([op_local(et["args"][1])], through_call=identity_through, follow_mut=False)
    from_reply = any(x[0] == "call" and (x[1] in cmds_in_loop or "core::future::future::Future::poll" in callee_names(b.blocks[x[1]]["t"])) for x in leaves)
    rep.check(from_reply, "C17.progress", cfg + "/appended data comes from the chunk reply", b.loc(b.blocks[ebb]["ts"]),
              "the bytes appended in the loop do not derive from the reply to the chunk request")
    # guard
    guard = None
    for bb in sorted(loop):
        a = switch_atom(b, bb)
        if a and a["kind"] == "cmp" and a["op"] in ("Lt", "Gt", "Le", "Ge", "Ne"):
            ll, rl = op_local(a["lhs"]), op_local(a["rhs"])
            for x, y in ((ll, rl), (rl, ll)):
                if x is None or y is None:
                    continue
                lx, _ = fl.sources([x], follow_mut=False)
                if any(q[0] == "call" and len_of_out(q[1]) and q[1] in loop for q in lx) and \
                        not any(q[0] == "call" and len_of_out(q[1]) and q[1] not in loop for q in lx):
                    guard = (a, y)
                    guard_len_side = "lhs" if x == ll else "rhs"
                    guard_x = x
    size_ok = False
    if guard:
        a, sz = guard
        # the size local is written from `.size` of a reply
        cur = sz
        seen = set()
        work = [sz]
        while work:
            l = work.pop()
            if l in seen:
                continue
            seen.add(l)
            for bb, i, s in b.stmts():
                if s["k"] == "assign" and s["place"]["l"] == l and s["rv"]["k"] == "use":
                    p = op_place(s["rv"]["op"])
                    if p is not None:
                        if last_named_field(p) == "size":
                            size_ok = True
                        work.append(p["l"])
        exits = [x for x in (a["true"], a["false"]) if x not in loop]
        size_ok = size_ok and bool(exits)
    rep.check(guard is not None and size_ok, "C17.progress", cfg + "/guard len(out) < size of the first reply", b.loc(b.span),
              "the loop is not bounded by comparing the accumulated length with the size announced by the first reply")

    # the guard is exactly `len(out) < size` (or `!=`): the loop goes on while bytes are outstanding and stops when none are — an
    # adjusted bound (`len + 1 < size`, `<=`) returns a short picture or never ends
    if guard is not None and size_ok:
        from .. import terms
        a, sz = guard
        tx = terms.strip_views(terms.simplify(terms.term_of_local(b, guard_x, depth=10)))
        ty = terms.simplify(terms.term_of_local(b, sz, depth=10))
        plain = isinstance(tx, tuple) and tx[0] == "call" and tx[1] == "bytes::bytes_mut::BytesMut::len" and not terms.has_kind(ty, "binop") \
            and not terms.has_kind(ty, "call")
        op = a["op"]
        if guard_len_side == "rhs":
            op = {"Lt": "Gt", "Gt": "Lt", "Le": "Ge", "Ge": "Le"}.get(op, op)
        # normalised: len OP size; which edge stays in the loop?
        stays_true, stays_false = a["true"] in loop, a["false"] in loop
        cont = None
        if stays_true and not stays_false:
            cont = op
        elif stays_false and not stays_true:
            cont = {"Lt": "Ge", "Ge": "Lt", "Gt": "Le", "Le": "Gt", "Ne": "Eq", "Eq": "Ne"}[op]
        rep.check(plain and cont in ("Lt", "Ne"), "C17.progress", cfg + "/guard is exactly len(out) < size", b.loc(b.blocks[a["bb"]]["ts"]),
                  "the chunk loop continues while `%s %s %s`; expected the accumulated length itself to be compared `<` with the announced size: the "
                  "last byte(s) would never be requested, or the loop would not stop at the full size"
                  % (terms.show(terms.canon(tx)), cont, terms.show(terms.canon(ty))))
    # ---- C17.fallback ----
    cmd_calls = [bb for bb, t in b.calls() if CMD in callee_names(t)]
    first = [bb for bb in cmd_calls if bb not in loop]
    emb1 = [bb for bb in first if cmd_kind(b, fl, bb) == {"embedded"}]
    cov1 = [bb for bb in first if cmd_kind(b, fl, bb) == {"cover"}]
    if len(emb1) != 1 or len(cov1) != 1:
        rep.fail("C17.fallback", cfg + "/first requests", b.loc(b.span),
                 "expected one embedded-picture request and one cover-file request before the loop (found %d / %d)" % (len(emb1), len(cov1)))
        return
    E, F = emb1[0], cov1[0]
    rep.check(g.dom(E, F), "C17.fallback", cfg + "/embedded first", b.loc(b.blocks[F]["ts"]), "the cover-file request is not preceded by the embedded-picture request")
    res = awaited_result(b, fl, E)
    flags = FlagReach.find_flags(b)
    fr = FlagReach(b, flags)
    init = {}
    for f in flags:
        # value on entry to the match on the result: the constant assigned before E (if unique)
        vals = {const_int(op_const(s["rv"]["op"])) for bb, i, s in b.stmts()
                if s["k"] == "assign" and s["place"]["l"] == f and g.dom(bb, E)}
        init[f] = next(iter(vals)) if len(vals) == 1 else None
    sw_res = [s for s in tables.discr_switches(b) if s["place"]["l"] == res and not s["place"]["p"]]
    if res is None or len(sw_res) != 1:
        rep.fail("C17.fallback", cfg + "/match on the first reply", b.loc(b.blocks[E]["ts"]), "cannot see the match on the reply to the embedded-picture request")
        return
    S = sw_res[0]
    ok_t, err_t = S["arms"].get("Ok"), S["arms"].get("Err")
    # inner Option switch on Ok.0
    inner = [s for s in tables.discr_switches(b) if s["place"]["l"] == res and any(isinstance(e, dict) and e.get("n") == "Ok" for e in s["place"]["p"])]
    none_edge = some_t = None
    if inner:
        I = inner[0]
        none_edge = (I["bb"], I["arms"].get("None", I["otherwise"]))
        some_t = I["arms"].get("Some")
    # code == 5 test on the error path
    code5 = None
    for bb in sorted(g.reach([err_t] if err_t is not None else [])):
        a = switch_atom(b, bb)
        if a and a["kind"] == "cmp" and a["op"] in ("Eq", "Ne"):
            k = const_int(op_const(a["rhs"]))
            x = a["lhs"]
            if k is None:
                k, x = const_int(op_const(a["lhs"])), a["rhs"]
            if k is None:
                continue
            # x derives from `.code` of the error
            l = op_local(x)
            isc = False
            for bb2, i2, s2 in b.stmts():
                if s2["k"] == "assign" and s2["place"]["l"] == l and s2["rv"]["k"] == "use":
                    p = op_place(s2["rv"]["op"])
                    if p is not None and last_named_field(p) == "code":
                        isc = True
            if isc:
                code5 = (a, k)
    allowed_edges = []
    if none_edge:
        allowed_edges.append(none_edge)
    if code5 and code5[1] == 5:
        a = code5[0]
        allowed_edges.append((a["bb"], a["true"] if a["op"] == "Eq" else a["false"]))
    states = fr.reach(S["bb"], init, avoid_edges=allowed_edges)
    from ..cfg import VariantReach
    vr = VariantReach(b)
    entry_states = vr.reach(0)

    def vblocks(start, avoid_edges=(), set_local=None):
        """blocks reachable from `start` in the variant-sensitive state graph, entered with what is known there on the ways from
        the function's entry (`set_local` = (local, variant): after `start` has run, the local holds that variant)"""
        out = set()
        for env in {e for bb0, e in entry_states if bb0 == start}:
            if set_local is None:
                out |= vr.blocks(start, dict(env), avoid_edges=avoid_edges)
                continue
            for n, et in vr.step(start, env):
                e2 = dict(et)
                e2[set_local[0]] = tuple(set_local[1])
                out |= {start} | vr.blocks(n, e2, avoid_edges=avoid_edges)
        return out
    # both are supersets of the feasible blocks (flags / enum variants decide the switches they know about), so is their meet:
    # `match first { Ok(Some(r)) => Some(r), .. }` followed by `match that { None => fallback }` is as good as a flag
    leaks = F in fr.blocks(states) and F in vblocks(S["bb"], avoid_edges=allowed_edges)
    rep.check(none_edge is not None, "C17.fallback", cfg + "/fallback on empty reply", b.loc(b.blocks[E]["ts"]),
              "no Ok(None) edge found after the embedded-picture request")
    rep.check(code5 is not None and code5[1] == 5, "C17.fallback", cfg + "/fallback on ACK code 5", b.loc(b.blocks[E]["ts"]),
              "the error path of the embedded-picture request does not test error.code == 5 (unknown command)%s"
              % ("" if code5 is None else ": it compares with %d" % code5[1]))
    rep.check(not leaks, "C17.fallback", cfg + "/only those two edges reach the fallback", b.loc(b.blocks[F]["ts"]),
              "the cover-file request is reachable from the reply to the embedded-picture request through an edge other than Ok(None) / error.code == 5: "
              "another server error would be swallowed (or a found picture refetched)")
    # both allowed edges do reach F
    for name, e in (("Ok(None)", none_edge), ("code 5", allowed_edges[-1] if code5 else None)):
        if e is not None:
            st = fr.reach(e[1], init)
            rep.check(F in fr.blocks(st), "C17.fallback", cfg + "/%s reaches the fallback" % name, b.loc(b.blocks[F]["ts"]),
                      "the %s edge does not lead to the cover-file request" % name)
    # "propagates any other server error": after an Err reply to the cover-file request or to any chunk request nothing more is
    # requested or appended and no Ok(..) is returned (variant-sensitive reachability from the awaited result, A13)
    others = [bb for bb in cmd_calls if bb != E]
    for bb in others:
        kind = "+".join(sorted(cmd_kind(b, fl, bb))) or "?"
        inst = "%s/error of the %s %s request is returned" % (cfg, kind, "chunk" if bb in loop else "first")
        d = awaited_def(b, fl, bb)
        if d is None:
            rep.fail("C17.fallback", inst, b.loc(b.blocks[bb]["ts"]), "cannot find where the reply to this request is awaited (idiom unknown: failing closed)")
            continue
        after = vr.blocks_after_def(d[0], d[1], ("Err",))
        more = sorted(x for x in after if x in cmd_calls or x == ebb)
        oks = [(x, st) for x in sorted(after) for st in b.blocks[x]["s"] if st["k"] == "assign" and st["place"]["l"] == 0 and not st["place"]["p"]
               and st["rv"]["k"] == "agg" and st["rv"].get("variant") == "Ok"]
        rets = [x for x in after if b.blocks[x]["t"]["k"] == "return"]
        rep.check(not more and not oks and rets, "C17.fallback", inst, b.loc(b.blocks[bb]["ts"]),
                  "after an error reply to the %s request album_art %s: the server's error is swallowed instead of being returned" %
                  (kind, "goes on to another request / append" if more else ("returns Ok(..)" if oks else "does not return")))
    rep.floor("C17.fallback", cfg + "/requests whose error must propagate", len(others), 3)
    # ---- C17.source ----
    # decided on the outcomes of the first request (A13: enum variants and boolean flags decide the switches on the way): after a
    # found embedded picture only the embedded command asks for further chunks and the cover file is not requested; after an
    # empty reply or the tolerated error only the cover-file command does.  However the choice is remembered — a flag set in the
    # arm, `first.is_some()`, the matched value itself — is immaterial.
    dE = awaited_def(b, fl, E)
    if dE is None:
        rep.fail("C17.source", cfg + "/first reply", b.loc(b.blocks[E]["ts"]), "cannot find where the reply to the embedded-picture request is awaited (failing closed)")
    else:
        for variant, want, label in ((("Ok", "Some"), "embedded", "found embedded picture"), (("Ok", "None"), "cover", "no embedded picture"),
                                     (("Err",), "cover", "embedded-picture request not supported")):
            after = vblocks(dE[0], set_local=(dE[1], variant))
            kinds = set()
            for bb in after & set(cmds_in_loop):
                kinds |= cmd_kind(b, fl, bb)
            rep.check(kinds == {want}, "C17.source", "%s/%s: chunks requested with %s" % (cfg, label, "+".join(sorted(kinds)) or "-"), b.loc(b.span),
                      "after the outcome '%s' of the first request the loop requests chunks with %s, expected only the %s command: chunks of "
                      "two different pictures would be mixed" % (label, sorted(kinds) or "nothing", want))
            if variant == ("Ok", "Some"):
                rep.check(F not in after, "C17.source", cfg + "/found picture is not refetched", b.loc(b.blocks[F]["ts"]),
                          "after a successful embedded-picture reply the cover-file request is still issued")
    # ---- C17.mime ----
    ret_mime = False
    for bb, i, s in b.stmts():
        if s["k"] == "assign" and s["rv"]["k"] == "agg" and s["rv"]["agg"] == "tuple" and len(s["rv"]["ops"]) == 2:
            l0, l1 = op_local(s["rv"]["ops"][0]), op_local(s["rv"]["ops"][1])
            s0, _ = fl.sources([l0] if l0 is not None else [], follow_mut=False)
            if l1 is None:
                continue
            # walk moves of the mime local back to a `.mime` read
            work, seen = [l1], set()
            while work:
                l = work.pop()
                if l in seen:
                    continue
                seen.add(l)
                for bb2, i2, s2 in b.stmts():
                    if s2["k"] == "assign" and s2["place"]["l"] == l and s2["rv"]["k"] == "use":
                        p = op_place(s2["rv"]["op"])
                        if p is not None:
                            if last_named_field(p) == "mime":
                                ret_mime = True
                            work.append(p["l"])
    rep.check(ret_mime, "C17.mime", cfg + "/returned MIME <- reply.mime", b.loc(b.span),
              "the MIME type returned does not derive from the `mime` of a reply")
