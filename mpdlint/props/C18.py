"""C18 — handshake: greeting accepted iff valid, password sent before anything else (DESIGN §4/C18)."""
from .. import charset, tables
from ..callgraph import norm
from ..cfg import Cfg, VariantReach, reach
from ..inline import inlined, same_impl_helpers
from ..common import body_by_name, callee_names, const_value_of, family, last_named_field, logic_body, switch_atom
from ..facts import callee, const_str, op_const, op_local, op_place
from ..flow import Flow, identity_through
from .C02 import conn_bodies
from .C02 import SLICE_READS
from .C10 import GREETING, READS, READS_EXT, eof_error_blocks
from .C12 import closure_of_local

CONFIGS_QUICK = ["K1"]
CONFIGS_THOROUGH = ["K1", "K3"]
TECHNIQUE = "static analysis: must-pass-through / dominance ordering of the password exchange before the loop is spawned, guard polarity, provenance of the version string (MIR)"

AC = "mpd_protocol::connection::AsyncConnection::"
SPAWN = "tokio::task::spawn::spawn"
WRITES = {AC + "send", AC + "send_list", AC + "command", AC + "command_list"}


def cmd_word(prog, body, fl, send_bb):
    """Constant command word(s) of the command handed to a send call."""
    t = body.blocks[send_bb]["t"]
    leaves, _ = fl.sources([op_local(t["args"][1])], through_call=lambda t2, k=None: (0,), follow_mut=False)
    words = set()
    for leaf in leaves:
        if leaf[0] == "call":
            t2 = body.blocks[leaf[1]]["t"]
            if any(n in ("mpd_protocol::command::Command::new", "mpd_protocol::command::Command::build") for n in callee_names(t2)):
                w = const_value_of(prog, body, t2["args"][0])
                words.add(w)
            # workspace helper returning a command (e.g. idle())
            f = callee(t2)
            if f and f["def"] in prog.bodies and prog.bodies[f["def"]].crate == "mpd_client":
                hb = prog.bodies[f["def"]]
                for bb3, t3 in hb.calls():
                    if any(n in ("mpd_protocol::command::Command::new", "mpd_protocol::command::Command::build") for n in callee_names(t3)):
                        words.add(const_value_of(prog, hb, t3["args"][0]))
    return words


def order_rule(rep, prog, cfg):
    # the handshake function: the body of mpd_client that spawns the loop (found by the spawn, not by name)
    cands = [x for x in prog.bodies.values() if x.crate == "mpd_client" and any(SPAWN in callee_names(t) for _, t in x.calls())]
    b = max(cands, key=lambda x: len(x.blocks)) if cands else None
    if b is None:
        rep.fail("C18.anchor", cfg + "/do_connect", "client/mod.rs", "no body of do_connect spawns the connection loop")
        return
    # the exchange may live in private (async) helpers of the client module: analyse with them spliced in (A12); edges that
    # are infeasible for the Result/Option variant a value is known to hold are pruned (A13)
    b = inlined(prog, b, same_impl_helpers(b))
    if b.raw.get("inlined"):
        rep.sample({"C18 helpers spliced into the handshake (%s)" % cfg: sorted(set(b.raw["inlined"]))})
    g = Cfg(b)
    fl = Flow(b)
    vr = VariantReach(b)

    def reach(_succs, starts, avoid=(), avoid_edges=()):
        out = set()
        for st in starts:
            out |= vr.blocks(st, None, avoid, avoid_edges)
        return out
    spawns = [bb for bb, t in b.calls() if SPAWN in callee_names(t)]
    sends = [bb for bb, t in b.calls() if any(n in WRITES for n in callee_names(t))]
    recvs = [bb for bb, t in b.calls() if AC + "receive" in callee_names(t)]
    # the match on the password option
    pw_local = None
    for i, l in enumerate(b.locals):
        if l["name"] == "password" and l["ty"].startswith("core::option::Option<&"):
            pw_local = i
    sw = [s for s in tables.discr_switches(b) if s["place"]["l"] == pw_local and not s["place"]["p"]]
    if len(spawns) != 1 or pw_local is None or len(sw) != 1:
        rep.fail("C18.order", cfg + "/shape", b.loc(b.span), "cannot find the spawn (%d) or the match on the password option" % len(spawns))
        return
    SP = spawns[0]
    some_t = sw[0]["arms"].get("Some")
    none_t = sw[0]["arms"].get("None", sw[0]["otherwise"])
    # connect happens first
    conn = [bb for bb, t in b.calls() if AC + "connect" in callee_names(t)]
    rep.check(len(conn) == 1 and all(g.dom(conn[0], x) for x in sends + recvs + [SP]), "C18.order", cfg + "/greeting first", b.loc(b.span),
              "the greeting is not awaited before everything else")
    pw_sends = [bb for bb in sends if "password" in cmd_word(prog, b, fl, bb)]
    other_sends = [bb for bb in sends if bb not in pw_sends]
    rep.check(not other_sends, "C18.order", cfg + "/nothing but the password is written before the loop", b.loc(b.span),
              "do_connect writes %s before the connection loop exists; idle must be issued only by the loop (after the password was accepted)"
              % [sorted(cmd_word(prog, b, fl, x)) for x in other_sends])
    if len(pw_sends) != 1 or len(recvs) != 1:
        rep.fail("C18.order", cfg + "/password exchange", b.loc(b.span), "expected one password write and one receive in do_connect (found %d / %d)" % (len(pw_sends), len(recvs)))
        return
    S, R = pw_sends[0], recvs[0]
    # argument of the password command derives from the password parameter
    t = b.blocks[S]["t"]
    leaves, _ = fl.sources([op_local(t["args"][1])], through_call=lambda t2, k=None: tuple(range(4)), follow_mut=False)
    seen_pw = False
    _, visited = fl.sources([op_local(t["args"][1])], through_call=lambda t2, k=None: tuple(range(4)), follow_mut=False)
    seen_pw = pw_local in visited
    rep.check(seen_pw, "C18.order", cfg + "/password argument", b.loc(b.blocks[S]["ts"]), "the argument of the password command does not derive from the supplied password")
    # is_error test
    test = None
    for bb in sorted(b.reachable()):
        a = switch_atom(b, bb)
        if a and a["kind"] == "call" and "mpd_protocol::response::Response::is_error" in a["names"]:
            test = a
    if test is None:
        rep.fail("C18.verdict", cfg + "/is_error test", b.loc(b.blocks[R]["ts"]),
                 "the reply to the password is not judged with Response::is_error(): any ACK in the reply (also after list_OK lines) must reject the password")
        return
    # ordering on the Some path
    order_ok = g.dom(S, R) and g.dom(R, test["bb"])
    rep.check(order_ok, "C18.order", cfg + "/send -> receive -> verdict", b.loc(b.blocks[S]["ts"]), "the password exchange is not send, then receive, then verdict")
    # the spawn is reachable from the Some arm only through the accepted edge
    x = reach(g.succs, [some_t], avoid_edges=[(test["bb"], test["false"])])
    rep.check(SP not in x, "C18.order", cfg + "/loop spawned only after acceptance", b.loc(b.blocks[SP]["ts"]),
              "with a password supplied, the connection loop (which issues idle) can be spawned without passing the 'not an error' side of the password verdict")
    rep.check(SP in reach(g.succs, [test["false"]]) and SP not in reach(g.succs, [test["true"]], avoid=[test["bb"]]), "C18.order",
              cfg + "/accepted edge reaches the spawn", b.loc(b.blocks[SP]["ts"]), "the accepted edge does not lead to the spawn, or the rejected edge does")
    # nothing else is written on failing edges: writes reachable from the Some arm without the accepted edge = the password only
    extra = [bb for bb in sends if bb in x and bb != S]
    rep.check(not extra, "C18.order", cfg + "/nothing written after a failure", b.loc(b.span), "something is written after the password exchange failed")
    rep.check(SP in reach(g.succs, [none_t], avoid=sends + recvs), "C18.order", cfg + "/no password: straight to the loop", b.loc(b.blocks[SP]["ts"]),
              "without a password the loop is not spawned directly")
    # ---- C18.verdict ----
    inc = {bb for bb, i, s in b.stmts() if s["k"] == "assign" and s["rv"]["k"] == "agg" and s["rv"].get("variant") == "IncorrectPassword"}
    tr = reach(g.succs, [test["true"]], avoid=[test["bb"]])
    rep.check(inc and inc <= tr and not (inc & reach(g.succs, [0], avoid_edges=[(test["bb"], test["true"])])), "C18.verdict",
              cfg + "/IncorrectPassword exactly on is_error", b.loc(b.span),
              "IncorrectPassword is not returned exactly on the is_error()-true edge")
    rets = [r for r in tr if b.blocks[r]["t"]["k"] == "return"]
    no_inc = reach(g.succs, [test["true"]], avoid=list(inc) + [test["bb"]])
    rep.check(not [r for r in no_inc if b.blocks[r]["t"]["k"] == "return"], "C18.verdict", cfg + "/rejected => IncorrectPassword", b.loc(b.span),
              "a rejected password can return something other than IncorrectPassword")
    # Ok(None) after the password -> UnexpectedEof
    eofs = eof_error_blocks(b)
    rep.check(bool(eofs), "C18.verdict", cfg + "/close after password => UnexpectedEof", b.loc(b.blocks[R]["ts"]),
              "a connection closed while waiting for the password reply is not reported as io::Error(UnexpectedEof)")
    # ---- C18.version ----
    pv = [(bb, t) for bb, t in b.calls() if AC + "protocol_version" in callee_names(t)]
    ok = False
    for bb, i, s in b.stmts():
        if s["k"] == "assign" and s["rv"]["k"] == "agg" and s["rv"]["agg"] == "adt" and norm(s["rv"]["adt_name"]) == "mpd_client::client::Client":
            ops = dict(zip(s["rv"]["fields"], s["rv"]["ops"]))
            l = op_local(ops.get("protocol_version"))
            leaves, _ = fl.sources([l] if l is not None else [], through_call=identity_through, follow_mut=False)
            ok = any(x[0] == "call" and x[1] in [p[0] for p in pv] for x in leaves) and not any(x[0] == "const" for x in leaves)
    rep.check(ok, "C18.version", cfg + "/Client.protocol_version <- connection", b.loc(b.span),
              "the client's protocol version does not derive (unchanged) from the connection's version string")


def greeting_rules(rep, prog, cfg):
    lb = conn_bodies(prog)
    for name in ("blocking/connect", "async/connect"):
        if cfg == "K3" and name.startswith("async"):
            continue
        b = lb.get(name)
        if b is None:
            rep.fail("C18.anchor", "%s/%s" % (cfg, name), "connection.rs", "connect body not found")
            continue
        if not any(st["k"] == "assign" and st["rv"]["k"] == "agg" and norm(st["rv"].get("adt_name", "")) == "mpd_protocol::connection::Connection"
                   for _, _, st in b.stmts()):
            # the connection value may be built by a private constructor (`Connection::greeted(io, version, buf)`): spliced in (A12)
            from ..inline import inlined, module_private_helpers
            base_want = module_private_helpers(b)
            b = inlined(prog, b, lambda cb: base_want(cb) and "connection::Connection<" in cb.local_ty(0), depth=1)
        fl = Flow(b)
        g = Cfg(b)
        gcalls = [bb for bb, t in b.calls() if GREETING in callee_names(t)]
        # the version stored in the connection derives from the parser's output, verbatim
        ok = False
        for bb, i, s in b.stmts():
            if s["k"] == "assign" and s["rv"]["k"] == "agg" and s["rv"]["agg"] == "adt" and norm(s["rv"]["adt_name"]) == "mpd_protocol::connection::Connection":
                ops = dict(zip(s["rv"]["fields"], s["rv"]["ops"]))
                l = op_local(ops.get("protocol_version"))
                leaves, _ = fl.sources([l] if l is not None else [], through_call=identity_through, follow_mut=False)
                calls = [x for x in leaves if x[0] == "call"]
                ok = any(x[1] in gcalls for x in calls) and not any(x[0] == "const" for x in leaves) and \
                    all(x[1] in gcalls or identity_through(b.blocks[x[1]]["t"]) is not None for x in calls)
                if not ok and l is not None:
                    # field-sensitive second look: the version may travel in a tuple next to other values (e.g. a length)
                    from .. import terms
                    from ..flow import IDENTITY_LIKE
                    T = terms.simplify(terms.cut_at(terms.term_of_local(b, l, depth=16), {GREETING}))
                    cs = terms.calls_in(T)
                    ok = GREETING in cs and not terms.has_kind(T, "const") and not terms.has_kind(T, "unknown") and not terms.has_kind(T, "free") and \
                        all(c == GREETING or c in IDENTITY_LIKE or (c or "").rsplit("::", 1)[-1].split("::<")[0] in terms.VIEW_CALLS for c in cs)
        rep.check(ok, "C18.greeting-loop", "%s/%s version verbatim" % (cfg, name), b.loc(b.span),
                  "the stored protocol version does not derive verbatim from the greeting parser's output")
        # the session starts with nothing buffered: whatever followed the greeting in the same segment must not be taken for the
        # reply to the first command (the password verdict).  Append-based buffer: cleared on every path from the parsed greeting
        # to the connection value; counted buffer: the count starts at the constant 0.
        for bb, i, s in b.stmts():
            if s["k"] == "assign" and s["rv"]["k"] == "agg" and s["rv"]["agg"] == "adt" and norm(s["rv"]["adt_name"]) == "mpd_protocol::connection::Connection":
                ops = dict(zip(s["rv"]["fields"], s["rv"]["ops"]))
                bufl = op_local(ops.get("recv_buf")) if ops.get("recv_buf") is not None else None
                for _ in range(4):   # the operand is a temporary moved from the user's buffer local
                    defs = [s4 for _, _, s4 in b.stmts() if s4["k"] == "assign" and s4["place"]["l"] == bufl and not s4["place"]["p"]]
                    if len(defs) == 1 and defs[0]["rv"]["k"] == "use" and op_local(defs[0]["rv"]["op"]) is not None and not (op_place(defs[0]["rv"]["op"]) or {}).get("p"):
                        bufl = op_local(defs[0]["rv"]["op"])
                    else:
                        break
                cnt = op_const(ops["total_received"]) if ops.get("total_received") is not None else None
                reads_slice = any(x in SLICE_READS for bb2, t2 in b.calls() for x in callee_names(t2)) or any(
                    any(x in SLICE_READS for fb in family(prog, hb) for bb3, t3 in fb.calls() for x in callee_names(t3))
                    for bb2, t2 in b.calls() for n in callee_names(t2) if n in READS and n not in READS_EXT for hb in body_by_name(prog, n))
                if reads_slice:
                    fresh = cnt is not None and cnt.get("int") == 0
                else:
                    clears = set()
                    for bb2, t2 in b.calls():
                        if "bytes::bytes_mut::BytesMut::clear" in callee_names(t2) and t2["args"]:
                            a0 = op_local(t2["args"][0])
                            for bb3, i3, s3 in b.stmts():
                                if s3["k"] == "assign" and s3["place"]["l"] == a0 and s3["rv"]["k"] == "ref" and s3["rv"]["place"]["l"] == bufl and not s3["rv"]["place"]["p"]:
                                    clears.add(bb2)
                    fresh = bool(clears) and bool(gcalls) and bb not in reach(g.succs, [gcalls[0]], avoid=clears)
                rep.check(fresh, "C18.fresh-buffer", "%s/%s session starts with an empty buffer" % (cfg, name), b.loc(s["span"]),
                          "bytes received together with the greeting stay in the connection's buffer: the first receive() of the session (the reply to "
                          "`password`) would be answered from data that arrived before the command was written")
        # Ok leaves the loop, Incomplete goes back to the read
        if len(gcalls) == 1:
            loops = [l for l in g.loops if gcalls[0] in l]
            sw = [s for s in tables.discr_switches(b) if s["place"]["l"] == b.blocks[gcalls[0]]["t"]["dest"]["l"] and not s["place"]["p"]]
            ok2 = False
            if loops and sw:
                okt = sw[0]["arms"].get("Ok")
                L = max(loops, key=len)
                # from the Ok arm the loop header is not reachable again
                # (variant-sensitive, A13: with the parse in a spliced helper its outcomes merge in one return block)
                from ..cfg import vreach
                ok2 = okt is not None and gcalls[0] not in vreach(b, [okt])
            rep.check(ok2, "C18.greeting-loop", "%s/%s Ok leaves the loop" % (cfg, name), b.loc(b.span),
                      "a successfully parsed greeting does not end the read loop")
    # "any ACK" to the password is the incorrect-password verdict: the client sees an ACK only if the ACK line parser accepts it, so
    # the ACK line language is the documented one (whatever command name the server puts between the braces)
    from .C03 import grammar_rule
    grammar_rule(rep, prog, cfg, rule="C18.verdict", only=("Error",))
    # "however it is segmented": a greeting cut anywhere (inside `OK MPD ` too) must come back as 'need more', so every combinator of
    # the greeting parser is the streaming one
    from .C02 import streaming_rule
    streaming_rule(rep, prog, cfg, rule="C18.greeting-grammar", root_names=(GREETING,), floor=2)
    # grammar clause: the greeting parser denotes exactly  "OK MPD " ⟨[^\n]+⟩ "\n"  (A10)
    from .. import grammar as G
    bs = body_by_name(prog, GREETING)
    if len(bs) != 1:
        rep.fail("C18.anchor", cfg + "/parser::greeting", "parser.rs", "greeting parser not found")
        return
    b = bs[0]
    ref = G.seq(G.lit(b"OK MPD "), G.cap(G.rep(G.ALL - {10}, 1)), G.lit(b"\n"))
    try:
        ex = G.Extractor(prog)
        term = G.flatten(ex.resolve(ex.of_fn(b)))
        same, wit = G.equivalent(term, G.flatten(ref))
    except G.Unsupported as e:
        rep.fail("C18.greeting-grammar", cfg + "/language", b.loc(b.span), "the greeting grammar cannot be extracted (%s): failing closed" % e)
        return
    rep.check(same, "C18.greeting-grammar", cfg + "/language", b.loc(b.span),
              "the greeting parser denotes  %s  — a valid greeting is  %s ; `%s` is accepted only by the %s (the version must be non-empty, reported verbatim, and end at the line feed)"
              % (G.pretty(term), G.pretty(G.flatten(ref)), wit[1] if wit else "", wit[0] if wit else ""), detail={"grammar": G.pretty(term)})
    got = G.conds_of(term)
    rep.check(len(got) == 1 and any(x.endswith("from_utf8") for x in got[0]), "C18.greeting-grammar", cfg + "/version is validated UTF-8", b.loc(b.span),
              "the version string is converted with %s, expected from_utf8" % got)


def run(rep, progs, tier):
    rep.explanation = (
        "Rule-based static analysis (no execution). In do_connect (public anchors Client::connect*) the spawn "
        "of the connection loop — the only place idle is written — is, on the password path, reachable only "
        "through: write of a command built from the constant \"password\" whose argument derives from the "
        "parameter, then receive, then the false side of Response::is_error(); nothing else is written "
        "before the loop and nothing after a failed exchange; IncorrectPassword is returned exactly on the "
        "is_error-true edge; a close yields UnexpectedEof. Both connects store the version verbatim from "
        "the greeting parser's output and leave the read loop on Ok; the greeting grammar clause: prefix "
        "'OK MPD ', non-empty version of non-LF characters, LF. Malformed => InvalidMessage is C09.invalid, "
        "EOF => UnexpectedEof is C10.connect.")
    rep.rule("C18.order", "password write -> receive -> accepted edge dominate the spawn; nothing else written before/after")
    rep.rule("C18.verdict", "any ACK => IncorrectPassword; close => UnexpectedEof")
    rep.rule("C18.greeting-loop", "version verbatim from the parser; Ok leaves the loop")
    rep.rule("C18.greeting-input", "the greeting parser is offered only received bytes (no buffer padding) in both flavours")
    rep.rule("C18.fresh-buffer", "connect hands over an empty receive state (buffer cleared / count 0) after the greeting")
    rep.rule("C18.greeting-grammar", "'OK MPD ' + non-empty non-LF version + LF")
    rep.rule("C18.version", "Client::protocol_version derives from the connection's version")
    rep.rule("C18.malformed", "a parse error of the greeting that is not 'incomplete' ends in Err(InvalidMessage) (C09's rule on the connect loops)")
    rep.trusted = ["rustc MIR construction", "mpdfacts exporter", "tokio::spawn semantics", "MPD greeting format"]
    for cfg, prog in progs.items():
        if cfg != "K3":
            order_rule(rep, prog, cfg)
        from .C02 import valid_prefix_rule
        from .C10 import READS
        READS.bind(prog)
        greeting_rules(rep, prog, cfg)
        valid_prefix_rule(rep, prog, cfg, rule="C18.greeting-input", which=("blocking/connect", "async/connect"))
        from .C02 import count_scope_rule
        count_scope_rule(rep, prog, cfg, rule="C18.greeting-input", which=("blocking/connect", "async/connect"))
        # "a malformed greeting yields the invalid-message error": how the connect loops classify the greeting parser's errors
        # is C09's rule (with the cross-site condition on `Failure`), decided here for C18's clause
        from .C09 import invalid_rule
        with rep.importing("C09.invalid", "C18.malformed"):
            invalid_rule(rep, prog, cfg)
