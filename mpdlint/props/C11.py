"""C11 — filter expressions mean on the server what was built on the client.

Decided statically in three parts:
  grammar   the renderer of each expression node writes the text MPD's filter grammar expects for that node — `(TAG OP "VALUE")`,
            `(!EXPR)`, `(EXPR AND EXPR ..)`, the whole expression as one quoted request parameter — with each slot filled from the
            matching field (A8 write-event paths of the MIR, templates decoded);
  operators Operator -> text table = MPD's operator table;
  value     the value escaper's exact transducer per character-class set (A15) composed with the two decoders a value passes through
            (request tokenizer inside double quotes, then the filter parser's quoted string) is the identity;
  builders  `and` keeps every condition of both operands in order, `negate` wraps the whole expression, `new` stores its parameters
            in their fields.
"""
import itertools
import re

from .. import strenc, fmttpl
from ..callgraph import norm
from ..common import body_by_name, impl_methods, callee_names
from ..facts import callee, op_const, op_local, const_str
from ..flow import Flow
from ..shapes import render_shapes

LEVEL = ("exhaustive over character-class sets for the value escaper (abstract interpretation composed with the two reference decoders); "
         "rule-based (write-event paths, tables, provenance) for the expression grammar and the builders")
CONFIGS_QUICK = ["K1"]
CONFIGS_THOROUGH = ["K1", "K2"]
TECHNIQUE = ("static analysis: write-event path enumeration of the filter renderers' MIR compared with MPD's filter grammar, operator table extraction, "
             "abstract interpretation of the value escaper over character-class sets composed with tokenizer and filter-string decoders, provenance rules for and/negate/new")

DQ, BS = 0x22, 0x5C
REF_CUTS = [0, 1, 10, 11, 0x22, 0x23, 0x27, 0x28, 0x5C, 0x5D]
OPERATORS = {"Equal": "==", "NotEqual": "!=", "Contain": "contains", "Match": "=~", "NotMatch": "!~"}


# ---- write events -> flat pieces --------------------------------------------------------------------------------------------------
def flatten(path):
    """[('lit', bytes) | ('arg', descriptor) | ('call', name)] of one path of write events, adjacent literals merged; None if an
    event is not understood"""
    out = []

    def lit(bs):
        if out and out[-1][0] == "lit":
            out[-1] = ("lit", out[-1][1] + bs)
        else:
            out.append(("lit", bs))

    for ev in path:
        m = re.match(r"^u8\((?:const|int):(\d+)(?:_u8)?\)$", ev)
        if m:
            lit(bytes([int(m.group(1))]))
            continue
        m = re.match(r"^slice\(tpl:(b(?:\"|').*(?:\"|'))\)$", ev)
        if m:
            bs = fmttpl.parse_const(m.group(1))
            if bs is None:
                return None
            lit(bs)
            continue
        m = re.match(r"^fmt\(tpl:(b(?:\"|').*?(?:\"|')); (.*)\)$", ev) or re.match(r"^fmt\(tpl:(b(?:\"|').*?(?:\"|'))\)$", ev)
        if m:
            tpl = fmttpl.parse_const(m.group(1))
            pieces = fmttpl.decode(tpl) if tpl is not None else None
            if pieces is None:
                return None
            args = _split_args(m.group(2)) if m.lastindex and m.lastindex >= 2 and m.group(2) else []
            i = 0
            for p in pieces:
                if p[0] == "lit":
                    lit(p[1])
                else:
                    if not p[2] or i >= len(args):
                        return None        # a placeholder with formatting options, or more placeholders than arguments
                    out.append(("arg", args[i]))
                    i += 1
            if i != len(args):
                return None
            continue
        m = re.match(r"^slice\((<.*>|f:[\w.]+)\)$", ev)
        if m:
            # bytes of a string taken from a field (`buf.put_slice(tag.as_str().as_bytes())`): the same slot as `{}` of that string
            out.append(("arg", m.group(1).replace("|fn:<impl str>::as_bytes", "").replace("|fn:String::as_bytes", "")))
            continue
        m = re.match(r"^call\((\w+)\)$", ev)
        if m:
            out.append(("call", m.group(1)))
            continue
        m = re.match(r"^render\((.*)\)$", ev)
        if m:
            out.append(("call", "render:" + m.group(1)))
            continue
        return None
    return out


def _split_args(s):
    parts, depth, cur = [], 0, ""
    for ch in s:
        if ch == "<":
            depth += 1
        elif ch == ">":
            depth -= 1
        if ch == "," and depth == 0:
            parts.append(cur.strip())
            cur = ""
        else:
            cur += ch
    if cur.strip():
        parts.append(cur.strip())
    return parts


def show(flat):
    return " ".join(("%r" % p[1].decode("latin-1")) if p[0] == "lit" else "{%s}" % p[1] for p in flat)


def grammar_rule(rep, prog, cfg):
    rule = "C11.grammar"
    ft = body_by_name(prog, "mpd_client::filter::FilterType::render")
    fr = body_by_name(prog, "mpd_client::filter::Filter::render")
    if len(ft) != 1 or len(fr) != 1:
        rep.fail(rule + ".anchor", cfg, "filter.rs", "FilterType::render / Filter::render not found exactly once (failing closed)")
        return None
    escaper = None
    b = ft[0]
    where = b.loc(b.span)
    # what a node writes may sit in private helpers of the module (`render_conjunction(inner, buf)`, `parenthesized(buf, |buf| ..)`):
    # spliced in (A12, the closure handed to a helper is spliced where the helper calls it); the renderer itself (recursion) and
    # value-returning helpers (the escaper: it is a slot of the template) stay calls
    from ..inline import inlined, module_private_helpers
    base_want = module_private_helpers(b, exclude=(norm(b.name),))
    b_in = inlined(prog, b, lambda cb: base_want(cb) and cb.local_ty(0) == "()" and norm(cb.name) != norm(b.name), depth=3)
    if b_in.raw.get("inlined"):
        b = b_in
    sh, problems = render_shapes(prog, b)
    if problems:
        rep.fail(rule, cfg + "/analysable", where, "FilterType::render is not analysable: %s (failing closed)" % problems[:2])
        return None
    flats = []
    for p in sh:
        f = flatten(list(p))
        if f is None:
            rep.fail(rule, cfg + "/analysable", where, "a write event of FilterType::render is not understood: %s (failing closed)" % (list(p),))
            return None
        flats.append(f)
    tag_paths = [f for f in flats if any(x[0] == "arg" for x in f)]
    not_paths = [f for f in flats if f and f[0] == ("lit", b"(!")]
    and_paths = [f for f in flats if f not in tag_paths and f not in not_paths]
    # (TAG OP "VALUE"): inside the request parameter the inner quotes are written escaped for the tokenizer (\")
    ok_tag = len(tag_paths) == 1
    detail = None
    if ok_tag:
        f = tag_paths[0]
        kinds = [x[0] for x in f]
        ok_tag = kinds == ["lit", "arg", "lit", "arg", "lit", "arg", "lit"]
        if ok_tag:
            lits = [x[1] for x in f if x[0] == "lit"]
            args = [x[1] for x in f if x[0] == "arg"]
            ok_tag = lits == [b"(", b" ", b' \\"', b'\\")']
            m0 = re.match(r"^<f:Tag\.tag\|fn:(?:\w+::)*Tag::as_str>$", args[0])
            m1 = re.match(r"^<f:Tag\.operator\|fn:(?:\w+::)*Operator::as_str>$", args[1])
            m2 = re.match(r"^<f:Tag\.value\|fn:([\w:]+)>$", args[2]) or re.match(r"^(f:Tag\.value)$", args[2])
            ok_tag = ok_tag and bool(m0 and m1 and m2)
            if m2:
                escaper = m2.group(1)
            detail = {"tag_expression": show(f)}
    rep.check(ok_tag, rule, cfg + "/tag expression", where,
              "a tag condition must be written as `(` TAG ` ` OPERATOR ` \\\"` escaped VALUE `\\\")` with the tag's protocol name, the operator's text and the "
              "escaped value in these slots; found %s" % [show(f) for f in tag_paths], detail=detail)
    ok_not = len(not_paths) == 1 and [x[0] for x in not_paths[0]] == ["lit", "call", "lit"] and not_paths[0][2] == ("lit", b")") and not_paths[0][1][1].startswith("render")
    rep.check(ok_not, rule, cfg + "/negation", where, "a negation must be written as `(!` EXPR `)`; found %s" % [show(f) for f in not_paths])
    R = ("call", "render")
    norm_and = []
    for f in and_paths:
        norm_and.append([x if x[0] != "call" else R for x in f])
    P_ONE = [("lit", b"("), R, ("lit", b")")]
    P_SEP = [("lit", b"( AND "), R, ("lit", b")")]                       # a later iteration of a loop that separates by itself
    P_HEAD = [("lit", b"("), R, ("lit", b" AND "), R, ("lit", b")")]      # head rendered bare, every following one preceded by AND
    P_NONE = [("lit", b"()")]
    have = {k: (v in norm_and) for k, v in (("one", P_ONE), ("sep", P_SEP), ("head", P_HEAD))}
    extra = [show(f) for f in norm_and if f not in (P_ONE, P_SEP, P_HEAD, P_NONE)]
    form = "loop" if have["one"] and have["sep"] and not have["head"] else ("head-rest" if have["one"] and have["head"] and not have["sep"] else None)
    rep.check(form is not None and not extra, rule, cfg + "/conjunction", where,
              "a conjunction must be written as `(` EXPR { ` AND ` EXPR } `)`; found loop paths %s" % [show(f) for f in norm_and])
    # separator on every iteration but the first
    if form == "head-rest":
        head_rest_rule(rep, prog, cfg, b)
    else:
        sep_rule(rep, prog, cfg, b)
    # the whole expression is one quoted request parameter
    sh2, problems2 = render_shapes(prog, fr[0])
    flats2 = [flatten(list(p)) for p in sh2]
    ok_outer = not problems2 and len(flats2) == 1 and flats2[0] is not None and [x[0] for x in flats2[0]] == ["lit", "call", "lit"] \
        and flats2[0][0] == ("lit", b'"') and flats2[0][2] == ("lit", b'"')
    rep.check(ok_outer, rule, cfg + "/quoted parameter", fr[0].loc(fr[0].span),
              "the expression must be sent as one double-quoted request parameter: `\"` EXPR `\"`; found %s" % [show(f) if f else None for f in flats2])
    # the Argument impl sends exactly that
    n = 0
    for imp, ab in impl_methods(prog, "command::Argument", "render"):
        if not imp["info"]["self"].endswith("filter::Filter"):
            continue
        n += 1
        calls = [callee_names(t) for _, t in ab.calls()]
        to_render = [c for c in calls if any(x.endswith("filter::Filter::render") for x in c)]
        writes = [c for c in calls if any("BufMut::put" in x or "BytesMut::extend" in x or "write_fmt" in x for x in c)]
        rep.check(len(to_render) == 1 and not writes, rule, cfg + "/argument impl", ab.loc(ab.span),
                  "`impl Argument for Filter` must send exactly what Filter::render writes (one call, no write of its own)")
    rep.floor(rule, cfg + "/Argument impl for Filter", n, 1)
    return escaper


def _sep_writes(prog, b):
    from ..common import const_value_of
    seps = []
    for bb, t in b.calls():
        if any("BufMut::put_slice" in n or "extend_from_slice" in n for n in callee_names(t)) and len(t["args"]) == 2:
            v = const_value_of(prog, b, t["args"][1])
            if isinstance(v, bytes):
                v = v.decode("latin-1")
            if v == " AND ":
                seps.append(bb)
    return seps


def head_rest_rule(rep, prog, cfg, b):
    """head-then-rest form: the first condition is rendered before the loop, the loop writes ` AND ` and then the condition on every
    iteration, unconditionally"""
    rule = "C11.grammar"
    from ..cfg import Cfg
    g = Cfg(b)
    seps = _sep_writes(prog, b)
    renders = [bb for bb, t in b.calls() if any(n.endswith("filter::FilterType::render") for n in callee_names(t))]
    ok = len(seps) == 1
    why = "expected exactly one write of ` AND `"
    if ok:
        sep = seps[0]
        loops = [l for l in g.loops if sep in l]
        ok = len(loops) >= 1
        why = "the separator is not written in a loop"
        if ok:
            loop = min(loops, key=len)
            inside = [r for r in renders if r in loop]
            before = [r for r in renders if r not in loop and any(g.dom(r, x) for x in loop)]
            # no boolean test between the loop's item and the separator: the separator block is control dependent only on the
            # iterator's Some / None switch, i.e. every path through the loop body passes it
            body_entry_paths_skip = False
            from ..cfg import reach
            for r in inside:
                # the render inside the loop is reached only through the separator (within one iteration)
                preds_free = reach(g.succs, [x for x in loop if b.blocks[x]["t"]["k"] == "call" and any(n.endswith("Iterator::next") for n in callee_names(b.blocks[x]["t"]))], avoid={sep})
                if r in preds_free:
                    body_entry_paths_skip = True
            ok = len(inside) == 1 and len(before) == 1 and not body_entry_paths_skip
            why = "expected the head rendered once before the loop and, in the loop, the separator on every path to the one render (renders before=%d, in loop=%d, render reachable without the separator=%s)" % (len(before), len(inside), body_entry_paths_skip)
    rep.check(ok, rule, cfg + "/separator placement", b.loc(b.span), "` AND ` must be written before every condition except the first: " + why)


def sep_rule(rep, prog, cfg, b):
    """` AND ` is written on every iteration except the first: the write is guarded by a flag that is true on entry to the loop,
    tested on its false side, and cleared on the other side (or an equivalent index test is not attempted: fail closed)."""
    rule = "C11.grammar"
    from ..cfg import Cfg
    seps = _sep_writes(prog, b)
    if len(seps) != 1:
        rep.fail(rule, cfg + "/separator placement", b.loc(b.span), "expected exactly one write of ` AND ` in the conjunction loop, found %d (failing closed)" % len(seps))
        return
    g = Cfg(b)
    sep = seps[0]
    # the switch that decides between "write the separator" and "do not": nearest dominating switch on a bool local
    guard = None
    for bb in sorted(b.reachable()):
        t = b.blocks[bb]["t"]
        if t["k"] == "switch" and t.get("ty") == "bool" and g.dom(bb, sep) and bb != sep:
            l = op_local(t["discr"])
            if l is not None:
                guard = (bb, l, t)
    if guard is None:
        rep.fail(rule, cfg + "/separator placement", b.loc(b.span), "the write of ` AND ` is not guarded by a boolean test (failing closed)")
        return
    gbb, gl, gt = guard
    # enumerate form: the guard compares the index `enumerate()` yields with zero; the separator is on the non-zero side
    from ..common import switch_atom
    at = switch_atom(b, gbb)
    if at is not None and at.get("kind") == "cmp":
        from ..common import op_int
        k, x, op = op_int(b, at["rhs"]), at["lhs"], at["op"]
        if k is None:
            k, x = op_int(b, at["lhs"]), at["rhs"]
            op = {"Lt": "Gt", "Gt": "Lt", "Le": "Ge", "Ge": "Le"}.get(op, op)
        xl = op_local(x)
        if k in (0, 1) and xl is not None:
            leaves, _ = Flow(b).sources([xl], through_call=None, follow_mut=False)
            from_enum = any(lf[0] == "call" and any("Enumerate" in n and n.endswith("::next") for n in callee_names(b.blocks[lf[1]]["t"])) for lf in leaves)
            nonzero_t = ({"Gt": at["true"], "Ne": at["true"], "Eq": at["false"], "Le": at["false"]} if k == 0 else {"Ge": at["true"], "Lt": at["false"]}).get(op)
            if from_enum and nonzero_t is not None:
                zero_t = at["false"] if nonzero_t == at["true"] else at["true"]
                arm_nz = {y for y in b.reachable() if g.dom(nonzero_t, y)}
                arm_z = {y for y in b.reachable() if g.dom(zero_t, y)}
                rep.check(sep in arm_nz and sep not in arm_z, rule, cfg + "/separator placement", b.loc(b.span),
                          "` AND ` must be written on every iteration except the first: the index test puts it on the index-zero side")
                return
    # follow copies back to the flag variable
    flag = gl
    for _ in range(4):
        defs = [s for _, _, s in b.stmts() if s["k"] == "assign" and s["place"]["l"] == flag and not s["place"]["p"]]
        if len(defs) == 1 and defs[0]["rv"]["k"] == "use" and op_local(defs[0]["rv"]["op"]) is not None:
            flag = op_local(defs[0]["rv"]["op"])
        else:
            break
    zero = [x for v, x in gt["targets"] if v == 0]
    false_side = set(g.reach(zero)) if zero else set()
    true_side = set(g.reach([gt["otherwise"]]))
    sep_on_false = sep in false_side and not (sep in true_side and sep not in false_side)
    # constant assignments to the flag
    assigns = []
    for bb, i, s in b.stmts():
        if s["k"] == "assign" and s["place"]["l"] == flag and not s["place"]["p"] and s["rv"]["k"] == "use" and "const" in s["rv"]["op"] \
                and s["rv"]["op"]["const"].get("ty") == "bool":
            assigns.append((bb, bool(s["rv"]["op"]["const"].get("int"))))
    init_true = [bb for bb, v in assigns if v and g.dom(bb, gbb) and bb not in g.reach([gbb])]
    # blocks exclusively on the true side (before the paths join again)
    only_true = true_side - false_side if zero else set()
    # the join makes plain reachability useless inside a loop: use the immediate arm (blocks dominated by the arm entry)
    arm_true = {x for x in b.reachable() if g.dom(gt["otherwise"], x)}
    arm_false = {x for x in b.reachable() if zero and g.dom(zero[0], x)}
    cleared_in_true_arm = [bb for bb, v in assigns if not v and bb in arm_true and bb not in arm_false]
    sep_in_false_arm = sep in arm_false and sep not in arm_true
    other_sets = [bb for bb, v in assigns if v and bb not in init_true]
    ok = bool(init_true) and bool(cleared_in_true_arm) and sep_in_false_arm and not other_sets
    rep.check(ok, rule, cfg + "/separator placement", b.loc(b.span),
              "` AND ` must be written on every iteration except the first: expected a flag set before the loop, tested in the loop, cleared on the first-iteration "
              "side and the separator written on the other side; found init-true=%s cleared-in-first-arm=%s separator-in-other-arm=%s set-again=%s"
              % (bool(init_true), bool(cleared_in_true_arm), sep_in_false_arm, bool(other_sets)))


def operators_rule(rep, prog, cfg):
    rule = "C11.operators"
    bs = body_by_name(prog, "mpd_client::filter::Operator::as_str")
    if len(bs) != 1:
        rep.fail(rule + ".anchor", cfg, "filter.rs", "Operator::as_str not found (failing closed)")
        return
    b = bs[0]
    from .. import tables
    got = {}
    for sw in tables.discr_switches(b):
        for variant, tgt in sw["arms"].items():
            others = [x for v2, x in sw["arms"].items() if v2 != variant]
            blocks = tables.exclusive(b, tgt, others + ([sw["otherwise"]] if sw.get("otherwise") is not None and sw["otherwise"] != tgt else []))
            lits = tables.str_consts(b, blocks)
            got[variant] = sorted({x[0] for x in lits})
    sws = tables.discr_switches(b)
    if len(sws) == 1 and sws[0].get("otherwise") is not None:
        missing = [v for v in OPERATORS if v not in sws[0]["arms"]]
        if len(missing) == 1:
            blocks = tables.exclusive(b, sws[0]["otherwise"], list(sws[0]["arms"].values()))
            got[missing[0]] = sorted({x[0] for x in tables.str_consts(b, blocks)})
    for variant, text in OPERATORS.items():
        rep.check(got.get(variant) == [text], rule, "%s/%s" % (cfg, variant), b.loc(b.span),
                  "Operator::%s must be written as `%s` (MPD filter syntax); the renderer yields %s" % (variant, text, got.get(variant)))
    extra = sorted(set(got) - set(OPERATORS))
    if extra:
        rep.note("operators_not_in_reference_%s" % cfg, extra)


# ---- the value: tokenizer (inside "..") then filter string (inside "..") ---------------------------------------------------------
def unescape_level(items):
    """one quoted-string decoder (backslash makes the next item literal, a bare '"' ends the string) applied to a sequence of
    ('lit', code) | ('cell', class) items; returns (items, problem)"""
    out = []
    i = 0
    while i < len(items):
        it = items[i]
        is_bs = it == ("lit", BS) or (it[0] == "cell" and it[1] == "BACKSLASH")
        is_dq = it == ("lit", DQ) or (it[0] == "cell" and it[1] == "DQUOTE")
        if is_bs:
            if i + 1 >= len(items):
                return out, "a backslash is left at the end of the value's image: it escapes whatever the renderer writes next"
            out.append(items[i + 1])
            i += 2
            continue
        if is_dq:
            return out, "an unescaped double quote ends the string early"
        out.append(it)
        i += 1
    return out, None


def value_rule(rep, prog, cfg, escaper):
    rule = "C11.value"
    if escaper is None:
        rep.fail(rule + ".anchor", cfg, "filter.rs", "the value slot of the tag expression was not identified (see C11.grammar)")
        return
    if escaper == "f:Tag.value":
        rep.fail(rule, cfg + "/escaper", "filter.rs", "the value is written without any escaping: a value containing `\"` or `\\` cannot arrive intact")
        return
    cands = [b for b in prog.bodies.values() if b.kind in ("Fn", "AssocFn") and norm(b.name).endswith(escaper) and b.crate == "mpd_client"]
    if len(cands) != 1:
        rep.fail(rule + ".anchor", cfg, "filter.rs", "value escaper `%s` not found exactly once (failing closed)" % escaper)
        return
    enc = cands[0]
    where = enc.loc(enc.span)
    extra = set()
    consts = strenc.char_constants(prog, enc, cuts=extra)
    cells = strenc.partition(consts, set(REF_CUTS) | extra)

    def refclass(c):
        if c == (DQ, DQ):
            return "DQUOTE"
        if c == (BS, BS):
            return "BACKSLASH"
        if c == (0, 0):
            return "NUL"
        if c == (10, 10):
            return "LF"
        if c == (0x27, 0x27):
            return "SQUOTE"
        return "OTHER"
    from .C06 import predicates_of
    preds = predicates_of(prog, enc)
    groups = {}
    for c in cells:
        sig = [refclass(c)]
        for p in preds:
            try:
                sig.append(strenc.pred_on_cell(prog, p, c))
            except strenc.EncOpaque:
                sig.append(None)
        if c[0] == c[1] and c[0] in consts:
            sig.append(c[0])
        groups.setdefault(tuple(sig), []).append(c)
    reps = []
    for sig, cs in groups.items():
        if sig[0] in ("NUL", "LF"):
            continue
        pick = cs[0]
        for c in cs:
            if c[0] <= 0x61 <= c[1]:
                pick = c
        reps.append((sig[0], pick))
    names = {}
    for nm, pick in reps:
        names.setdefault(nm, []).append(pick)
    name_of = {}
    for nm, pick in reps:
        name_of[pick] = nm if len(names[nm]) == 1 else "%s[0x%02X]" % (nm, 0x61 if pick[0] <= 0x61 <= pick[1] else pick[0])
    cls_of = {pick: nm for nm, pick in reps}
    if len(reps) > 12:
        rep.fail(rule + ".analysable", cfg, where, "too many character classes (%d) (failing closed)" % len(reps))
        return
    picks = sorted(p for _, p in reps)
    rep.note("value_classes_%s" % cfg, [name_of[p] for p in picks])
    bad = {}
    n_sets = 0
    for r in range(0, len(picks) + 1):
        for S in itertools.combinations(picks, r):
            n_sets += 1
            try:
                res = strenc.transducer(prog, enc, list(S), cells)
            except strenc.EncOpaque as e:
                rep.fail(rule + ".analysable", cfg + "/" + enc.name.rsplit("::", 1)[-1], where,
                         "the value escaper is outside the modelled fragment for the class set {%s}: %s (failing closed)" % (", ".join(name_of[c] for c in S), e))
                return
            set_ok = True
            if res.prefix or res.suffix:
                bad.setdefault("literals-around-the-value", (S, res, "the escaper writes literals before or after the value; the quotes belong to the expression template"))
                set_ok = False
            for c in S:
                img = [("cell", cls_of[c]) if it == ("cell",) else it for it in res.per_cell.get(c, ())]
                l1, p1 = unescape_level(img)
                l2, p2 = (None, None) if p1 else unescape_level(l1)
                if p1 or p2 or l2 != [("cell", cls_of[c])]:
                    why = ("request tokenizer: " + p1) if p1 else (("filter string: " + p2) if p2 else "after both decoders the character reads as %s" % (l2,))
                    bad.setdefault("%s" % name_of[c], (S, res, why, img))
                    set_ok = False
            if set_ok:
                rep.ok(rule, "%s/{%s}" % (cfg, ",".join(name_of[c] for c in S)))
    rep.count("value_class_sets_evaluated", n_sets)
    for key, v in sorted(bad.items()):
        S, res, why = v[0], v[1], v[2]
        img = v[3] if len(v) > 3 else None
        rep.fail(rule, key, where,
                 "filter values containing %s do not arrive intact: its image on the wire is %s — %s"
                 % (key, "".join(chr(i[1]) if i[0] == "lit" else "<%s>" % i[1] for i in (img or [])) or "(see facts)", why),
                 facts={"class_set": [name_of[c] for c in S], "image": img})
    rep.floor(rule, cfg + "/class sets", n_sets, 8)


# ---- builders ------------------------------------------------------------------------------------------------------------------------
def params_of(fl, local):
    """parameters a local's value may derive from (copies, projections, aggregates and calls followed through all arguments)"""
    leaves, _ = fl.sources([local], through_call=lambda t, kind: range(len(t["args"])))
    return sorted({x[1] for x in leaves if x[0] == "param"})


DROPPING = ("::skip", "::take", "::rev", "::filter", "::step_by", "::pop", "::truncate", "::remove", "::swap_remove", "::swap", "::sort", "::dedup",
            "::last", "::nth", "::skip_while", "::take_while", "::drain", "::clear", "::retain", "::split_off", "::reverse", "::next_back", "::insert")


def builders_rule(rep, prog, cfg):
    rule = "C11.builders"
    # and(): every condition of self, then every condition of other
    bs = body_by_name(prog, "mpd_client::filter::Filter::and")
    if len(bs) != 1:
        rep.fail(rule + ".anchor", cfg + "/and", "filter.rs", "Filter::and not found (failing closed)")
    else:
        b0 = bs[0]
        # the operands may be taken apart by a private helper (`into_conditions(self) -> Vec<FilterType>`): spliced in (A12)
        from ..inline import inlined, module_private_helpers
        b = inlined(prog, b0, module_private_helpers(b0, exclude=(norm(b0.name),)), depth=3)
        if not b.raw.get("inlined"):
            b = b0
        from ..cfg import Cfg, reach
        g = Cfg(b)
        fl = Flow(b)
        dropping = sorted({n for _, t in b.calls() for n in callee_names(t) if any(n.endswith(d) for d in DROPPING)})
        APPEND = ("::push", "::extend", "::append", "::extend_from_slice", "::push_back")
        merges, reverse, self_after = [], [], []
        appends = []
        for bb, t in b.calls():
            if not any(n.endswith(a) and ("Vec" in n or "Extend" in n) for n in callee_names(t) for a in APPEND) or len(t["args"]) != 2:
                continue
            rl, al = op_local(t["args"][0]), op_local(t["args"][1])
            rp = params_of(fl, rl) if rl is not None else []
            ap = params_of(fl, al) if al is not None else []
            appends.append((bb, rp, ap))
        # a merge puts something of `other` (and nothing of `self`) onto a vector that holds what came from `self`
        merges = [bb for bb, rp, ap in appends if ap == [2] and 1 in rp]
        reverse = [bb for bb, rp, ap in appends if ap == [1] and rp == [2]]
        order_ok = all(bb1 not in g.reach([m]) for bb1, rp, ap in appends if ap == [1] for m in merges)
        # every way to the result passes a merge (a loop that contains one counts as a whole: it walks other's conditions)
        avoid = set(merges)
        for loop in g.loops:
            if any(m in loop for m in merges):
                avoid |= set(loop)
        ands = [(bb, s) for bb, _, s in b.stmts() if s["k"] == "assign" and s["rv"]["k"] == "agg" and s["rv"].get("variant") == "And"]
        free = reach(g.succs, [0], avoid=avoid) if 0 not in avoid else set()
        skipped = [bb for bb, _ in ands if bb in free]
        res_ok = False
        for bb, s in ands:
            l = op_local(s["rv"]["ops"][0]) if s["rv"]["ops"] else None
            ps = params_of(fl, l) if l is not None else []
            if 1 in ps and 2 in ps:
                res_ok = True
        ok = not dropping and bool(merges) and not reverse and order_ok and not skipped and res_ok and len(ands) >= 1
        rep.check(ok, rule, cfg + "/and keeps every condition in order", b0.loc(b0.span),
                  "Filter::and must put every condition of `self`, then every condition of `other`, into the conjunction: appends of other's conditions onto self's vector=%d, "
                  "of self's onto other's=%d, self appended after other=%s, dropping / reordering calls=%s, a path to the result without appending other's conditions=%s, "
                  "result built from both operands=%s" % (len(merges), len(reverse), not order_ok, dropping, bool(skipped), res_ok))
    # negate(): Not(Box(self.0)) stored back, on every path
    bs = body_by_name(prog, "mpd_client::filter::Filter::negate")
    if len(bs) != 1:
        rep.fail(rule + ".anchor", cfg + "/negate", "filter.rs", "Filter::negate not found (failing closed)")
    else:
        b = bs[0]
        fl = Flow(b)
        nots = [(bb, s) for bb, _, s in b.stmts() if s["k"] == "assign" and s["rv"]["k"] == "agg" and s["rv"].get("variant") == "Not"]
        ok = len(nots) == 1
        if ok:
            bb, s = nots[0]
            l = op_local(s["rv"]["ops"][0])
            ok = l is not None and 1 in params_of(fl, l)
            from ..cfg import Cfg
            g = Cfg(b)
            rets = [x for x in b.reachable() if b.blocks[x]["t"]["k"] == "return"]
            ok = ok and all(g.dom(bb, r) for r in rets)
            # stored into the filter that is returned
            stored = s["place"]["l"] == 1 or any(st["k"] == "assign" and st["place"]["l"] == 1 and st["place"]["p"] and st["rv"]["k"] == "use"
                                                 and op_local(st["rv"]["op"]) == s["place"]["l"] for _, _, st in b.stmts())
            ok = ok and stored
        rep.check(ok, rule, cfg + "/negate wraps the whole expression", b.loc(b.span),
                  "Filter::negate must replace the expression by Not(<the whole previous expression>) on every path")
    for imp, nb in impl_methods(prog, "ops::bit::Not", "not"):
        if imp["info"]["self"].endswith("filter::Filter"):
            calls = [n for _, t in nb.calls() for n in callee_names(t)]
            rep.check(any(n.endswith("filter::Filter::negate") for n in calls), rule, cfg + "/! delegates to negate", nb.loc(nb.span),
                      "`!filter` must be Filter::negate")
    # new(): fields from the parameters of the same name
    bs = body_by_name(prog, "mpd_client::filter::Filter::new")
    if len(bs) != 1:
        rep.fail(rule + ".anchor", cfg + "/new", "filter.rs", "Filter::new not found (failing closed)")
    else:
        b = bs[0]
        fl = Flow(b)
        tags = [s for _, _, s in b.stmts() if s["k"] == "assign" and s["rv"]["k"] == "agg" and s["rv"].get("variant") == "Tag"]
        ok = len(tags) == 1
        got = {}
        if ok:
            s = tags[0]
            for fname, o in zip(s["rv"].get("fields") or [], s["rv"]["ops"]):
                l = op_local(o)
                got[fname] = params_of(fl, l) if l is not None else []
            ok = got == {"tag": [1], "operator": [2], "value": [3]}
            # ... unchanged: between the parameter and the field only conversions of ownership / view (`into`, `to_owned`, `String::from`),
            # nothing that rewrites the text (`trim`, `to_lowercase`, `replace`)
            from .. import terms
            changed = {}
            for fname, o in zip(s["rv"].get("fields") or [], s["rv"]["ops"]):
                _, tr = terms.raw_source(b, o)
                tr = [x for x in tr if x]
                if tr:
                    changed[fname] = [x.rsplit("::", 1)[-1] for x in tr]
            rep.check(not changed, rule, cfg + "/new stores its parameters unchanged", b.loc(b.span),
                      "Filter::new rewrites a parameter before storing it (%s): the value sent is not the value given" % changed)
        rep.check(ok, rule, cfg + "/new stores its parameters", b.loc(b.span),
                  "Filter::new(tag, operator, value) must build Tag { tag, operator, value } from the parameters of the same position; found %s" % got)


def run(rep, progs, tier):
    rep.explanation = (
        "Static analysis, no execution of /repo. (1) The ordered write events of FilterType::render, Filter::render and the Argument impl are enumerated per "
        "path of their MIR (format templates decoded into literal pieces and argument slots with the field each slot is filled from) and compared with MPD's "
        "filter grammar: `(TAG OP \"VALUE\")` with the inner quotes escaped for the request tokenizer, `(!EXPR)`, `(EXPR AND EXPR ..)` with the separator "
        "on every iteration but the first, the whole expression as one double-quoted parameter. (2) Operator::as_str's variant -> text table equals MPD's "
        "operator table. (3) The value escaper is reduced to its exact transducer per set of character classes (A15) and composed with the two quoted-string "
        "decoders a value passes through (tokenizer, filter parser): the composition must return the character. (4) and / negate / new: provenance rules. "
        "The TAG slot: C20's tag tables and alphabet are imported. NOT decided: regular-expression semantics of =~ / !~, NUL and LF in values (outside the alphabet, see C06/C07), "
        "filters built by other means than new / and / negate (tag_exists / tag_absent are conveniences over new).")
    rep.rule("C11.grammar", "write events of the expression renderers = MPD's filter grammar, slot by slot")
    rep.rule("C11.operators", "Operator -> text table = MPD's operator table")
    rep.rule("C11.value", "per character-class set: filter-string(tokenizer-string(escaper(value))) = value")
    rep.rule("C11.builders", "and keeps all conditions in order; negate wraps the whole expression; new stores its parameters unchanged")
    rep.rule("C11.tags.tag-tables", "Tag::as_str writes each tag under its protocol name (C20's tables, decided here for the TAG slot)")
    rep.rule("C11.tags.charset", "a checked tag name consists of characters the filter grammar reads as one word (C20's alphabet)")
    rep.trusted = ["rustc MIR construction", "mpdfacts exporter", "MPD SongFilter.cxx / Tokenizer.cxx quoted-string semantics as transcribed in this file",
                   "rustc's format template encoding"]
    rep.assume("values containing NUL or LF are outside the analysed alphabet")
    for cfg, prog in progs.items():
        escaper = grammar_rule(rep, prog, cfg)
        operators_rule(rep, prog, cfg)
        value_rule(rep, prog, cfg, escaper)
        builders_rule(rep, prog, cfg)
        # the TAG slot is filled with Tag::as_str: that each tag is written under its protocol name, and that a checked tag name
        # consists of characters the filter grammar reads as one word, are C20's tables and alphabet — decided here for C11's clause
        from .C20 import tag_rules, charset_rule
        with rep.importing("C20.", "C11.tags."):
            tag_rules(rep, prog, cfg)
            charset_rule(rep, prog, cfg)
