"""C01 — every request is answered with its own reply, in issue order (DESIGN.md §4/C01): clause."""
from .. import tables
from ..callgraph import norm
from ..cfg import Cfg, reach
from ..common import body_by_name, callee_names, callgraph, family, last_named_field, logic_body
from ..facts import callee, op_local, op_place
from ..flow import Flow, identity_through
from ..loopan import analyse, fn_name, report_violations
from ..typestate import AC, EVSEND, ONESEND, RECV

CONFIGS_QUICK = ["K1"]
CONFIGS_THOROUGH = ["K1", "K2"]
TECHNIQUE = "static analysis: typestate interpretation of the loop (A4) + field-sensitive provenance of responders and replies (MIR), who-may-call"

CONN_OPS = {AC + "send", AC + "send_list", AC + "receive", AC + "command", AC + "command_list"}


def tuple_origin(body, local, depth=8):
    """(source local, field index) if `local` was moved out of field K of a tuple-like place
    (`(x as Some).0.K`, `x.K`), following plain moves."""
    for _ in range(depth):
        if local is None:
            return None
        defs = [s for bb, i, s in body.stmts() if s["k"] == "assign" and s["place"]["l"] == local and not s["place"]["p"]]
        if len(defs) != 1 or defs[0]["rv"]["k"] != "use":
            return None
        p = op_place(defs[0]["rv"]["op"])
        if p is None:
            return None
        fs = [e["f"] for e in p["p"] if isinstance(e, dict) and "f" in e]
        if fs:
            return (p["l"], tuple(fs))
        local = p["l"]
    return None


def responder_origin(body, local, depth=8):
    """Where a responder value comes from: ('item', src local, path) for a queue item, ('state',)
    for the one stored in LoopState::WaitingForCommandReply."""
    for _ in range(depth):
        if local is None:
            return None
        defs = [s for bb, i, s in body.stmts() if s["k"] == "assign" and s["place"]["l"] == local and not s["place"]["p"]]
        if len(defs) != 1 or defs[0]["rv"]["k"] != "use":
            return None
        p = op_place(defs[0]["rv"]["op"])
        if p is None:
            return None
        if any(isinstance(e, dict) and e.get("n") == "WaitingForCommandReply" for e in p["p"]):
            return ("state",)
        fs = [e["f"] for e in p["p"] if isinstance(e, dict) and "f" in e]
        if fs:
            return ("item", p["l"], tuple(fs))
        local = p["l"]
    return None


def handed_back_origin(prog, co, local, depth=10):
    """A value a private async helper was given and hands back (`let responder = interrupt_idle(state, responder).await?;`):
    when `local` is the Ok payload of awaiting a helper whose every `Ok(x)` returns one and the same parameter x, the operand that
    was passed for that parameter where the helper's future was created in `co` — else None."""
    from ..inline import _ctor_call
    cur = local
    poll_local = None
    for _ in range(depth):
        defs = [s for bb, i, s in co.stmts() if s["k"] == "assign" and s["place"]["l"] == cur and not s["place"]["p"]]
        cdefs = [t for bb, t in co.calls() if t.get("dest") is not None and t["dest"]["l"] == cur and not t["dest"]["p"]]
        if len(defs) == 1 and not cdefs and defs[0]["rv"]["k"] == "use":
            p = op_place(defs[0]["rv"]["op"])
            if p is None:
                return None
            if any(isinstance(e, dict) and e.get("n") == "Ready" for e in p["p"]):
                poll_local = p["l"]
                break
            cur = p["l"]
            continue
        if len(cdefs) == 1 and not defs and "core::ops::try_trait::Try::branch" in callee_names(cdefs[0]):
            cur = op_local(cdefs[0]["args"][0])
            if cur is None:
                return None
            continue
        return None
    if poll_local is None:
        return None
    polls = [t for bb, t in co.calls() if t.get("dest") is not None and t["dest"]["l"] == poll_local and "core::future::future::Future::poll" in callee_names(t)]
    if len(polls) != 1:
        return None
    fut = op_local(polls[0]["args"][0])
    for H in prog.bodies.values():
        if not H.raw.get("coroutine") or H.crate != co.crate or H.id == co.id:
            continue
        hfn = prog.bodies.get(H.root)
        if hfn is None or hfn.raw.get("pub") or hfn.raw.get("exported"):
            continue
        found = _ctor_call(prog, co.blocks, fut, H)
        if found is None:
            continue
        ctor_bb, amap = found
        ks = set()
        for _, _, s3 in H.stmts():
            if s3["k"] == "assign" and s3["rv"]["k"] == "agg" and s3["rv"].get("variant") == "Ok" and "oneshot::Sender" in H.local_ty(s3["place"]["l"]):
                r = responder_origin(H, op_local(s3["rv"]["ops"][0]))
                ks.add(r[2][0] if r is not None and r[0] == "item" and r[1] == 1 and len(r[2]) == 1 else None)
        if len(ks) == 1 and None not in ks:
            k = next(iter(ks))
            if k < len(amap):
                return op_local(co.blocks[ctor_bb]["t"]["args"][amap[k]])
        return None
    return None


def run(rep, progs, tier):
    rep.explanation = (
        "Rule-based static analysis (no execution). (a) A4 (shared with C05): every request is written from wire state Q after "
        "the idle/noidle reply was consumed and only one is outstanding; every queue item reaches send_list before the next recv "
        "or the iteration boundary (FIFO hand-over; no collection of items). A3, field-sensitive: at every send_list the list "
        "(.0) and the responder that is stored in LoopState::WaitingForCommandReply (.1) come from the same queue item; the value "
        "handed to the stored responder derives from the receive awaited in the waiting state (the first receive after its "
        "request), the Ok payload of receives in state I/N (idle / noidle replies) never reaches a oneshot send; the Result of "
        "oneshot::Sender::send never influences control flow (a cancelled caller cannot disturb the loop); connection operations "
        "are called only from the handshake and the loop; raw_command_list splits the reply into the accumulated Ok frames and "
        "the iteration's Err item. NOT decided: tokio's mpsc FIFO / oneshot delivery, fairness, bytes (C02/C03).")
    rep.rule("C01.pair", "list and responder of a request come from the same queue item; replies go to the paired responder")
    rep.rule("C01.noleak", "idle/noidle reply payloads never reach a responder")
    rep.rule("C01.fifo", "each queue item is written before the next is taken; none is dropped on a continuing path")
    rep.rule("C01.split", "raw_command_list: Ok frames accumulated in order + the Err item; raw_command: into_single_frame")
    rep.rule("C01.cancel", "result of oneshot send never reaches a branch / return")
    rep.rule("C01.single-writer", "connection operations only from do_connect and the loop functions; connection never shared")
    rep.trusted = ["rustc MIR construction", "mpdfacts exporter", "tokio mpsc FIFO and oneshot delivery"]
    rep.rule("C01.one-line", "imported from C07 (owner of the encoder): one request = one protocol line — name alphabet, list framing words, "
             "argument LF check; a request that carries a second line gets two replies and shifts every later pairing")
    rep.rule("C01.segmentation", "imported from C02: only streaming combinators in the line parser (a reply cut at any byte is 'need more', not an error "
             "that would leave its bytes in the buffer for the next caller)")
    for cfg, prog in progs.items():
        one(rep, prog, cfg)
        from .C02 import streaming_rule
        from .C07 import arg_rules, name_rules
        with rep.importing("C07.", "C01.one-line."):
            name_rules(rep, prog, cfg)
            arg_rules(rep, prog, cfg)
        with rep.importing("C02.streaming", "C01.segmentation"):
            streaming_rule(rep, prog, cfg)


def one(rep, prog, cfg):
    res = analyse(prog)
    if res is None:
        rep.fail("C01.anchor", cfg, "client/connection.rs", "connection loop not found")
        return
    an = res["an"]
    report_violations(rep, res, {"C01.fifo"}, cfg)
    rep.count("states_" + cfg, an.states_seen)
    rep.count("transitions_" + cfg, an.transitions)
    n_recv = sum(1 for e in an.events.values() if e["kind"] == "recv")
    rep.check(not [v for v in an.violations if v["rule"] == "C01.fifo"], "C01.fifo", cfg + "/every item written before the next recv", "client/connection.rs",
              "see above", detail={"recv_sites": n_recv})
    rep.floor("C01.fifo", cfg + "/recv sites", n_recv, 2)
    loop_fns = {f.id for f in res["fns"]}
    n_sl = n_resp = 0
    for f in res["fns"]:
        co = an.coroutine_of(f)
        if co is None:
            continue
        name = fn_name(prog, co)
        fl = Flow(co)
        g = Cfg(co)
        info = an.info(co)
        # ---- C01.pair at send_list ------------------------------------------------------------------------
        for bb, t in co.calls():
            ns = callee_names(t)
            if AC + "send_list" in ns:
                n_sl += 1
                lo = tuple_origin(co, op_local(t["args"][1]))
                # the responder stored into WaitingForCommandReply after this send
                stored = []
                for bb2, i2, s2 in co.stmts():
                    if s2["k"] == "assign" and s2["rv"]["k"] == "agg" and s2["rv"].get("variant") == "WaitingForCommandReply" and bb2 in reach(g.succs, [bb]):
                        rl = op_local(s2["rv"]["ops"][0])
                        # through plain moves to the binding, then (if a helper handed the responder back) to what it was given
                        cur = rl
                        for _ in range(6):
                            hb = handed_back_origin(prog, co, cur)
                            if hb is not None:
                                rl = hb
                                break
                            dd = [s5 for _, _, s5 in co.stmts() if s5["k"] == "assign" and s5["place"]["l"] == cur and not s5["place"]["p"]]
                            if len(dd) == 1 and dd[0]["rv"]["k"] == "use" and op_local(dd[0]["rv"]["op"]) is not None and not (op_place(dd[0]["rv"]["op"]) or {}).get("p"):
                                cur = op_local(dd[0]["rv"]["op"])
                                continue
                            break
                        stored.append(responder_origin(co, rl))
                ok = lo is not None and stored and all(r is not None and r[0] == "item" and r[1] == lo[0] and lo[1][:-1] == r[2][:-1]
                                                      and lo[1][-1] == 0 and r[2][-1] == 1 for r in stored)
                if not ok and lo is not None and stored and lo[0] == 1 and len(lo[1]) == 1 and \
                        all(r is not None and r[0] == "item" and r[1] == 1 and len(r[2]) == 1 for r in stored):
                    # the send sits in a private async helper: list and responder are two of its parameters (upvars of its
                    # coroutine).  Pairing is then decided where the helper is called: at every call site the two arguments come
                    # from the same queue item.
                    hfn = prog.bodies.get(co.root)
                    pidx = {}
                    if hfn is not None and hfn.id != co.id:
                        for _, _, s3 in hfn.stmts():
                            if s3["k"] == "assign" and s3["rv"]["k"] == "agg" and s3["rv"].get("def") == co.id:
                                for ui, o in enumerate(s3["rv"]["ops"]):
                                    if op_local(o) is not None:
                                        pidx[ui] = op_local(o) - 1
                    sites = []
                    site_callers = set()
                    if hfn is not None and lo[1][0] in pidx and all(r[2][0] in pidx for r in stored) and not hfn.raw.get("pub") and not hfn.raw.get("exported"):
                        for f2 in res["fns"]:
                            co2 = an.coroutine_of(f2)
                            if co2 is None:
                                continue
                            for bb4, t4 in co2.calls():
                                f4 = callee(t4)
                                if f4 is not None and (f4.get("inst") or f4["def"]) == hfn.id:
                                    site_callers.add(co2.id)
                                    la = tuple_origin(co2, op_local(t4["args"][pidx[lo[1][0]]]))
                                    rs = [responder_origin(co2, op_local(t4["args"][pidx[r[2][0]]])) for r in stored]
                                    sites.append(la is not None and all(r2 is not None and r2[0] == "item" and r2[1] == la[0] and la[1][:-1] == r2[2][:-1]
                                                                         and la[1][-1] == 0 and r2[2][-1] == 1 for r2 in rs))
                        callers_all = set(callgraph(prog).callers.get(hfn.id, ()))
                        ok = bool(sites) and all(sites) and callers_all <= site_callers
                        n_sl += max(0, len(sites) - 1)
                rep.check(ok, "C01.pair", "%s/%s send_list item=%s responder=%s" % (cfg, name, lo and lo[1], [r and r[-1] for r in stored]),
                          co.loc(co.blocks[bb]["ts"]),
                          "the command list written and the responder that will receive its reply do not come from the same queue item "
                          "(list from %s, responder from %s)" % (lo, stored))
            # ---- responder sends -----------------------------------------------------------------------------
            if ONESEND in ns:
                n_resp += 1
                ro = responder_origin(co, op_local(t["args"][0]))
                if ro is not None and ro[0] == "item" and ro[1] == 1 and len(ro[2]) == 1:
                    # a parameter of a private async helper (an upvar of its coroutine): where the responder comes from is decided
                    # at the helper's call sites — all of them must agree
                    hfn = prog.bodies.get(co.root)
                    if hfn is not None and hfn.id != co.id and not hfn.raw.get("pub") and not hfn.raw.get("exported"):
                        pidx = {}
                        for _, _, s3 in hfn.stmts():
                            if s3["k"] == "assign" and s3["rv"]["k"] == "agg" and s3["rv"].get("def") == co.id:
                                for ui, o in enumerate(s3["rv"]["ops"]):
                                    if op_local(o) is not None:
                                        pidx[ui] = op_local(o) - 1
                        origins = set()
                        if ro[2][0] in pidx:
                            for f2 in res["fns"]:
                                co2 = an.coroutine_of(f2)
                                if co2 is None:
                                    continue
                                for bb4, t4 in co2.calls():
                                    f4 = callee(t4)
                                    if f4 is not None and (f4.get("inst") or f4["def"]) == hfn.id:
                                        r2 = responder_origin(co2, op_local(t4["args"][pidx[ro[2][0]]]))
                                        origins.add(r2[0] if r2 else None)
                        if origins == {"state"}:
                            ro = ("state",)
                leaves, visited = fl.sources([op_local(t["args"][1])], through_call=identity_through, follow_mut=False)
                # which awaited connection results flow into the value?
                recv_sites = set()
                for leaf in leaves:
                    if leaf[0] == "call" and "core::future::future::Future::poll" in callee_names(co.blocks[leaf[1]]["t"]):
                        pass
                for abb, (d, resl) in info.await_at.items():
                    if d is not None and d[0] == "conn" and resl in visited:
                        recv_sites.add((d[1], d[3]))
                pre = {}
                for (op, site) in recv_sites:
                    e = an.events.get((co.id, site))
                    pre[(op, site)] = sorted(e["pre"]) if e else None
                # is the value an error binding (moved out of an Err) or the whole result?
                err_only = value_is_error(co, op_local(t["args"][1]))
                inst = "%s/%s respond<-%s to=%s" % (cfg, name, "+".join(sorted("%s[%s]" % (op, "".join(p or "?")) for (op, s), p in pre.items())) or "-", ro and ro[0])
                if ro is not None and ro[0] == "state":
                    # the in-flight responder: gets the result of the receive awaited with the request outstanding
                    ok = bool(pre) and all(op == "receive" and p == ["R"] for (op, s), p in pre.items())
                    rep.check(ok, "C01.pair", inst, co.loc(co.blocks[bb]["ts"]),
                              "the responder of the in-flight request is answered with something other than the result of the receive that follows its request (%s)" % pre)
                else:
                    # a responder taken from the queue and not (successfully) written: only errors may go to it
                    # ... and the error must be the failure of a connection step (MpdProtocolError), not an ACK found inside a reply
                    # that was received successfully: that ACK answers the client's own idle / noidle, not the caller's request
                    ety = error_source_type(co, fl, op_local(t["args"][1])) if err_only else None
                    step_error = ety is not None and ("MpdProtocolError" in ety or "std::io::error::Error" in ety)
                    ok = err_only and step_error and all(p is not None for p in pre.values())
                    rep.check(ok, "C01.noleak", inst + ("" if step_error or not err_only else " error type " + (ety or "?").rsplit("::", 1)[-1]), co.loc(co.blocks[bb]["ts"]),
                              "a responder whose request has not been written receives a value that is not the error of the failed step "
                              "(e.g. the reply to noidle / idle): %s" % pre)
                # C01.cancel
                dst = t["dest"]["l"]
                derived, uses = fl.forward([dst])
                used = bool(uses)
                for bb3 in co.reachable():
                    t3 = co.blocks[bb3]["t"]
                    if t3["k"] == "switch" and op_local(t3["discr"]) in derived:
                        used = True
                    for s3 in co.blocks[bb3]["s"]:
                        if s3["k"] == "assign" and s3["rv"]["k"] == "discr" and s3["rv"]["place"]["l"] in derived:
                            used = True
                rep.check(not used and 0 not in derived, "C01.cancel", "%s/%s respond result unused@%d" % (cfg, name, n_resp), co.loc(co.blocks[bb]["ts"]),
                          "the Result of handing a reply to a caller influences the loop's control flow: a cancelled caller would disturb the others")
        # ---- C01.noleak: Ok payloads of I/N receives ---------------------------------------------------------------
        for abb, (d, resl) in info.await_at.items():
            if d is None or d[0] != "conn" or d[1] != "receive":
                continue
            e = an.events.get((co.id, d[3]))
            pre = sorted(e["pre"]) if e else []
            if "R" in pre and pre != ["R"]:
                rep.fail("C01.pair", "%s/%s receive in mixed states %s" % (cfg, name, pre), co.loc(co.blocks[d[3]]["ts"]),
                         "one receive site serves both a request and an idle exchange")
    rep.floor("C01.pair", cfg + "/send_list sites", n_sl, 2)
    rep.floor("C01.pair", cfg + "/responder sends", n_resp, 3)
    # the select branch receive (idle reply) flows to the idle handler, never to a responder: covered by the
    # responder rules above (every oneshot send is classified)
    single_writer(rep, prog, cfg, res)
    split_rule(rep, prog, cfg)
    # no collection of queue items
    for f in res["fns"]:
        co = an.coroutine_of(f)
        if co is None:
            continue
        for bb, t in co.calls():
            ns = callee_names(t)
            if any(n.rsplit("::", 1)[-1] in ("push", "push_back", "push_front", "insert") and ("Vec" in n or "VecDeque" in n or "HashMap" in n or "BTreeMap" in n) for n in ns):
                if not prog.exp_chain(co.crate, co.blocks[bb]["ts"]):
                    rep.fail("C01.fifo", "%s/%s collects" % (cfg, fn_name(prog, co)), co.loc(co.blocks[bb]["ts"]),
                             "the loop stores something in a collection (%s): queue items must be handed over one at a time in order" % ns[0])


def value_is_error(body, local, depth=8):
    """The value is `Err(..)` built from an error binding (an aggregate Err, possibly through into)."""
    for _ in range(depth):
        if local is None:
            return False
        defs = [s for bb, i, s in body.stmts() if s["k"] == "assign" and s["place"]["l"] == local and not s["place"]["p"]]
        if len(defs) != 1:
            return False
        rv = defs[0]["rv"]
        if rv["k"] == "agg" and rv.get("variant") == "Err":
            return True
        if rv["k"] == "use" and op_local(rv["op"]) is not None:
            local = op_local(rv["op"])
            continue
        return False
    return False


def error_source_type(body, fl, local):
    """Type of the value an `Err(..)` handed to a responder was built from (through into / from / moves)."""
    for _ in range(8):
        if local is None:
            return None
        defs = [s for bb, i, s in body.stmts() if s["k"] == "assign" and s["place"]["l"] == local and not s["place"]["p"]]
        if len(defs) == 1 and defs[0]["rv"]["k"] == "agg" and defs[0]["rv"].get("variant") == "Err" and defs[0]["rv"]["ops"]:
            local = op_local(defs[0]["rv"]["ops"][0])
            break
        if len(defs) == 1 and defs[0]["rv"]["k"] == "use":
            local = op_local(defs[0]["rv"]["op"])
            continue
        return None
    # back through conversions to the binding the error was matched out of
    for _ in range(8):
        if local is None:
            return None
        defs = [s for bb, i, s in body.stmts() if s["k"] == "assign" and s["place"]["l"] == local and not s["place"]["p"]]
        cdefs = [t for bb, t in body.calls() if t["dest"]["l"] == local and not t["dest"]["p"]]
        if len(cdefs) == 1 and not defs and identity_through(cdefs[0]) is not None and cdefs[0]["args"]:
            local = op_local(cdefs[0]["args"][0])
            continue
        if len(defs) == 1 and not cdefs and defs[0]["rv"]["k"] == "use" and op_local(defs[0]["rv"]["op"]) is not None \
                and not (op_place(defs[0]["rv"]["op"]) or {}).get("p"):
            local = op_local(defs[0]["rv"]["op"])
            continue
        return body.local_ty(local)
    return body.local_ty(local) if local is not None else None


def single_writer(rep, prog, cfg, res):
    rule = "C01.single-writer"
    # the handshake: the function that spawns the loop (found by the spawn)
    spawners = {fn_name(prog, x) for x in prog.bodies.values() if x.crate == "mpd_client" and any("tokio::task::spawn::spawn" in callee_names(t) for _, t in x.calls())}
    allowed = {fn_name(prog, f) for f in res["fns"]} | spawners
    users = set()
    for b in prog.bodies.values():
        if b.crate != "mpd_client":
            continue
        for bb, t in b.calls():
            if any(n in CONN_OPS for n in callee_names(t)):
                users.add(fn_name(prog, b))
    # a private helper is part of its callers: allowed when it is not exported and every caller is allowed
    cg = callgraph(prog)
    by_root = {}
    for x in prog.bodies.values():
        by_root.setdefault(fn_name(prog, x), []).append(x)
    changed = True
    while changed:
        changed = False
        for u in sorted(users - allowed):
            members = by_root.get(u, [])
            rootb = [x for x in members if x.id == x.root]
            if not rootb or rootb[0].raw.get("pub") or rootb[0].raw.get("exported"):
                continue
            callers = set()
            for x in members:
                for c in cg.callers.get(x.id, ()):
                    cn = fn_name(prog, prog.bodies[c])
                    if cn != u:
                        callers.add(cn)
            if callers and callers <= allowed:
                allowed.add(u)
                changed = True
    for u in sorted(users):
        rep.check(u in allowed, rule, "%s/%s" % (cfg, u), u,
                  "%s performs connection operations outside the handshake and the connection loop: two writers/readers would interleave requests and steal replies" % u)
    rep.floor(rule, cfg + "/functions using the connection", len(users), 4)
    # the connection is never shared
    for b in prog.bodies.values():
        if b.crate != "mpd_client":
            continue
        for i, l in enumerate(b.locals):
            ty = l["ty"]
            if "AsyncConnection<" in ty and any(w in ty for w in ("alloc::sync::Arc<", "alloc::rc::Rc<", "Mutex<", "RwLock<", "RefCell<")):
                rep.fail(rule, "%s/%s shares the connection" % (cfg, fn_name(prog, b)), b.loc(b.span), "the connection is placed in a shared container (%s)" % ty[:80])


def split_rule(rep, prog, cfg):
    rule = "C01.split"
    b = logic_body(prog, "mpd_client::client::Client::raw_command_list", {"mpd_client::client::Client::do_send"})
    if b is None:
        rep.fail(rule + ".anchor", cfg + "/raw_command_list", "client/mod.rs", "public anchor Client::raw_command_list (accumulating frames) not found")
    else:
        if not any("alloc::vec::Vec::push" in callee_names(t) or any(n.endswith("Iterator::try_fold") for n in callee_names(t)) for _, t in b.calls()):
            # the splitting of the reply may sit in a private helper (`collect_frames(response)`): spliced in (A12)
            from ..inline import inlined, module_private_helpers
            b = inlined(prog, b, module_private_helpers(b, exclude={"mpd_client::client::Client::do_send"}))
        fl = Flow(b)
        pushes = [(bb, t) for bb, t in b.calls() if "alloc::vec::Vec::push" in callee_names(t)]
        acc = None
        for bb, t in pushes:
            l = op_local(t["args"][0])
            for bb2, i2, s2 in b.stmts():
                if s2["k"] == "assign" and s2["place"]["l"] == l and s2["rv"]["k"] == "ref" and not s2["rv"]["place"]["p"]:
                    acc = s2["rv"]["place"]["l"]
        ok_frames = err_frames = err_error = False
        from ..panics import third_party
        nexts = {bb for bb, t in b.calls() if "core::iter::traits::iterator::Iterator::next" in callee_names(t)
                 and not third_party(prog, b, b.blocks[bb]["ts"])}
        for bb, i, s in b.stmts():
            if s["k"] != "assign" or s["rv"]["k"] != "agg":
                continue
            if s["rv"].get("variant") == "ErrorResponse":
                ops = dict(zip(s["rv"]["fields"], s["rv"]["ops"]))
                _, v1 = fl.sources([op_local(ops["succesful_frames"])], follow_mut=False)
                err_frames = acc in v1
                l2, _ = fl.sources([op_local(ops["error"])], through_call=identity_through, follow_mut=False)
                err_error = any(x[0] == "call" and x[1] in nexts for x in l2)
            if s["rv"].get("variant") == "Ok" and s["rv"].get("adt_name", "").endswith("result::Result"):
                _, v1 = fl.sources([op_local(s["rv"]["ops"][0])], follow_mut=False)
                if acc in v1:
                    ok_frames = True
        pushed_ok = False
        for bb, t in pushes:
            l2, _ = fl.sources([op_local(t["args"][1])], through_call=identity_through, follow_mut=False)
            if any(x[0] == "call" and x[1] in nexts for x in l2):
                pushed_ok = True
        fold_ok = False
        if acc is None and not pushes:
            # fold form: `res.into_iter().try_fold(Vec::with_capacity(..), |mut frames, frame| match frame { Ok(f) => { frames.push(f);
            # Ok(frames) } Err(error) => Err(ErrorResponse { error, succesful_frames: frames }) })` — the accumulator is the closure's
            # first parameter, the item its second; try_fold of the forward iterator visits the items in order and stops at Err
            folds = [(bb, t) for bb, t in b.calls() if any(n.endswith("Iterator::try_fold") for n in callee_names(t)) and len(t["args"]) == 3]
            if len(folds) == 1:
                from ..scans import closure_of_local
                clo = closure_of_local(prog, b, op_local(folds[0][1]["args"][2]))
                ret, _ = fl.sources([0], through_call=identity_through, follow_mut=False)
                if clo is not None and ("call", folds[0][0]) in ret:
                    fc = Flow(clo)
                    cp = [(bb, t) for bb, t in clo.calls() if "alloc::vec::Vec::push" in callee_names(t)]
                    if len(cp) == 1:
                        a0, _ = fc.sources([op_local(cp[0][1]["args"][0])], through_call=identity_through, follow_mut=True)
                        a1, _ = fc.sources([op_local(cp[0][1]["args"][1])], through_call=identity_through, follow_mut=False)
                        pushed = ("param", 2) in a0 and ("param", 3) in a1 and ("param", 2) not in a1
                        e_frames = e_error = o_frames = False
                        for _, _, s3 in clo.stmts():
                            if s3["k"] != "assign" or s3["rv"]["k"] != "agg":
                                continue
                            if s3["rv"].get("variant") == "ErrorResponse":
                                ops = dict(zip(s3["rv"]["fields"], s3["rv"]["ops"]))
                                x, _ = fc.sources([op_local(ops["succesful_frames"])], follow_mut=False)
                                y, _ = fc.sources([op_local(ops["error"])], through_call=identity_through, follow_mut=False)
                                e_frames, e_error = ("param", 2) in x and ("param", 3) not in x, ("param", 3) in y and ("param", 2) not in y
                            if s3["rv"].get("variant") == "Ok" and s3["rv"].get("adt_name", "").endswith("result::Result"):
                                x, _ = fc.sources([op_local(s3["rv"]["ops"][0])], follow_mut=False)
                                o_frames = o_frames or ("param", 2) in x
                        fold_ok = pushed and e_frames and e_error and o_frames
        if fold_ok:
            acc, ok_frames, err_frames, err_error, pushed_ok = "fold", True, True, True, True
        rep.check(acc is not None and ok_frames and err_frames and err_error and pushed_ok and (fold_ok or (len(nexts) == 1 and len(pushes) == 1)), rule, cfg + "/raw_command_list", b.loc(b.span),
                  "the list reply is not split into (frames accumulated from the iteration's Ok items, in order) and (the iteration's Err item): "
                  "ok<-acc=%s err.frames<-acc=%s err.error<-item=%s pushed<-item=%s" % (ok_frames, err_frames, err_error, pushed_ok))
        names = set()
        for bb, t in b.calls():
            names.update(callee_names(t))
        rep.check(not any(n.rsplit("::", 1)[-1] in ("rev", "next_back", "rfold", "pop", "swap_remove", "insert") for n in names), rule,
                  cfg + "/frames in order", b.loc(b.span), "successful frames are not kept in reply order")
    rc = body_by_name(prog, "mpd_client::client::Client::raw_command")
    ok = False
    if len(rc) == 1:
        for fb in family(prog, rc[0]):
            for bb, t in fb.calls():
                if "mpd_protocol::response::Response::into_single_frame" in callee_names(t):
                    ok = True
    rep.check(ok, rule, cfg + "/raw_command = into_single_frame", "client/mod.rs", "Client::raw_command does not return the single frame or error of the reply")
