"""C20 — tags and subsystems compare, hash and parse by protocol name (DESIGN.md §4/C20)."""
from .. import charset, tables
from ..callgraph import norm
from .. import inline
from ..common import callee_names, body_by_name, family
from ..facts import callee, const_str, op_const, op_local, op_place
from ..flow import Flow, identity_through
from .C12 import parser_key_alphabet, tag_valid_alphabet

CONFIGS_QUICK = ["K1"]
CONFIGS_THOROUGH = ["K1", "K2"]
LEVEL = ("finite-table decision: the property over all pairs of values reduces to two name tables "
         "(mutually inverse, complete, distinct under case folding) and one key function through "
         "which Eq/Ord/Hash factor; both are extracted from MIR and decided exactly")
TECHNIQUE = "static analysis: literal<->variant table extraction from MIR + provenance of Eq/Ord/Hash impls + charset abstract interpretation"

# MPD protocol reference (doc/protocol.rst: tags; idle subsystems) — oracle, not copied from the code
MPD_TAGS = {
    "Artist", "ArtistSort", "Album", "AlbumSort", "AlbumArtist", "AlbumArtistSort", "Title", "TitleSort",
    "Track", "Name", "Genre", "Mood", "Date", "OriginalDate", "Composer", "ComposerSort", "Performer",
    "Conductor", "Work", "Ensemble", "Movement", "MovementNumber", "ShowMovement", "Location", "Grouping",
    "Comment", "Disc", "Label", "MUSICBRAINZ_ARTISTID", "MUSICBRAINZ_ALBUMID", "MUSICBRAINZ_ALBUMARTISTID",
    "MUSICBRAINZ_TRACKID", "MUSICBRAINZ_RELEASEGROUPID", "MUSICBRAINZ_RELEASETRACKID", "MUSICBRAINZ_WORKID",
}
# Which public variant denotes which protocol name.  For plain tags the variant is spelled like the name; the MusicBrainz
# variants are named after what the identifier is in MusicBrainz' own terminology (crate documentation of `Tag`; MPD's
# `musicbrainz_trackid` is the *recording* id, `musicbrainz_releasetrackid` the *track* id, `albumid` the release id,
# `albumartistid` the release-artist id).  Reviewed against the MPD protocol reference (tags) and the Picard tag mapping.
# A variant unknown to this table (added later) is recorded as "not decided".
TAG_REFERENCE = {
    "MusicBrainzArtistId": "MUSICBRAINZ_ARTISTID", "MusicBrainzRecordingId": "MUSICBRAINZ_TRACKID",
    "MusicBrainzReleaseArtistId": "MUSICBRAINZ_ALBUMARTISTID", "MusicBrainzReleaseId": "MUSICBRAINZ_ALBUMID",
    "MusicBrainzTrackId": "MUSICBRAINZ_RELEASETRACKID", "MusicBrainzWorkId": "MUSICBRAINZ_WORKID",
    "MusicBrainzReleaseGroupId": "MUSICBRAINZ_RELEASEGROUPID",
}
SUBSYSTEM_REFERENCE = {
    "Database": "database", "Message": "message", "Mixer": "mixer", "Mount": "mount", "Neighbor": "neighbor", "Options": "options",
    "Output": "output", "Partition": "partition", "Player": "player", "Queue": "playlist", "Sticker": "sticker",
    "StoredPlaylist": "stored_playlist", "Subscription": "subscription", "Update": "update",
}
MPD_SUBSYSTEMS = {
    "database", "update", "stored_playlist", "playlist", "player", "mixer", "output", "options", "partition",
    "sticker", "subscription", "message", "neighbor", "mount",
}


def as_str_table(body, adt_suffix):
    """variant -> literal from the `match self` of an as_str-like function."""
    sws = [s for s in tables.discr_switches(body) if s["adt"].endswith(adt_suffix)]
    if len(sws) != 1:
        return None, None, "expected one match on the %s discriminant, found %d" % (adt_suffix, len(sws))
    sw = sws[0]
    targets = list(sw["arms"].values()) + [sw["otherwise"]]
    table = {}
    multi = []
    for v, tb in sw["arms"].items():
        lits = {l for l, _, _ in tables.str_consts(body, tables.exclusive(body, tb, targets))}
        if len(lits) == 1:
            table[v] = next(iter(lits))
        elif len(lits) > 1:
            multi.append(v)
    return table, sw, ("ambiguous arms: %s" % multi) if multi else None


def parse_table(body, adt_suffix):
    """[(literal, case-insensitive, variant)] from compare-and-construct chains."""
    out = []
    bad = []
    for c in tables.str_compares(body):
        vs = {v for v, _, _ in tables.variant_aggs(body, tables.exclusive(body, c["true"], [c["false"]]), adt_suffix)}
        if len(vs) == 1:
            out.append((c["lit"], c["ci"], next(iter(vs))))
        else:
            bad.append(c["lit"])
    return out, bad


def find_impl_method(prog, type_name, trait_prefix, method):
    """Bodies of `<type_name as trait…>::method` (non-generic trait refs and generic ones)."""
    out = []
    for b in prog.bodies.values():
        if b.kind != "AssocFn":
            continue
        n = norm(b.name)
        if n.startswith("<%s as %s" % (type_name, trait_prefix)) and n.endswith(">::" + method):
            out.append(b)
    return out


def key_function_rule(rep, prog, cfg, type_name, as_str_name, trait, method, cmp_names, self_params,
                      allow_delegate=None):
    rule = "C20.key-function"
    inst = "%s/%s::%s for %s" % (cfg, trait.rsplit("::", 1)[-1], method, type_name.rsplit("::", 1)[-1])
    bodies = [b for b in find_impl_method(prog, type_name, trait, method)
              if norm(b.name) == "<%s as %s>::%s" % (type_name, trait, method)]
    if len(bodies) != 1:
        rep.fail(rule, inst, type_name, "expected exactly one impl of %s::%s for %s, found %d"
                 % (trait, method, type_name, len(bodies)))
        return
    b = bodies[0]
    where = b.loc(b.span)
    if b.raw.get("derived"):
        rep.fail(rule, inst, where, "%s for %s is derived: it compares/hashes the enum structurally, a "
                 "catch-all value would differ from the named variant of the same name" % (trait, type_name))
        return
    if allow_delegate is None:
        # private helpers of the module (`fn cmp_name(&self, name: &str) -> Ordering`) and the type's own comparison impls an
        # impl is written in terms of (`self.cmp(other) == Equal`) are part of the impl
        own_impls = {norm(x.name) for x in prog.bodies.values() if x.kind == "AssocFn" and norm(x.name).startswith("<%s as core::cmp::" % type_name)}
        base = inline.module_private_helpers(b, exclude=(as_str_name,))
        b = inline.inlined(prog, b, lambda cb: base(cb) or (norm(cb.name) in own_impls and cb.id != bodies[0].id and not cb.raw.get("derived")), depth=3)
    fl = Flow(b)
    problems = []
    params = list(range(1, 1 + self_params))
    derived, uses = fl.forward(params)
    n_as_str = {p: 0 for p in params}
    for bb, ai in uses:
        t = b.blocks[bb]["t"]
        names = callee_names(t)
        if any(n == as_str_name for n in names):
            # which parameter flows here?
            src, _ = fl.sources([op_local(t["args"][ai])])
            for leaf in src:
                if leaf[0] == "param" and leaf[1] in n_as_str:
                    n_as_str[leaf[1]] += 1
            continue
        if allow_delegate and any(n == allow_delegate for n in names):
            for p in params:
                n_as_str[p] += 1
            continue
        if any(n in cmp_names for n in names):
            # a parameter (not a name derived from it) reaches the comparison directly
            problems.append("parameter value reaches %s without going through as_str" % names[0])
            continue
        if any(n.endswith("::deref") or n.endswith("::as_ref") for n in names):
            continue
        problems.append("parameter passed to %s" % names[0])
    # structural reads of the enum
    for bb, i, s in b.stmts():
        if s["k"] != "assign":
            continue
        rv = s["rv"]
        pl = None
        if rv["k"] == "discr":
            pl = rv["place"]
        elif rv["k"] in ("use",):
            pl = op_place(rv["op"])
        elif rv["k"] == "ref":
            pl = rv["place"]
        if pl is not None and pl["l"] in derived:
            if rv["k"] == "discr" or any(isinstance(e, dict) and ("f" in e or "v" in e) for e in pl["p"]):
                problems.append("reads the enum's discriminant/fields directly")
    for p in params:
        if n_as_str[p] == 0:
            problems.append("parameter _%d never goes through as_str" % p)
    # the result / hashed value derives from the comparison of as_str results
    cmp_calls = [(bb, t) for bb, t in b.calls() if any(n in cmp_names for n in callee_names(t))]
    via_order = None
    if method == "eq" and len(cmp_calls) == 1 and any("core::cmp::Ordering as core::cmp::PartialEq" in n for n in callee_names(cmp_calls[0][1])):
        # `a.cmp(b) == Ordering::Equal`: equality read off the order of the names — the comparison is the one `cmp` call whose
        # result is tested against `Equal`
        ebb, et = cmp_calls[0]
        sides = []
        for a in et["args"]:
            lv, _ = fl.sources([op_local(a)], through_call=lambda t2, k=None: None)
            sides.append(lv)
        is_equal = lambda lv: any(x[0] == "agg" and b.blocks[x[1]]["s"][x[2]]["rv"].get("variant") == "Equal" for x in lv) and \
            not any(x[0] in ("call", "param") for x in lv)
        ord_calls = lambda lv: [x[1] for x in lv if x[0] == "call" and any(n == "core::cmp::Ord::cmp" for n in callee_names(b.blocks[x[1]]["t"]))]
        for i in (0, 1):
            if is_equal(sides[1 - i]) and len(ord_calls(sides[i])) == 1 and not any(x[0] == "param" for x in sides[i]):
                via_order = ebb
                cbb = ord_calls(sides[i])[0]
                cmp_calls = [(cbb, b.blocks[cbb]["t"])]
        if via_order is None:
            problems.append("the equality of two Ordering values is not `names.cmp() == Equal`")
    if allow_delegate is None:
        if len(cmp_calls) != 1:
            problems.append("expected exactly one %s call, found %d" % ("/".join(sorted(cmp_names)), len(cmp_calls)))
        else:
            bb, t = cmp_calls[0]
            nargs = self_params if method != "hash" else 1
            for ai in range(min(nargs, len(t["args"]))):
                l = op_local(t["args"][ai])
                leaves, _ = fl.sources([l], through_call=identity_through)
                calls = [x for x in leaves if x[0] == "call"]
                from_as_str = [x for x in calls if as_str_name in callee_names(b.blocks[x[1]]["t"])]
                if method == "eq" and trait.endswith("PartialEq<&'a str>") and ai == 1:
                    continue
                if not from_as_str:
                    problems.append("operand %d of the comparison does not derive from as_str" % ai)
                if method in ("cmp", "partial_cmp"):
                    # direction: `a.cmp(b)` must be the order of the names, not its reverse — operand i of the one comparison
                    # comes from parameter i (self first), unless the result is explicitly reversed again
                    psrc = {x[1] for x in fl.sources([l], through_call=identity_through)[0] if x[0] == "param"}
                    for x in from_as_str:
                        tt = b.blocks[x[1]]["t"]
                        psrc |= {y[1] for y in fl.sources([op_local(tt["args"][0])], through_call=identity_through)[0] if y[0] == "param"}
                    flipped = any(any(n.endswith("Ordering::reverse") for n in callee_names(t2)) for _, t2 in b.calls())
                    want = {ai + 1} if not flipped else {2 - ai}
                    if psrc != want:
                        problems.append("operand %d of the name comparison comes from parameter %s, expected %s: the order of two tags is "
                                        "the reverse of the order of their protocol names" % (ai, sorted(psrc), sorted(want)))
            if method != "hash":
                def thr(t2, kind=None):
                    # `.reverse()` of the comparison is still the comparison (its direction is checked above)
                    if any(n.endswith("Ordering::reverse") for n in callee_names(t2)):
                        return (0,)
                    return identity_through(t2, kind)
                leaves, _ = fl.sources([0], through_call=thr)
                if via_order is not None:
                    leaves = {("call", bb)} if ("call", via_order) in leaves else set()
                if ("call", bb) not in leaves:
                    problems.append("the result does not derive from the comparison of the names")
    if allow_delegate is not None:
        # `Some(self.cmp(other))`: same direction as the total order it delegates to
        dcalls = [(bb, t) for bb, t in b.calls() if allow_delegate in callee_names(t)]
        flipped = any(any(n.endswith("Ordering::reverse") for n in callee_names(t2)) for _, t2 in b.calls())
        for bb, t in dcalls:
            for ai in range(min(2, len(t["args"]))):
                psrc = {x[1] for x in fl.sources([op_local(t["args"][ai])], through_call=identity_through)[0] if x[0] == "param"}
                want = {ai + 1} if not flipped else {2 - ai}
                if psrc != want:
                    problems.append("operand %d of the delegated %s comes from parameter %s, expected %s: partial_cmp is the reverse of cmp"
                                    % (ai, allow_delegate.rsplit("::", 1)[-1], sorted(psrc), sorted(want)))
    if problems and self_params == 1 and allow_delegate is None:
        alt = per_arm_key_function(prog, b, type_name, as_str_name, cmp_names, method)
        if alt is None:
            problems = []
        else:
            problems.append("(read per variant: %s)" % alt)
    rep.check(not problems, rule, inst, where,
              "%s::%s for %s does not factor through the protocol name: %s" % (trait, method, type_name, "; ".join(sorted(set(problems)))),
              detail={"as_str_calls": n_as_str})


def per_arm_key_function(prog, b, type_name, as_str_name, cmp_names, method):
    """`match self { Tag::Other(raw) => <op>(raw), named => <op>(named.as_str()) }`: the catch-all variant holds its protocol name,
    so using the payload in place is using the name — provided as_str returns that payload unchanged, every arm applies the one
    operation to the name exactly once (through the same implementation, for hashing), and nothing else of the enum is read.
    Returns None when this holds, else what does not."""
    a = body_by_name(prog, as_str_name)
    if len(a) != 1:
        return "as_str not found"
    lv, _ = Flow(a[0]).sources([0], through_call=identity_through, follow_mut=False)
    if ("param", 1) not in lv or [x for x in lv if x[0] == "call" and identity_through(a[0].blocks[x[1]]["t"]) is None]:
        return "as_str does not return the catch-all payload unchanged"
    sws = [sw for sw in tables.discr_switches(b) if sw["adt"] == type_name or sw["adt"].endswith(type_name.split("::", 1)[-1])]
    if len(sws) != 1 or sws[0]["place"]["l"] != 1:
        return "expected one match on self, found %d" % len(sws)
    sw = sws[0]
    catch = [v for v in sw["arms"] if v == "Other"]
    if catch != ["Other"] or len(set(sw["arms"].values())) != 1 or sw["otherwise"] == sw["arms"]["Other"]:
        return "the match does not single out the catch-all variant only"
    t_other, t_named = sw["arms"]["Other"], sw["otherwise"]
    fl = Flow(b)
    impls = []
    for label, tb, rest in (("catch-all", t_other, t_named), ("named", t_named, t_other)):
        region = tables.exclusive(b, tb, [rest]) or {tb}
        calls = [(bb, t) for bb, t in b.calls() if bb in region and any(n in cmp_names for n in callee_names(t))]
        if len(calls) != 1:
            return "%s arm applies the operation %d times" % (label, len(calls))
        bb, t = calls[0]
        impls.append(tuple(callee_names(t)))
        lv, _ = fl.sources([op_local(t["args"][0])], through_call=identity_through, follow_mut=False)
        calls_in = [x[1] for x in lv if x[0] == "call"]
        if label == "named":
            if not any(as_str_name in callee_names(b.blocks[x]["t"]) for x in calls_in):
                return "named arm does not go through as_str"
            if any(identity_through(b.blocks[x]["t"]) is None and as_str_name not in callee_names(b.blocks[x]["t"]) for x in calls_in):
                return "named arm transforms the name"
        else:
            if any(identity_through(b.blocks[x]["t"]) is None for x in calls_in) or ("param", 1) not in lv or [x for x in lv if x[0] == "const"]:
                return "catch-all arm does not use its payload unchanged"
        if method == "eq":
            rl, _ = fl.sources([0], through_call=identity_through)
            if ("call", bb) not in rl:
                return "%s arm: the result is not the comparison" % label
    if method == "hash" and impls[0] != impls[1]:
        return "the two arms hash through different implementations (%s / %s)" % (impls[0][-1], impls[1][-1])
    # nothing of the enum is read except the discriminant and the catch-all payload
    for bb, i, st in b.stmts():
        if st["k"] != "assign":
            continue
        rv = st["rv"]
        pl = rv.get("place") if rv["k"] in ("ref", "discr") else (op_place(rv["op"]) if rv["k"] == "use" else None)
        if pl is not None and pl["l"] == 1:
            downs = [e.get("n") for e in pl["p"] if isinstance(e, dict) and "v" in e]
            if downs and downs != ["Other"]:
                return "reads the payload of %s" % downs
    return None


def run(rep, progs, tier):
    rep.explanation = (
        "Rule-based static analysis (no execution). A6: the variant->literal table of Tag::as_str / "
        "Subsystem::as_str and the literal->variant table of Tag::try_from / Subsystem::from_frame are "
        "extracted from MIR (discriminant switches, compare-and-construct chains) and decided: complete "
        "for every named variant, mutually inverse, pairwise distinct under ASCII case folding, literals "
        "in the MPD reference vocabulary, fallback stores the input unchanged. A3: every Eq/Ord/Hash impl "
        "reads its operands only through as_str and compares/hashes exactly those results; none is "
        "derived. A5: the exact alphabet Tag::try_from accepts equals the protocol parser's field-name "
        "alphabet and the empty string is rejected. With these, 'for all pairs of values' is a finite "
        "statement that the analysis decides exactly.")
    rep.rule("C20.tag-tables", "Tag::as_str and TryFrom<&str> tables are complete, inverse, distinct under case folding, in MPD vocabulary; fallback verbatim")
    rep.rule("C20.subsystem-tables", "Subsystem::as_str and from_frame tables complete, inverse, exact-case, in MPD vocabulary; fallback verbatim")
    rep.rule("C20.key-function", "PartialEq/Eq/Hash/Ord/PartialOrd impls factor through as_str; none derived; exactly one each")
    rep.rule("C20.charset", "Tag::try_from rejects empty and accepts exactly the protocol field-name alphabet")
    rep.trusted = ["rustc MIR construction", "mpdfacts exporter", "str's own Eq/Ord/Hash coherence",
                   "MPD protocol reference vocabulary (tags, idle subsystems)"]
    for cfg, prog in progs.items():
        tag_rules(rep, prog, cfg)
        subsystem_rules(rep, prog, cfg)
        TAG = "mpd_client::tag::Tag"
        SUB = "mpd_client::client::Subsystem"
        key_function_rule(rep, prog, cfg, TAG, TAG + "::as_str", "core::cmp::PartialEq", "eq",
                          {"core::cmp::PartialEq::eq"}, 2)
        key_function_rule(rep, prog, cfg, TAG, TAG + "::as_str", "core::cmp::PartialEq<&'a str>", "eq",
                          {"core::cmp::PartialEq::eq"}, 1)
        key_function_rule(rep, prog, cfg, TAG, TAG + "::as_str", "core::cmp::Ord", "cmp",
                          {"core::cmp::Ord::cmp"}, 2)
        key_function_rule(rep, prog, cfg, TAG, TAG + "::as_str", "core::cmp::PartialOrd", "partial_cmp",
                          {"core::cmp::PartialOrd::partial_cmp"}, 2, allow_delegate="core::cmp::Ord::cmp")
        key_function_rule(rep, prog, cfg, TAG, TAG + "::as_str", "core::hash::Hash", "hash",
                          {"core::hash::Hash::hash"}, 1)
        key_function_rule(rep, prog, cfg, SUB, SUB + "::as_str", "core::cmp::PartialEq", "eq",
                          {"core::cmp::PartialEq::eq"}, 2)
        key_function_rule(rep, prog, cfg, SUB, SUB + "::as_str", "core::hash::Hash", "hash",
                          {"core::hash::Hash::hash"}, 1)
        # no second impl of a comparison trait for these types (e.g. a derived PartialOrd for Subsystem)
        for ty, allowed in ((TAG, {"core::cmp::PartialEq", "core::cmp::PartialEq<&'a str>", "core::cmp::Eq", "core::cmp::Ord",
                                   "core::cmp::PartialOrd", "core::hash::Hash"}),
                            (SUB, {"core::cmp::PartialEq", "core::cmp::Eq", "core::hash::Hash"})):
            for imp in prog.impls:
                info = imp["info"]
                if info.get("self") != ty or "trait_ref" not in info:
                    continue
                tr = norm(info["trait_name"])
                if tr.startswith(("core::cmp::", "core::hash::Hash")):
                    full = info["trait_ref"].split(" as ", 1)[1][:-1] if " as " in info["trait_ref"] else tr
                    rep.check(norm(full) in allowed and not (info["derived"] and tr != "core::cmp::Eq"),
                              "C20.key-function", "%s/impl %s for %s" % (cfg, norm(full), ty.rsplit("::", 1)[-1]), ty,
                              "unexpected or derived comparison/hash impl %s for %s" % (full, ty))
        comparators_rule(rep, prog, cfg)
        # charset
        charset_rule(rep, prog, cfg)


def comparators_rule(rep, prog, cfg, rule="C20.key-function"):
    TAG = "mpd_client::tag::Tag"
    SUB = "mpd_client::client::Subsystem"
    """Equality of tags / subsystems by anything but the name is a second, disagreeing notion of "the same tag": a catch-all value
    holding a known name is the named variant for `==`, maps and sets, but has another discriminant.  So (i) `mem::discriminant`
    is never taken of a Tag or Subsystem, and (ii) every function of the crate (outside the comparison trait impls decided above)
    that takes two tags / subsystems and answers with a bool compares them through `==` of the type or through `as_str` of both."""
    n_fns = 0
    for b in prog.bodies.values():
        if b.crate != "mpd_client" or b.raw.get("derived"):
            continue
        for bb, t in b.calls():
            f = callee(t)
            if f is None or not norm(f["name"]).endswith("core::mem::discriminant"):
                continue
            ga = [norm(a).lstrip("&").strip() for a in f.get("args", [])]
            if any(a in (TAG, SUB) for a in ga):
                root = prog.bodies.get(b.root, b)
                rep.fail(rule, "%s/%s takes the discriminant of a %s" % (cfg, norm(root.name), ga[0].rsplit("::", 1)[-1]), b.loc(b.blocks[bb]["ts"]),
                         "mem::discriminant of a %s in %s: two values with the same protocol name (a catch-all value and the named variant) have different "
                         "discriminants, so whatever is decided here disagrees with `==`, hashing and ordering by name" % (ga[0].rsplit("::", 1)[-1], norm(root.name)))
    for b in prog.bodies.values():
        if b.crate != "mpd_client" or b.kind not in ("Fn", "AssocFn") or b.raw.get("derived") or b.local_ty(0) != "bool":
            continue
        if b.impl and b.impl.get("trait_name"):
            continue        # trait impls (PartialEq, ...) are decided by the key-function rule proper
        tys = [b.local_ty(i).replace("&", "").replace("'_ ", "").strip() for i in range(1, b.mir["argc"] + 1)]
        for ty in (TAG, SUB):
            if sum(1 for x in tys if x == ty) < 2:
                continue
            n_fns += 1
            names = [n for _, t in b.calls() for n in callee_names(t)]
            as_strs = sum(1 for n in names if n == ty + "::as_str")
            eqs = [t for _, t in b.calls() if any(n in ("core::cmp::PartialEq::eq", "core::cmp::PartialEq::ne") for n in callee_names(t))
                   and (callee(t) or {}).get("args") and norm((callee(t) or {}).get("args")[0]).lstrip("&").strip() == ty]
            rep.check(as_strs >= 2 or bool(eqs), rule, "%s/%s compares by name" % (cfg, norm(b.name)), b.loc(b.span),
                      "%s answers whether two %ss are the same without going through `==` of the type or `as_str` of both: it can disagree with equality by protocol name"
                      % (norm(b.name), ty.rsplit("::", 1)[-1]))
    rep.count("two_tag_predicates", n_fns)


def fallback_verbatim(rep, rule, inst, body, adt_suffix, catch_all, param, prog=None, matched=None):
    """The catch-all variant is built from the input string through identity-like calls only.  `matched`: the operands
    the name table compares — when the body obtains the string itself (`let raw = frame.find(..)?; match raw { .. }`), the
    input is that value: the catch-all must come from the very call(s) the compared value comes from."""
    aggs = [(v, bb, i) for v, bb, i in tables.variant_aggs(body, body.reachable(), adt_suffix) if v == catch_all]
    if not aggs and prog is not None:
        # `known.unwrap_or_else(|| Enum::Other(raw.into()))`: the construction sits in a closure capturing the input
        for bbc, ic, stc in body.stmts():
            if stc["k"] == "assign" and stc["rv"]["k"] == "agg" and stc["rv"].get("agg") == "closure":
                cb = prog.bodies.get(stc["rv"]["def"])
                if cb is None or not [1 for v, _, _ in tables.variant_aggs(cb, cb.reachable(), adt_suffix) if v == catch_all]:
                    continue
                fl0 = Flow(body)
                caps = [op_local(o) for o in stc["rv"]["ops"]]
                lv0, _ = fl0.sources([l for l in caps if l is not None], through_call=identity_through, follow_mut=False)
                only_input = bool(caps) and ("param", param) in lv0 and not [x for x in lv0 if x[0] in ("const", "call") and
                                                                         (x[0] == "const" or identity_through(body.blocks[x[1]]["t"]) is None)]
                if not rep.check(only_input, rule, inst + "/fallback captures", body.loc(stc["span"]),
                                 "the closure building %s::%s captures something else than the unchanged input (sources: %s)"
                                 % (adt_suffix, catch_all, sorted(map(str, lv0)))):
                    return
                return fallback_verbatim(rep, rule, inst, cb, adt_suffix, catch_all, 1, None)
    if len(aggs) != 1:
        rep.fail(rule, inst + "/fallback", body.loc(body.span),
                 "expected exactly one construction of %s::%s, found %d" % (adt_suffix, catch_all, len(aggs)))
        return
    _, bb, i = aggs[0]
    s = body.blocks[bb]["s"][i]
    fl = Flow(body)
    ls = [op_local(o) for o in s["rv"]["ops"]]
    leaves, _ = fl.sources([l for l in ls if l is not None], through_call=identity_through, follow_mut=False)
    calls = [x for x in leaves if x[0] == "call" and identity_through(body.blocks[x[1]]["t"]) is None]
    consts = [x for x in leaves if x[0] == "const"]
    ok = ("param", param) in leaves and not calls and not consts
    if not ok and matched and calls and not consts:
        mls = [op_local(o) for o in matched]
        mleaves, _ = fl.sources([l for l in mls if l is not None], through_call=identity_through, follow_mut=False)
        mcalls = {x for x in mleaves if x[0] == "call" and identity_through(body.blocks[x[1]]["t"]) is None}
        ok = bool(mcalls) and set(calls) == mcalls and not [x for x in mleaves if x[0] == "const"]
    rep.check(ok, rule, inst + "/fallback", body.loc(s["span"]),
              "the catch-all %s::%s is not built from the unchanged input (sources: %s)" % (adt_suffix, catch_all, sorted(map(str, leaves))),
              detail={"sources": sorted(map(str, leaves))})


def tag_rules(rep, prog, cfg):
    rule = "C20.tag-tables"
    bs = body_by_name(prog, "mpd_client::tag::Tag::as_str")
    tf = [b for b in prog.bodies.values() if b.kind == "AssocFn" and norm(b.name) == "<mpd_client::tag::Tag as core::convert::TryFrom<&'a str>>::try_from"]
    if len(bs) != 1 or len(tf) != 1:
        rep.fail(rule + ".anchor", cfg, "tag.rs", "Tag::as_str (%d) / Tag::try_from (%d) not found" % (len(bs), len(tf)))
        return
    a, t = bs[0], tf[0]
    table, sw, err = as_str_table(a, "tag::Tag")
    if table is None or err:
        rep.fail(rule, cfg + "/as_str", a.loc(a.span), "cannot extract the variant->name table: %s" % err)
        return
    variants = [v for v in sw["variants"]]
    named = [v for v in variants if v != "Other"]
    rep.floor(rule, cfg + "/named Tag variants", len(named), 31)
    for v in named:
        rep.check(v in table, rule, "%s/as_str covers %s" % (cfg, v), a.loc(a.span),
                  "Tag::%s has no protocol name in as_str" % v, detail={"name": table.get(v)})
    ptab, bad = parse_table(t, "tag::Tag")
    fb_body = t
    if not ptab:
        lt = local_array_table(prog, t, "tag::Tag")
        if lt:
            ptab, bad = lt, []
            # the catch-all is then built in the closure of `unwrap_or_else(|| Other(raw.into()))`
            for fb2 in family(prog, t):
                if any(v == "Other" for v, _, _ in tables.variant_aggs(fb2, fb2.reachable(), "tag::Tag")):
                    fb_body = fb2
    rep.check(not bad, rule, cfg + "/try_from arms", t.loc(t.span), "comparisons without a unique variant: %s" % bad)
    by_fold = {}
    for lit, ci, v in ptab:
        rep.check(ci, rule, "%s/try_from %s case-insensitive" % (cfg, lit), t.loc(t.span),
                  "known tag name %r is compared case-sensitively" % lit)
        by_fold.setdefault(lit.lower(), []).append(v)
    for f, vs in by_fold.items():
        rep.check(len(vs) == 1, rule, "%s/try_from distinct %s" % (cfg, f), t.loc(t.span),
                  "name %r (case-folded) maps to several variants %s" % (f, vs))
    for v in named:
        n = table.get(v)
        if n is None:
            continue
        got = by_fold.get(n.lower())
        rep.check(got == [v], rule, "%s/inverse %s" % (cfg, v), t.loc(t.span),
                  "parsing as_str(Tag::%s) = %r gives %s, not Tag::%s — a parsed tag would not equal the named variant's own name"
                  % (v, n, got, v), detail={"name": n})
        rep.check(n in MPD_TAGS, rule, "%s/vocabulary %s" % (cfg, v), a.loc(a.span),
                  "protocol name %r of Tag::%s is not an MPD tag name" % (n, v))
        want = TAG_REFERENCE.get(v, v if v in MPD_TAGS else None)
        if want is None:
            rep.note("tag_variants_not_in_reference_" + cfg, v)
        else:
            rep.check(n == want, rule, "%s/Tag::%s denotes %s" % (cfg, v, want), a.loc(a.span),
                      "Tag::%s is sent and parsed as %r; the documented protocol name of that tag is %r (a request built with it would ask the "
                      "server about a different tag)" % (v, n, want))
    # names distinct
    names = [table[v] for v in named if v in table]
    rep.check(len({n.lower() for n in names}) == len(names), rule, cfg + "/as_str names distinct", a.loc(a.span),
              "two Tag variants share a protocol name (case-folded)")
    rep.check(len(ptab) == len(named), rule, cfg + "/try_from complete", t.loc(t.span),
              "try_from knows %d names, as_str names %d variants" % (len(ptab), len(named)))
    tr = tables.transformed_compares(t)
    rep.check(not tr, rule, cfg + "/try_from compares the received name", t.loc(t.span),
              "the tag name is transformed before it is matched: %s" % sorted({x for v in tr.values() for x in v}))
    fallback_verbatim(rep, rule, cfg + "/try_from", t, "tag::Tag", "Other", 1, prog)
    rep.sample({"tag_as_str": table})


def tag_key_problems(prog):
    """Shared with C14 / C16 (their decoders key values by the parsed Tag): (where, message) for every way in which two different wire
    names could end up under one Tag key or a wire name under the wrong one.  None when the tables cannot be extracted."""
    bs = body_by_name(prog, "mpd_client::tag::Tag::as_str")
    tf = [b for b in prog.bodies.values() if b.kind == "AssocFn" and norm(b.name) == "<mpd_client::tag::Tag as core::convert::TryFrom<&'a str>>::try_from"]
    if len(bs) != 1 or len(tf) != 1:
        return None
    a, t = bs[0], tf[0]
    table, sw, err = as_str_table(a, "tag::Tag")
    if table is None or err:
        return None
    named = [v for v in sw["variants"] if v != "Other"]
    ptab, bad = parse_table(t, "tag::Tag")
    if not ptab:
        lt = local_array_table(prog, t, "tag::Tag")
        if lt:
            ptab, bad = lt, []
    out = []
    if bad:
        out.append((t.loc(t.span), "Tag::try_from has comparisons without a unique variant: %s" % bad))
    by_fold = {}
    for lit, ci, v in ptab:
        by_fold.setdefault(lit.lower(), []).append(v)
    for v in named:
        n = table.get(v)
        if n is None:
            out.append((a.loc(a.span), "Tag::%s has no protocol name" % v))
            continue
        got = by_fold.get(n.lower())
        if got != [v]:
            out.append((t.loc(t.span), "the field name %r decodes to %s, but it is the protocol name of Tag::%s: its values are filed under another tag"
                        % (n, got, v)))
    names = [table[v] for v in named if v in table]
    dup = sorted({n for n in names if [x.lower() for x in names].count(n.lower()) > 1})
    if dup:
        out.append((a.loc(a.span), "several Tag variants share the protocol name %s: Tag compares and hashes by that name, so their values collapse "
                    "into one map entry" % dup))
    return out, len(named)


def local_array_table(prog, body, adt_suffix):
    """Data-driven table written in the function itself: `[("name", Enum::Variant), ..].into_iter().find(|(p, _)|
    raw.eq_ignore_ascii_case(p)).map(|(_, v)| v)`.  Rows [(literal, ci, variant)] or None; the lookup closure must compare a row's
    name with the received value by exactly one (case-insensitive or exact) equality."""
    variant_of = {}
    rows = []
    for _, _, st in body.stmts():
        if st["k"] == "assign" and st["rv"]["k"] == "agg" and st["rv"].get("agg") == "adt" and str(st["rv"].get("adt_name", "")).endswith(adt_suffix) \
                and not st["rv"]["ops"]:
            variant_of[st["place"]["l"]] = st["rv"].get("variant")
    for _, _, st in body.stmts():
        if st["k"] == "assign" and st["rv"]["k"] == "agg" and st["rv"].get("agg") == "tuple" and len(st["rv"]["ops"]) == 2:
            lit = tables.arg_str(body, st["rv"]["ops"][0])
            v = variant_of.get(op_local(st["rv"]["ops"][1]))
            if lit is not None and v is not None:
                rows.append((lit, v))
    if len(rows) < 3:
        return None
    finds = [(bb, t) for bb, t in body.calls() if any(n.endswith(("Iterator::find", "Iterator::position")) for n in callee_names(t))]
    ci = None
    for bb, t in finds:
        for a in t["args"]:
            l = op_local(a)
            pb = None
            if l is not None:
                for _, _, st in body.stmts():
                    if st["k"] == "assign" and st["place"]["l"] == l and st["rv"]["k"] == "agg" and st["rv"].get("agg") == "closure":
                        pb = prog.bodies.get(st["rv"]["def"])
            if pb is not None:
                cmps = [callee_names(t2) for _, t2 in pb.calls()]
                eqs = [ns for ns in cmps if any(n.endswith(("PartialEq::eq", "::eq", "::eq_ignore_ascii_case")) for n in ns)]
                other = [ns for ns in cmps if ns not in eqs and not any(n.endswith(("::deref", "::as_ref", "::as_str", "::borrow")) for n in ns)]
                if len(eqs) == 1 and not other:
                    ci = any(n.endswith("eq_ignore_ascii_case") for n in eqs[0])
    if ci is None:
        return None
    return [(lit, ci, v) for lit, v in rows]


def static_name_table(prog, adt_suffix):
    """Data-driven form of a name table: `static NAMES: [(&str, Enum); N] = [("name", Enum::Variant), ..]` looked up with
    `NAMES.iter().find(|(name, _)| *name == raw)` and the hit's variant cloned.  Returns (rows [(literal, ci, variant)], the body
    that does the lookup) or (None, None).  The lookup must compare the row's name with the received value by an exact `==`."""
    for sb in prog.bodies.values():
        if not str(sb.kind).startswith("Static") or sb.crate != "mpd_client":
            continue
        ty0 = sb.local_ty(0)
        if not (ty0.startswith("[(&str, ") and adt_suffix in ty0):
            continue
        variant_of = {}
        rows = []
        for _, _, st in sb.stmts():
            if st["k"] == "assign" and st["rv"]["k"] == "agg" and st["rv"].get("agg") == "adt" and str(st["rv"].get("adt_name", "")).endswith(adt_suffix):
                variant_of[st["place"]["l"]] = st["rv"].get("variant")
        for _, _, st in sb.stmts():
            if st["k"] == "assign" and st["rv"]["k"] == "agg" and st["rv"].get("agg") == "tuple" and len(st["rv"]["ops"]) == 2:
                c = op_const(st["rv"]["ops"][0])
                lit = const_str(c) if c is not None else None
                v = variant_of.get(op_local(st["rv"]["ops"][1]))
                if lit is not None and v is not None:
                    rows.append((lit, False, v))
        if len(rows) < 3:
            continue
        for ub in prog.bodies.values():
            if ub.crate != "mpd_client" or ub.raw.get("derived"):
                continue
            refs = any(st["k"] == "assign" and st["rv"]["k"] == "use" and (op_const(st["rv"]["op"]) or {}).get("ty") == "&" + ty0 for _, _, st in ub.stmts())
            if not refs:
                continue
            finds = [(bb, t) for bb, t in ub.calls() if any(n.endswith(("Iterator::find", "Iterator::position", "Iterator::find_map")) for n in callee_names(t))]
            exact = False
            for bb, t in finds:
                for a in t["args"]:
                    l = op_local(a)
                    pb = None
                    if l is not None:
                        for _, _, st in ub.stmts():
                            if st["k"] == "assign" and st["place"]["l"] == l and st["rv"]["k"] == "agg" and st["rv"].get("agg") == "closure":
                                pb = prog.bodies.get(st["rv"]["def"])
                    if pb is not None:
                        cmps = [callee_names(t2) for _, t2 in pb.calls()]
                        eqs = [ns for ns in cmps if any(n.endswith("PartialEq::eq") or n.endswith("::eq") for n in ns)]
                        other = [ns for ns in cmps if ns not in eqs and not any(n.endswith(("::deref", "::as_ref", "::as_str", "::borrow")) for n in ns)]
                        exact = len(eqs) == 1 and not other and not any("ignore" in n for ns in eqs for n in ns)
            clones = any(any(n.endswith("Clone::clone") for n in callee_names(t)) for _, t in ub.calls())
            if exact and clones:
                return rows, ub
    return None, None


def subsystem_rules(rep, prog, cfg):
    rule = "C20.subsystem-tables"
    bs = body_by_name(prog, "mpd_client::client::Subsystem::as_str")
    # the name -> variant table: found by what it constructs (string compares leading to Subsystem variants), not by name
    ff = [b for b in prog.bodies.values() if b.crate == "mpd_client" and not b.raw.get("derived") and len(parse_table(b, "client::Subsystem")[0]) >= 3]
    st_rows, st_user = (None, None) if ff else static_name_table(prog, "client::Subsystem")
    if st_user is not None:
        ff = [st_user]
    if len(bs) != 1 or not ff:
        rep.fail(rule + ".anchor", cfg, "client/mod.rs", "Subsystem::as_str / from_frame not found")
        return
    a = bs[0]
    table, sw, err = as_str_table(a, "client::Subsystem")
    if table is None or err:
        rep.fail(rule, cfg + "/as_str", a.loc(a.span), "cannot extract the variant->name table: %s" % err)
        return
    named = [v for v in sw["variants"] if v != "Other"]
    rep.floor(rule, cfg + "/named Subsystem variants", len(named), 14)
    ptab = []
    pbody = None
    for b in ff:
        pt, bad = (st_rows, []) if st_user is not None else parse_table(b, "client::Subsystem")
        if pt:
            ptab, pbody = pt, b
            rep.check(not bad, rule, cfg + "/from_frame arms", b.loc(b.span), "comparisons without a unique variant: %s" % bad)
    if pbody is None:
        rep.fail(rule, cfg + "/from_frame", ff[0].loc(ff[0].span), "no name->variant table found in Subsystem::from_frame")
        return
    by_lit = {}
    for lit, ci, v in ptab:
        rep.check(not ci, rule, "%s/from_frame %s exact-case" % (cfg, lit), pbody.loc(pbody.span),
                  "subsystem name %r is compared case-insensitively, as_str equality is exact" % lit)
        by_lit.setdefault(lit, []).append(v)
    for v in named:
        rep.check(v in table, rule, "%s/as_str covers %s" % (cfg, v), a.loc(a.span), "Subsystem::%s has no protocol name" % v)
        n = table.get(v)
        if n is None:
            continue
        rep.check(by_lit.get(n) == [v], rule, "%s/inverse %s" % (cfg, v), pbody.loc(pbody.span),
                  "the name %r of Subsystem::%s is decoded to %s — the event would carry a value whose protocol name differs or is a catch-all"
                  % (n, v, by_lit.get(n)), detail={"name": n})
        rep.check(n in MPD_SUBSYSTEMS, rule, "%s/vocabulary %s" % (cfg, v), a.loc(a.span),
                  "protocol name %r of Subsystem::%s is not an MPD idle subsystem" % (n, v))
        if v in SUBSYSTEM_REFERENCE:
            rep.check(n == SUBSYSTEM_REFERENCE[v], rule, "%s/Subsystem::%s denotes %s" % (cfg, v, SUBSYSTEM_REFERENCE[v]), a.loc(a.span),
                      "Subsystem::%s stands for the protocol name %r, the documented name is %r" % (v, n, SUBSYSTEM_REFERENCE[v]))
        else:
            rep.note("subsystem_variants_not_in_reference_" + cfg, v)
    for lit, vs in by_lit.items():
        rep.check(len(vs) == 1 and table.get(vs[0]) == lit, rule, "%s/from_frame %s -> as_str" % (cfg, lit), pbody.loc(pbody.span),
                  "from_frame maps %r to %s whose protocol name is %r" % (lit, vs, [table.get(x) for x in vs]))
    # the names are compared on the value the server sent, not on a normalised copy of it (which would fold distinct
    # names onto one variant while the catch-all keeps the original spelling)
    from .. import terms
    transformed = {}
    for c in tables.str_compares(pbody):
        leaf, tr = terms.raw_source(pbody, c["other"])
        if tr:
            transformed[c["lit"]] = tr
    rep.check(not transformed, rule, cfg + "/from_frame compares the received name", pbody.loc(pbody.span),
              "the subsystem name is transformed before it is matched (%s): names that differ from the canonical spelling are decoded to the named variant, "
              "whose protocol name is not what the server sent" % sorted({x for v in transformed.values() for x in v}))
    names = [table[v] for v in named if v in table]
    rep.check(len(set(names)) == len(names), rule, cfg + "/as_str names distinct", a.loc(a.span), "two variants share a name")
    param = 2 if pbody.kind == "Closure" else 1
    fallback_verbatim(rep, rule, cfg + "/from_frame", pbody, "client::Subsystem", "Other", param,
                      matched=[c["other"] for c in tables.str_compares(pbody)])
    rep.sample({"subsystem_as_str": table})


def charset_rule(rep, prog, cfg):
    rule = "C20.charset"
    kv = body_by_name(prog, "mpd_protocol::parser::key_value_field")
    tf = [b for b in prog.bodies.values() if b.kind == "AssocFn" and norm(b.name) == "<mpd_client::tag::Tag as core::convert::TryFrom<&'a str>>::try_from"]
    if len(kv) != 1 or len(tf) != 1:
        rep.fail(rule + ".anchor", cfg, "parser.rs / tag.rs", "anchors not found")
        return
    try:
        key_set, how = parser_key_alphabet(prog, kv[0])
        valid, nonempty = tag_valid_alphabet(prog, tf[0])
    except charset.Opaque as e:
        rep.fail(rule, cfg + "/alphabet", tf[0].loc(tf[0].span),
                 "a character predicate is not exactly analysable (%s): cannot show that Tag::try_from accepts only protocol field-name characters" % e)
        return
    rep.check(nonempty, rule, cfg + "/rejects-empty", tf[0].loc(tf[0].span), "Tag::try_from does not reject the empty string")
    rep.check(charset.subset(valid, key_set), rule, cfg + "/accepts-only-protocol-chars", tf[0].loc(tf[0].span),
              "Tag::try_from accepts %s, the protocol can carry only %s in a field name" % (charset.fmt_set(valid), charset.fmt_set(key_set)),
              detail={"tag": charset.fmt_set(valid), "protocol": charset.fmt_set(key_set)})
    rep.check(charset.subset(key_set, valid), rule, cfg + "/accepts-all-protocol-chars", tf[0].loc(tf[0].span),
              "Tag::try_from rejects characters the protocol parser accepts in a field name: %s vs %s" % (charset.fmt_set(valid), charset.fmt_set(key_set)))
