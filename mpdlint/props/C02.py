"""C02 — responses do not depend on read segmentation (DESIGN.md §4/C02)."""
from ..callgraph import norm
from ..cfg import Cfg, reach
from ..common import (body_by_name, callee_names, callgraph, family, last_named_field, logic_body, logic_or_inlined,
                      ref_field_of_local, switch_atom, incomplete_tests)
from ..facts import callee, const_int, op_const, op_local, op_place
from ..flow import Flow, identity_through
from .C10 import PARSE, INPROG, READS

CONFIGS_QUICK = ["K1"]
CONFIGS_THOROUGH = ["K1", "K3"]
TECHNIQUE = "static analysis: who-may-call (streaming-only parsers), control dependence of buffer consumption, field who-may-write, provenance of buffer lengths"

COMPONENT_PARSE = "mpd_protocol::parser::ParsedComponent::parse"
SHORTEN = {"bytes::bytes_mut::BytesMut::split_to", "bytes::bytes_mut::BytesMut::advance", "bytes::buf::buf_impl::Buf::advance",
           "bytes::bytes_mut::BytesMut::truncate", "bytes::bytes_mut::BytesMut::clear", "bytes::bytes_mut::BytesMut::split_off",
           "bytes::bytes_mut::BytesMut::split", "bytes::buf::buf_impl::Buf::copy_to_bytes"}


def streaming_rule(rep, prog, cfg, rule="C02.streaming", root_names=(COMPONENT_PARSE, "mpd_protocol::parser::greeting"), floor=4):
    cg = callgraph(prog)
    roots = [b for n in root_names for b in body_by_name(prog, n)]
    if len(roots) != len(root_names):
        rep.fail(rule + ".anchor", cfg, "parser.rs", "%s not found" % " / ".join(root_names))
        return
    R = cg.reachable([r.id for r in roots])
    streaming = set()
    complete = []
    for bid in R:
        b = prog.bodies[bid]
        for f, bb in cg.ext.get(bid, []):
            n = norm(f["name"])
            if n.startswith("nom::") and "::streaming::" in n:
                streaming.add(n)
            if n.startswith("nom::") and "::complete::" in n:
                complete.append((n, b, bb))
    for n, b, bb in complete:
        rep.fail(rule, "%s/%s in %s" % (cfg, n, norm(prog.bodies[b.root].name if b.root in prog.bodies else b.name)),
                 b.loc(b.blocks[bb]["ts"]),
                 "the response parser uses the complete-input combinator %s: at the end of a read it turns 'need more bytes' "
                 "into a hard error or a short match, so the result depends on where the stream was split" % n)
    rep.check(not complete, rule, cfg + "/no complete-input combinators", "parser.rs", "see above",
              detail={"streaming_combinators": sorted(streaming), "bodies": len(R)})
    rep.floor(rule + ".control", cfg + "/streaming combinators seen", len(streaming), floor)


def consume_rule(rep, prog, cfg):
    rule = "C02.consume-on-ok"
    from ..common import builder_parse_bodies
    bs = builder_parse_bodies(prog)
    if len(bs) != 1:
        rep.fail(rule + ".anchor", cfg, PARSE, "function not found")
        return
    b = bs[0]
    g = Cfg(b)
    fl = Flow(b)
    # the component parse call and the arms of its result
    pc = [(bb, t) for bb, t in b.calls() if COMPONENT_PARSE in callee_names(t)]
    if len(pc) != 1:
        rep.fail(rule, cfg + "/component parse call", b.loc(b.span), "expected one call of ParsedComponent::parse, found %d" % len(pc))
        return
    pbb, pt = pc[0]
    res = pt["dest"]["l"]
    sw = b.blocks[pt["target"]]
    ok_t = err_t = None
    if sw["t"]["k"] == "switch":
        for v, tb in sw["t"]["targets"]:
            if v == 0:
                ok_t = tb
            if v == 1:
                err_t = tb
    if ok_t is None or err_t is None:
        rep.fail(rule, cfg + "/result match", b.loc(b.span), "cannot see the match on the component parse result")
        return
    # calls that shorten the *source* buffer (param _2)
    src_short = []
    for bb, t in b.calls():
        if any(n in SHORTEN for n in callee_names(t)) and t["args"]:
            leaves, _ = fl.sources([op_local(t["args"][0])], through_call=identity_through, follow_mut=False)
            if ("param", 2) in leaves and not any(x[0] == "call" and any(n in SHORTEN for n in callee_names(b.blocks[x[1]]["t"])) for x in leaves):
                src_short.append((bb, t))
    rep.floor(rule, cfg + "/consuming calls on the source buffer", len(src_short), 1)
    ok_region = reach(g.succs, [ok_t], avoid=[pbb])
    err_region = reach(g.succs, [err_t], avoid=[pbb, ok_t])
    for bb, t in src_short:
        n = callee_names(t)[0]
        only_ok = bb in ok_region and bb not in err_region
        rep.check(only_ok, rule, "%s/%s on Ok only" % (cfg, n.rsplit("::", 1)[-1]), b.loc(b.blocks[bb]["ts"]),
                  "the receive buffer is shortened (%s) on a path that does not come from a successful component parse: "
                  "bytes of an incomplete line would be lost and the next read would continue mid-line" % n)
        # consumed length = src.len() - remaining.len()
        if n.endswith(("split_to", "advance")) and len(t["args"]) > 1:
            leaves, _ = fl.sources([op_local(t["args"][1])], through_call=None, follow_mut=False)
            lens = []
            for leaf in leaves:
                if leaf[0] == "call":
                    t2 = b.blocks[leaf[1]]["t"]
                    ns = callee_names(t2)
                    if any(x.endswith("::len") for x in ns):
                        src2, _ = fl.sources([op_local(t2["args"][0])], through_call=identity_through, follow_mut=False)
                        if ("param", 2) in src2 and not any(y[0] == "call" and COMPONENT_PARSE in callee_names(b.blocks[y[1]]["t"]) for y in src2):
                            lens.append("src")
                        elif any(y[0] == "call" and COMPONENT_PARSE in callee_names(b.blocks[y[1]]["t"]) for y in src2):
                            lens.append("remaining")
            consts = [x for x in leaves if x[0] == "const"]
            rep.check(set(lens) == {"src", "remaining"} and not consts, rule, "%s/consumed length" % cfg, b.loc(b.blocks[bb]["ts"]),
                      "the number of bytes removed from the receive buffer does not derive from src.len() - remaining.len() "
                      "(sources: %s, constants: %s): bytes following the component would be consumed or left behind" % (sorted(lens), consts),
                      detail={"derives_from": sorted(set(lens))})
    # Incomplete edge: reaches Ok(None) without consuming
    inc = None
    for a in incomplete_tests(b):
        if a["bb"] in err_region or a["bb"] == pt["target"]:
            inc = a
    if inc is None:
        rep.fail(rule, cfg + "/incomplete test", b.loc(b.span), "no is_incomplete() test on the error of the component parse")
        return
    # "need more bytes" (Ok(None)) is answered only after the component parser said Incomplete, or when the source buffer is
    # empty: any other way to Ok(None) (a length / newline pre-check, a remembered byte count) leaves buffered bytes unparsed
    # and makes the outcome depend on where a read ended
    from .C10 import ok_none_blocks
    allowed = [(inc["bb"], inc["true"])]
    for bb in sorted(b.reachable()):
        a = switch_atom(b, bb)
        if a is None:
            continue
        if a["kind"] == "call" and any(x.endswith("::is_empty") for x in a["names"]) and a.get("args"):
            src2, _ = fl.sources([op_local(a["args"][0])], through_call=identity_through, follow_mut=False)
            if ("param", 2) in src2:
                allowed.append((a["bb"], a["true"]))
        elif a["kind"] == "cmp":
            from ..common import op_int
            k, x, op = op_int(b, a["rhs"]), a["lhs"], a["op"]
            if k is None:
                k, x = op_int(b, a["lhs"]), a["rhs"]
                op = {"Lt": "Gt", "Gt": "Lt", "Le": "Ge", "Ge": "Le"}.get(op, op)
            if k not in (0, 1) or op_local(x) is None:
                continue
            lv, _ = fl.sources([op_local(x)], through_call=None, follow_mut=False)
            is_len = False
            for leaf in lv:
                if leaf[0] == "call" and any(n.endswith("::len") for n in callee_names(b.blocks[leaf[1]]["t"])):
                    src2, _ = fl.sources([op_local(b.blocks[leaf[1]]["t"]["args"][0])], through_call=identity_through, follow_mut=False)
                    if ("param", 2) in src2:
                        is_len = True
            if not is_len or any(z[0] == "const" for z in lv):
                continue
            empty_t = ({"Eq": a["true"], "Ne": a["false"], "Gt": a["false"], "Le": a["true"]} if k == 0 else {"Lt": a["true"], "Ge": a["false"]}).get(op)
            if empty_t is not None:
                allowed.append((a["bb"], empty_t))
    nones = ok_none_blocks(b)
    from ..cfg import VariantReach
    free = VariantReach(b).blocks(0, avoid_edges=allowed)      # variant-sensitive: outcomes of a spliced helper stay apart (A13)
    rep.check(nones and not (nones & free), "C02.need-more", cfg + "/Ok(None) only after Incomplete or on an empty buffer", b.loc(b.span),
              "ResponseBuilder::parse can answer 'need more bytes' without having offered the buffered bytes to the component parser (or the Ok(None) "
              "return was not found): whether buffered input is looked at then depends on a length / content pre-check, i.e. on read segmentation")
    inc_region = reach(g.succs, [inc["true"]], avoid=[pbb])
    touched = [bb for bb, t in src_short if bb in inc_region]
    rets = [x for x in inc_region if b.blocks[x]["t"]["k"] == "return"]
    rep.check(not touched and rets, rule, cfg + "/Incomplete leaves the buffer untouched", b.loc(b.blocks[inc["bb"]]["ts"]),
              "on 'need more bytes' the source buffer is shortened before returning (or the function does not return): the retry would not see the same bytes")


def conn_bodies(prog):
    """logic bodies of the four connection functions: {flavour/op: body}"""
    cache = getattr(prog, "_conn_bodies", None)
    if cache is not None:
        return cache
    out = {}
    out["blocking/receive"] = logic_or_inlined(prog, "mpd_protocol::connection::Connection::receive", {PARSE})
    out["blocking/connect"] = logic_or_inlined(prog, "mpd_protocol::connection::Connection::connect", {"mpd_protocol::parser::greeting"})
    out["async/receive"] = logic_or_inlined(prog, "mpd_protocol::connection::AsyncConnection::receive", {PARSE})
    out["async/connect"] = logic_or_inlined(prog, "mpd_protocol::connection::AsyncConnection::connect", {"mpd_protocol::parser::greeting"})
    prog._conn_bodies = out
    return out


def builder_scope_rule(rep, prog, cfg):
    """The response under construction must survive between two reads of one receive(): the ResponseBuilder is created once per
    call, outside the loop that reads — creating it inside (directly or in a helper called per read) throws away the lines
    already consumed from the buffer whenever a response arrives in more than one read."""
    from ..cfg import sccs
    from .C09 import is_await_cycle
    rule = "C02.persist"
    NEW = "mpd_protocol::response::ResponseBuilder::new"
    lb = conn_bodies(prog)
    for name in ("blocking/receive", "async/receive"):
        b = lb.get(name)
        if b is None or (cfg == "K3" and name.startswith("async")):
            continue
        g = Cfg(b)
        news = [bb for bb, t in b.calls() if NEW in callee_names(t)]
        reads = {bb for bb, t in b.calls() if any(n in READS for n in callee_names(t))}
        in_loop = [bb for bb in news if any(bb in l and (l & reads) and not is_await_cycle(b, l) for l in g.loops)]
        rep.check(bool(news) and not in_loop, rule, "%s/%s builder created once per call, outside the read loop" % (cfg, name), b.loc(b.span),
                  "%s creates the ResponseBuilder inside the loop that reads (or does not create one): lines of a response consumed before a read "
                  "are dropped when the rest arrives with the next read" % name)


def count_scope_rule(rep, prog, cfg, rule="C02.persist", which=("blocking/connect", "blocking/receive", "async/connect", "async/receive")):
    """What has been received must survive between two reads of one call: a running byte count kept in a local (handed to the
    read helper by `&mut`, or used as the start of the slice that is read into) and a locally built receive buffer are set up
    before the read loop — (re)initialising them inside the loop makes every read overwrite / forget the bytes of the one before."""
    from .C09 import is_await_cycle
    from .C10 import READS_EXT
    lb = conn_bodies(prog)
    for name in which:
        b = lb.get(name)
        if b is None or (cfg == "K3" and name.startswith("async")):
            continue
        g = Cfg(b)
        helpers = {n for n in READS if n not in READS_EXT}
        reads = {bb for bb, t in b.calls() if any(n in READS for n in callee_names(t))}
        loops = [l for l in g.loops if (l & reads) and not is_await_cycle(b, l)]
        if not loops:
            continue
        L = set().union(*loops)
        counts, bufs = set(), set()
        for bb in reads:
            t = b.blocks[bb]["t"]
            for a in t["args"]:
                la = op_local(a)
                if la is None:
                    continue
                cur = la
                for _ in range(4):          # `&mut *(&mut local)`: follow reborrows to the local that is borrowed
                    d = [s2 for _, _, s2 in b.stmts() if s2["k"] == "assign" and s2["place"]["l"] == cur and not s2["place"]["p"]]
                    if len(d) != 1 or d[0]["rv"]["k"] != "ref" or not d[0]["rv"]["mut"]:
                        break
                    pl = d[0]["rv"]["place"]
                    if pl["p"] == ["*"]:
                        cur = pl["l"]
                        continue
                    if not pl["p"]:
                        ty = b.local_ty(pl["l"])
                        if ty == "usize":
                            counts.add(pl["l"])
                        elif "BytesMut" in ty or ty.startswith("alloc::vec::Vec<u8"):
                            bufs.add(pl["l"])
                    break
        bad = []
        for bb, i, st in b.stmts():
            if bb in L and st["k"] == "assign" and not st["place"]["p"] and st["place"]["l"] in counts and st["rv"]["k"] == "use" \
                    and op_const(st["rv"]["op"]) is not None:
                bad.append("the running count `%s` is set to a constant inside the read loop" % (b.local_name(st["place"]["l"]) or "_%d" % st["place"]["l"]))
        for bb, t in b.calls():
            if bb in L and t.get("dest") is not None and not t["dest"]["p"] and t["dest"]["l"] in bufs and \
                    any(n.rsplit("::", 1)[-1] in ("new", "with_capacity", "zeroed", "default") for n in callee_names(t)):
                bad.append("the receive buffer `%s` is created inside the read loop" % (b.local_name(t["dest"]["l"]) or "_%d" % t["dest"]["l"]))
        if counts or bufs:
            rep.check(not bad, rule, "%s/%s local receive state set up before the read loop" % (cfg, name), b.loc(b.span),
                      "%s: %s — bytes received by earlier reads of the same call are overwritten or forgotten, so a line that arrives in two reads is "
                      "never seen whole" % (name, "; ".join(sorted(set(bad)))))


DISCARDING = ("bytes::bytes_mut::BytesMut::clear", "bytes::bytes_mut::BytesMut::truncate", "bytes::bytes_mut::BytesMut::split_to",
              "bytes::bytes_mut::BytesMut::advance", "bytes::buf::buf_impl::Buf::advance", "bytes::bytes_mut::BytesMut::split",
              "bytes::bytes_mut::BytesMut::split_off", "bytes::bytes_mut::BytesMut::set_len", "bytes::bytes_mut::BytesMut::resize",
              "core::mem::take", "core::mem::replace")


def _from_capture(body, local, depth=6):
    """does `local` (a reference) derive from the closure's captures / parameters rather than a value built locally?"""
    for _ in range(depth):
        if local is None:
            return False
        if 1 <= local <= body.raw.get("argc", 1):
            return True
        defs = [s for bb, i, s in body.stmts() if s["k"] == "assign" and s["place"]["l"] == local and not s["place"]["p"]]
        if len(defs) != 1:
            return True   # unknown provenance: fail closed
        rv = defs[0]["rv"]
        if rv["k"] == "ref":
            local = rv["place"]["l"]
            if not rv["place"]["p"] and not (1 <= local <= body.raw.get("argc", 1)):
                return False  # reference to a whole local value
            continue
        if rv["k"] == "use" and op_local(rv["op"]) is not None:
            local = op_local(rv["op"])
            continue
        return False
    return True


def persist_rule(rep, prog, cfg):
    rule = "C02.persist"
    # who may write the connection's buffer fields
    adt = [a for a in prog.adts.values() if a["name"] == "mpd_protocol::connection::Connection"]
    if len(adt) != 1:
        rep.fail(rule + ".anchor", cfg, "connection.rs", "struct Connection not found")
        return
    fields = {f["name"]: f for f in adt[0]["variants"][0]["fields"]}
    buf_fields = [n for n, f in fields.items() if "BytesMut" in f["ty"]]
    rep.check(len(buf_fields) == 1, rule, cfg + "/receive buffer is a connection field", "connection.rs",
              "expected exactly one BytesMut field in Connection (the persistent receive buffer), found %s" % buf_fields)
    if len(buf_fields) != 1:
        return
    buf = buf_fields[0]
    allowed = {"mpd_protocol::connection::Connection::connect", "mpd_protocol::connection::Connection::receive",
               "mpd_protocol::connection::AsyncConnection::connect", "mpd_protocol::connection::AsyncConnection::receive",
               "mpd_protocol::connection::Connection::new_internal"}
    writers = set()
    for b in prog.bodies.values():
        if b.crate != "mpd_protocol" or b.raw.get("derived"):
            continue
        for bb, i, s in b.stmts():
            if s["k"] != "assign":
                continue
            hit = False
            if s["place"]["p"] and last_named_field(s["place"]) in (buf, "total_received"):
                hit = True
            if s["rv"]["k"] == "ref" and s["rv"]["mut"] and last_named_field(s["rv"]["place"]) in (buf, "total_received"):
                hit = True
            if hit:
                root = prog.bodies.get(b.root, b)
                writers.add(norm(root.name))
    for w in sorted(writers):
        rep.check(w in allowed, "C02.persist", "%s/writer %s" % (cfg, w), w,
                  "%s writes the connection's receive buffer / byte count; only connect and receive may (bytes read but not consumed must survive between receive calls)" % w)
    # receive passes the same field to the read and to the parser, and never clears it
    lb = conn_bodies(prog)
    for fl_name in ("blocking/receive", "async/receive"):
        b = lb.get(fl_name)
        if cfg == "K3" and fl_name.startswith("async"):
            continue
        if b is None:
            rep.fail(rule + ".anchor", "%s/%s" % (cfg, fl_name), "connection.rs", "receive body not found")
            continue
        parse_f = read_f = None
        for bb, t in b.calls():
            ns = callee_names(t)
            if PARSE in ns:
                parse_f = ref_field_of_local(b, op_local(t["args"][1]))
            if any(n in READS for n in ns):
                for a in t["args"]:
                    f = ref_field_of_local(b, op_local(a), depth=12) if op_local(a) is not None else None
                    if f == buf:
                        read_f = f
        rep.check(parse_f == buf and read_f == buf, rule, "%s/%s same buffer read and parsed" % (cfg, fl_name), b.loc(b.span),
                  "the buffer handed to the read (%s) and to ResponseBuilder::parse (%s) is not the connection's persistent receive buffer %s"
                  % (read_f, parse_f, buf))
        bad = []
        g = Cfg(b)
        # blocks reached only through the true edge of `<buffer>.is_empty()`: nothing is buffered there, so replacing or
        # clearing the buffer discards nothing (e.g. releasing an oversized allocation between responses)
        empty_only = set()
        for bb, t in b.calls():
            if "bytes::bytes_mut::BytesMut::is_empty" in callee_names(t) and t["args"] and ref_field_of_local(b, op_local(t["args"][0])) == buf \
                    and t.get("target") is not None:
                from ..tables import branch_on_bool
                tb, fb = branch_on_bool(b, t["target"], t["dest"]["l"])
                if tb is not None:
                    region = reach(g.succs, [tb]) - reach(g.succs, [fb], avoid=[tb]) - reach(g.succs, [0], avoid=[tb])
                    # ... and before the next read into the buffer
                    stop = {x for x, t2 in b.calls() if any(n in READS for n in callee_names(t2))}
                    empty_only |= (reach(g.succs, [tb], avoid=stop) & region)
        for bb, t in b.calls():
            ns = callee_names(t)
            if any(n in ("bytes::bytes_mut::BytesMut::clear", "bytes::bytes_mut::BytesMut::truncate", "bytes::bytes_mut::BytesMut::split_to",
                         "bytes::bytes_mut::BytesMut::advance", "bytes::buf::buf_impl::Buf::advance", "bytes::bytes_mut::BytesMut::split",
                         "core::mem::take", "core::mem::replace") for n in ns) and t["args"]:
                if ref_field_of_local(b, op_local(t["args"][0])) == buf and bb not in empty_only:
                    bad.append(ns[0])
        # replacing the buffer wholesale or resetting the byte count to a constant discards what is buffered
        for bb, i, st in b.stmts():
            if st["k"] == "assign" and st["place"]["p"]:
                f = last_named_field(st["place"])
                if f == buf and not any(isinstance(e, dict) and ("idx" in e or "cidx" in e or "sub" in e) for e in st["place"]["p"]):
                    if bb not in empty_only:
                        bad.append("assignment to %s" % buf)
                elif f is not None and f != buf and f in ("total_received",) and st["rv"]["k"] == "use" and op_const(st["rv"]["op"]) is not None:
                    bad.append("%s = constant" % f)
        # the same in closures nested in receive (e.g. an error-path callback capturing the buffer): a shortening call
        # there on anything reached through a capture is a discard of connection state
        for nb in prog.bodies.values():
            if nb is b or nb.root != b.root or nb.raw.get("derived") or not nb.name.startswith(b.name + "::"):
                continue
            for bb, t in nb.calls():
                ns = callee_names(t)
                if any(n in DISCARDING for n in ns) and t["args"] and _from_capture(nb, op_local(t["args"][0])):
                    bad.append("%s in nested closure %s" % (ns[0], nb.name.rsplit("::", 1)[-1]))
        rep.check(not bad, rule, "%s/%s does not discard buffered bytes" % (cfg, fl_name), b.loc(b.span),
                  "receive itself removes bytes from the persistent buffer (%s); only the parser may consume, and only what it parsed" % bad)
        # the response builder is created per call with the connection's field cache; state local: see C04.cancel-safe


def resize_rule(rep, prog, cfg):
    """Lengths given to BytesMut::resize on the receive buffer derive from a fresh len() of that
    buffer (same loop iteration), never from a constant or a stale value."""
    rule = "C02.resize-fresh"
    n_sites = 0
    for b in prog.bodies.values():
        if b.crate != "mpd_protocol" or "connection" not in b.id:
            continue
        fl = None
        g = None
        for bb, t in b.calls():
            if "bytes::bytes_mut::BytesMut::resize" not in callee_names(t):
                continue
            fl = fl or Flow(b)
            g = g or Cfg(b)
            recv = op_local(t["args"][0])
            field = ref_field_of_local(b, recv)
            src_recv, _ = fl.sources([recv], through_call=identity_through, follow_mut=False)
            n_sites += 1
            leaves, _ = fl.sources([op_local(t["args"][1])] if op_local(t["args"][1]) is not None else [], follow_mut=False)
            consts_only = op_const(t["args"][1]) is not None
            len_calls = []
            for leaf in leaves:
                if leaf[0] == "call":
                    t2 = b.blocks[leaf[1]]["t"]
                    if "bytes::bytes_mut::BytesMut::len" in callee_names(t2):
                        f2 = ref_field_of_local(b, op_local(t2["args"][0]))
                        s2, _ = fl.sources([op_local(t2["args"][0])], through_call=identity_through, follow_mut=False)
                        same = (field is not None and f2 == field) or (field is None and (s2 & src_recv & {x for x in s2 if x[0] == "param"}))
                        if same:
                            len_calls.append(leaf[1])
            root = norm(prog.bodies.get(b.root, b).name)
            inst = "%s/%s resize" % (cfg, root)
            if not rep.check(bool(len_calls) and not consts_only, rule, inst + " from len()", b.loc(b.blocks[bb]["ts"]),
                             "the receive buffer is resized to a length that does not derive from its own current len(): "
                             "bytes that were read but not yet parsed can be cut off (or the buffer never grows)"):
                continue
            loops = [l for l in g.loops if bb in l]
            if loops:
                fresh = any(all(lc in l for l in loops) for lc in len_calls)
                rep.check(fresh, rule, inst + " fresh per iteration", b.loc(b.blocks[bb]["ts"]),
                          "the length used to restore the receive buffer is taken outside the loop in which the buffer is resized: "
                          "after the buffer has grown the stale length shrinks it again and received bytes are lost")
    rep.note("resize_sites_" + cfg, n_sites)


def siblings_rule(rep, prog, cfg):
    rule = "C02.siblings"
    lb = conn_bodies(prog)
    for fl_name in ("blocking/receive", "async/receive"):
        if cfg == "K3" and fl_name.startswith("async"):
            continue
        b = lb.get(fl_name)
        if b is None:
            rep.fail(rule, "%s/%s" % (cfg, fl_name), "connection.rs", "receive body not found")
            continue
        names = set()
        for bb, t in b.calls():
            names.update(callee_names(t))
        g = Cfg(b)
        pb = [bb for bb, t in b.calls() if PARSE in callee_names(t)]
        in_loop = pb and any(pb[0] in l for l in g.loops)
        rep.check(PARSE in names and INPROG in names and in_loop and any(n in READS for n in names), rule,
                  "%s/%s parse->read->EOF loop" % (cfg, fl_name), b.loc(b.span),
                  "this receive flavour does not loop 'parse buffered bytes -> read -> classify EOF' with the shared ResponseBuilder")


def read_then_parse_rule(rep, prog, cfg):
    """Between two reads there is always a parse attempt: a 0-byte read can only be taken for the end of
    the stream after everything received so far has been offered to the parser."""
    from ..cfg import sccs
    from .C09 import is_await_cycle, third_party_block
    from .C10 import READS_EXT
    rule = "C02.read-then-parse"
    lb = conn_bodies(prog)
    for name in ("blocking/receive", "async/receive"):
        if cfg == "K3" and name.startswith("async"):
            continue
        b = lb.get(name)
        if b is None:
            continue
        g = Cfg(b)
        pb = {bb for bb, t in b.calls() if PARSE in callee_names(t)}
        rb = {bb for bb, t in b.calls() if any(n in READS for n in callee_names(t))}
        bad = []
        for loop in sccs(g.succs, g.live - pb):
            if is_await_cycle(b, loop) or all(third_party_block(prog, b, x) for x in loop):
                continue
            if loop & rb:
                bad.append(sorted(loop & rb))
        rep.check(not bad and pb and rb, rule, "%s/%s every cycle through the read passes the parser" % (cfg, name), b.loc(b.span),
                  "%s can read again without a parse attempt in between: bytes already received are not looked at before a 0-byte read is classified" % name)
    # read wrappers perform one transport read per call
    for n in sorted(READS):
        if n in READS_EXT:
            continue
        for wb in body_by_name(prog, n):
            for fb in family(prog, wb):
                g = Cfg(fb)
                for bb, t in fb.calls():
                    if any(x in READS_EXT for x in callee_names(t)):
                        in_cycle = any(bb in l for l in g.loops)
                        rep.check(not in_cycle, rule, "%s/%s reads once per call" % (cfg, n.rsplit("::", 1)[-1]), fb.loc(fb.blocks[bb]["ts"]),
                                  "the read helper %s reads from the transport in a loop: the count it reports is that of the last read only, so a 0 after a "
                                  "successful read is mistaken for the end of the stream while received bytes are still unparsed" % n)


SLICE_READS = {"std::io::Read::read", "tokio::io::util::async_read_ext::AsyncReadExt::read"}


def _term_has_call(t, names):
    if not isinstance(t, tuple):
        return False
    if len(t) >= 2 and t[0] == "call" and t[1] in names:
        return True
    return any(_term_has_call(x, names) for x in t if isinstance(x, tuple))


def _valid_slice(b, term, helpers):
    """Is this term the valid prefix of the padded buffer?  (a) the slice the read helper returned: a chain of views and
    `.0` / payload projections ending in the helper call, with no indexing of our own; (b) `buf[..n]` / `buf[0..n]` where n
    is the running count: a local handed to the read helper by `&mut` (the helper keeps it up to date) or a count field of
    the connection — not the size of the last read."""
    from .. import terms
    t = terms.strip_views(terms.simplify(term))
    # (a)
    x = t
    while isinstance(x, tuple) and x and x[0] in ("field", "call"):
        if x[0] == "field":
            x = terms.strip_views(x[1])
            continue
        if x[1] in helpers:
            return True
        if x[1] and x[1].endswith("::branch") and "Try" in x[1] and x[2]:
            x = terms.strip_views(x[2][0])
            continue
        break
    # (b)
    if isinstance(t, tuple) and t and t[0] == "call" and t[1] and t[1].rsplit("::", 1)[-1] == "index" and len(t[2]) == 2:
        rng = t[2][1]
        if isinstance(rng, tuple) and rng[0] == "agg" and rng[1].startswith("core::ops::range::Range") and rng[3]:
            end = rng[3][-1]
            if rng[1].endswith("::Range") and rng[3][0] != ("const", 0):
                return False
            # the running count: a local whose address is passed to the helper, or a field of the connection
            if isinstance(end, tuple) and end[0] == "field" and end[3] and "total" in str(end[3]):
                return True
            if isinstance(end, tuple) and end[0] == "free":
                l = end[1]
                for bb, tcall in b.calls():
                    if any(n in helpers for n in callee_names(tcall)):
                        for a in tcall["args"]:
                            la = op_local(a)
                            for bb2, i2, s2 in b.stmts():
                                if s2["k"] == "assign" and s2["place"]["l"] == la and s2["rv"]["k"] == "ref" and s2["rv"]["mut"] \
                                        and s2["rv"]["place"]["l"] == l and not s2["rv"]["place"]["p"]:
                                    return True
    return False


def counted_slice(b, t, helpers):
    """`buf[..n]` / `buf[0..n]` (an Index::index call `t`) where n is the running count: a named local handed by `&mut` to a read
    helper in this body.  Returns (buffer root local, count local) or None."""
    if not any(n.endswith("Index::index") for n in callee_names(t)) or len(t["args"]) != 2:
        return None
    def root(l):
        for _ in range(6):
            defs = [s2 for _, _, s2 in b.stmts() if s2["k"] == "assign" and s2["place"]["l"] == l and not s2["place"]["p"]]
            if len(defs) != 1:
                return l
            rv = defs[0]["rv"]
            if rv["k"] == "use" and op_local(rv["op"]) is not None and not (op_place(rv["op"]) or {}).get("p"):
                l = op_local(rv["op"])
            elif rv["k"] == "ref" and rv["place"]["p"] in ([], ["*"]):
                l = rv["place"]["l"]
            else:
                return l
        return l
    rl = op_local(t["args"][1])
    if rl is None:
        return None
    rdefs = [s2 for _, _, s2 in b.stmts() if s2["k"] == "assign" and s2["place"]["l"] == rl and s2["rv"]["k"] == "agg"]
    if len(rdefs) != 1 or not str(rdefs[0]["rv"].get("adt_name", "")).startswith("core::ops::range::Range") or not rdefs[0]["rv"]["ops"]:
        return None
    rv = rdefs[0]["rv"]
    if rv["adt_name"].endswith("::Range") and not (op_const(rv["ops"][0]) or {}).get("int") == 0:
        return None
    if rv["adt_name"].endswith(("RangeFrom", "RangeFull")):
        return None
    el = op_local(rv["ops"][-1])
    if el is None:
        return None
    cnt = root(el)
    buf = root(op_local(t["args"][0])) if op_local(t["args"][0]) is not None else None
    for bb, tc in b.calls():
        if any(n in helpers for n in callee_names(tc)):
            passed = set()
            for a in tc["args"]:
                la = op_local(a)
                if la is None:
                    continue
                for _, _, s2 in b.stmts():
                    if s2["k"] == "assign" and s2["place"]["l"] == la and s2["rv"]["k"] == "ref" and s2["rv"]["mut"]:
                        passed.add(root(s2["rv"]["place"]["l"]) if not [e for e in s2["rv"]["place"]["p"] if e != "*"] else None)
            if cnt in passed and b.locals[cnt]["name"]:
                return buf, cnt
    return None


def valid_prefix_rule(rep, prog, cfg, rule="C02.valid-prefix", which=("blocking/connect", "blocking/receive", "async/connect", "async/receive")):
    """A flavour that reads through a slice-based read (`Read::read(&mut buf[n..])`) keeps a zero-padded buffer whose
    length is not the number of bytes received.  There the parser may only be offered the valid prefix: the slice the
    read helper returns, or the buffer after `split_off(<valid count>)`.  Offering the padded buffer makes the parser see
    NUL bytes where 'need more' was due: a reply is then accepted or rejected depending on where a read ended."""
    from .. import terms
    from .C10 import GREETING, READS_EXT
    lb = conn_bodies(prog)
    for name in which:
        b = lb.get(name)
        if b is None or (cfg == "K3" and name.startswith("async")):
            continue
        helpers = {n for n in READS if n not in READS_EXT}
        # is the flavour's read slice-based?
        padded = False
        for bb, t in b.calls():
            ns = callee_names(t)
            if any(n in SLICE_READS for n in ns):
                padded = True
            for n in ns:
                if n in helpers:
                    for hb in body_by_name(prog, n):
                        for fb in family(prog, hb):
                            if any(x in SLICE_READS for bb2, t2 in fb.calls() for x in callee_names(t2)):
                                padded = True
        pcalls = [(bb, t) for bb, t in b.calls() if PARSE in callee_names(t) or GREETING in callee_names(t)]
        if not pcalls:
            rep.fail(rule + ".anchor", "%s/%s" % (cfg, name), b.loc(b.span), "no parser call found in %s" % name)
            continue
        # the helper's side of (a): a slice-reading helper that hands a slice back cuts it at the running count it was given by `&mut`
        # (`&buf[..*total]`), not at the size of the last read (`&buf[..read]` drops everything received by earlier reads)
        for n in sorted({n for _, t in b.calls() for n in callee_names(t) if n in helpers}):
            for hb in body_by_name(prog, n):
                if "[u8]" not in hb.raw.get("sig", "").split("->")[-1]:
                    continue
                if not any(x in SLICE_READS for _, t2 in hb.calls() for x in callee_names(t2)):
                    continue
                idx = [(bb2, t2) for bb2, t2 in hb.calls() if any(x.endswith("ops::index::Index::index") for x in callee_names(t2)) and len(t2["args"]) == 2]
                inst = "%s/%s: %s returns the received bytes" % (cfg, name, n.rsplit("::", 1)[-1])
                if not idx:
                    rep.fail(rule, inst, hb.loc(hb.span), "read helper %s returns a slice but no `buf[..count]` is found in it (idiom unknown: failing closed)" % n)
                    continue
                for bb2, t2 in idx:
                    rng = terms.simplify(terms.term_of_local(hb, op_local(t2["args"][1]), depth=10)) if op_local(t2["args"][1]) is not None else None
                    ok = False
                    if isinstance(rng, tuple) and rng and rng[0] == "agg" and rng[1].startswith("core::ops::range::Range") and rng[3]:
                        end = rng[3][-1]
                        from0 = rng[1].endswith("::RangeTo") or (rng[1].endswith("::Range") and rng[3][0] == ("const", 0))
                        is_count = isinstance(end, tuple) and end[0] == "free" and "&" in hb.local_ty(end[1]) and "mut usize" in hb.local_ty(end[1])
                        ok = from0 and is_count
                    rep.check(ok, rule, inst, hb.loc(hb.blocks[bb2]["ts"]),
                              "%s hands back `buf[%s]`: not the prefix up to the running count it maintains through its `&mut usize` parameter — the caller's parser "
                              "would miss bytes received by earlier reads (or see padding)" % (n.rsplit("::", 1)[-1], terms.show(terms.canon(rng)) if rng else "?"))
        if not padded:
            rep.ok(rule, "%s/%s append-based read: buffer length is the valid length" % (cfg, name), b.loc(b.span))
            continue
        g = Cfg(b)
        for bb, t in pcalls:
            is_builder = PARSE in callee_names(t)
            arg = t["args"][1] if is_builder else t["args"][0]
            al = op_local(arg)
            term = terms.term_of_local(b, al, depth=12) if al is not None else None
            from_helper = term is not None and _valid_slice(b, term, helpers)
            if not from_helper and al is not None:
                # `&buf[..total]` with the running count the helper maintains
                cur = al
                for _ in range(4):
                    cdefs = [tc for _, tc in b.calls() if tc["dest"]["l"] == cur and not tc["dest"]["p"]]
                    sdefs = [s2 for _, _, s2 in b.stmts() if s2["k"] == "assign" and s2["place"]["l"] == cur and not s2["place"]["p"]]
                    if len(cdefs) == 1 and not sdefs:
                        if counted_slice(b, cdefs[0], helpers) is not None:
                            from_helper = True
                        elif any(n.endswith("Deref::deref") for n in callee_names(cdefs[0])) and cdefs[0]["args"]:
                            cur = op_local(cdefs[0]["args"][0])
                            continue
                        break
                    if len(sdefs) == 1 and not cdefs and sdefs[0]["rv"]["k"] in ("ref", "use"):
                        pl = sdefs[0]["rv"]["place"] if sdefs[0]["rv"]["k"] == "ref" else op_place(sdefs[0]["rv"]["op"])
                        if pl is not None and pl["p"] in ([], ["*"]):
                            cur = pl["l"]
                            continue
                    break
            split_ok = False
            if not from_helper and al is not None:
                f = ref_field_of_local(b, al)
                if f is not None:
                    for bb2, t2 in b.calls():
                        if "bytes::bytes_mut::BytesMut::split_off" in callee_names(t2) and ref_field_of_local(b, op_local(t2["args"][0])) == f:
                            at = terms.term_of_local(b, op_local(t2["args"][1])) if op_local(t2["args"][1]) is not None else ("const",)
                            counted = at[0] == "field"
                            between = [bb3 for bb3, t3 in b.calls() if any(n in ("bytes::bytes_mut::BytesMut::unsplit", "bytes::bytes_mut::BytesMut::resize")
                                                                            for n in callee_names(t3)) and g.dom(bb2, bb3) and g.dom(bb3, bb) and bb3 != bb]
                            if counted and g.dom(bb2, bb) and not between:
                                split_ok = True
            rep.check(from_helper or split_ok, rule, "%s/%s parser sees only received bytes" % (cfg, name), b.loc(b.blocks[bb]["ts"]),
                      "%s reads through a slice-based read into a zero-padded buffer, but the parser is given `%s`: neither the slice returned by the read "
                      "helper nor the buffer cut at the received count; it would see padding bytes as input" % (name, terms.show(terms.canon(term)) if term else "?"))



def _full_test_ok(prog, b, loop, helpers, GROW):
    """The growth of the padded buffer is guarded by `buf.len() == <running count>` (or >=/<= forms): True / False, or None when
    no guarded growth is found in the places looked at (the loop itself and the read helpers it calls)."""
    verdict = None
    bodies = []
    for bb in loop:
        t = b.blocks[bb]["t"]
        if t["k"] != "call":
            continue
        ns = callee_names(t)
        if any(x in GROW for x in ns):
            bodies.append(b)
        for n in ns:
            if n in helpers:
                for hb in body_by_name(prog, n):
                    bodies.extend(family(prog, hb))
    seen = set()
    for fb in bodies:
        if fb.id in seen:
            continue
        seen.add(fb.id)
        g = Cfg(fb)
        fl = Flow(fb)
        for gb, gt in fb.calls():
            if not any(x in GROW for x in callee_names(gt)):
                continue
            # the comparison that decides whether this block runs
            for sb in sorted(fb.reachable()):
                a = switch_atom(fb, sb)
                if a is None or a["kind"] != "cmp" or a["op"] not in ("Eq", "Ge", "Le", "Ne", "Lt", "Gt"):
                    continue
                side = a["true"] if a["op"] in ("Eq", "Ge", "Le") else a["false"]
                other = a["false"] if side == a["true"] else a["true"]
                under_side = gb in reach(g.succs, [side]) and gb not in reach(g.succs, [other], avoid=[side])
                under_other = gb in reach(g.succs, [other]) and gb not in reach(g.succs, [side], avoid=[other])
                if not under_side and not under_other:
                    continue
                wrong_polarity = under_other and a["op"] in ("Eq", "Ne")
                if under_other and not wrong_polarity:
                    continue
                kinds = set()
                for op_ in (a["lhs"], a["rhs"]):
                    l = op_local(op_)
                    if l is None:
                        kinds.add("const")
                        continue
                    leaves, vis = fl.sources([l], through_call=None, follow_mut=False)
                    if any(x[0] == "call" and any(n.endswith("::len") for n in callee_names(fb.blocks[x[1]]["t"])) for x in leaves):
                        kinds.add("len")
                    elif any(x[0] == "param" for x in leaves) or any(
                            (lambda nm: nm is not None and not str(nm).isdigit())(last_named_field(s2["rv"]["op"].get("copy") or s2["rv"]["op"].get("move") or {"p": []}))
                            for _, _, s2 in fb.stmts() if s2["k"] == "assign" and s2["place"]["l"] in vis
                            and s2["rv"]["k"] == "use" and (s2["rv"]["op"].get("copy") or s2["rv"]["op"].get("move"))):
                        # the running count: (a deref of) a parameter the callers keep, or a count field of the connection
                        kinds.add("count")
                    else:
                        kinds.add("last-read")
                if wrong_polarity:
                    # grown exactly when the buffer is NOT full (`len != count`): when it is full the next read gets an empty slice
                    if kinds == {"len", "count"}:
                        verdict = False
                    continue
                verdict = (kinds == {"len", "count"}) if verdict is not False else False
    return verdict


def grow_rule(rep, prog, cfg):
    """A slice-based read (`io.read(&mut buf[n..])`) into a full buffer is handed an empty slice and returns 0, which the
    loops classify as end of stream.  Every loop that reads this way must therefore also be able to grow the buffer (in
    the loop itself or inside the read helper it calls): otherwise input longer than the initial buffer is reported as
    an unexpected EOF — acceptance would depend on the length of a line, not on its content."""
    from ..cfg import sccs
    from .C09 import is_await_cycle
    from .C10 import READS_EXT
    rule = "C02.grow"
    # growth = the *length* of the padded buffer increases (the read is handed `&mut buf[n..]`, a slice of the initialised length);
    # `reserve` only raises the capacity and leaves the slice empty
    GROW = ("bytes::bytes_mut::BytesMut::resize", "bytes::bytes_mut::BytesMut::extend_from_slice", "bytes::buf::buf_mut::BufMut::put_bytes",
            "bytes::buf::buf_mut::BufMut::put_slice", "alloc::vec::Vec::resize", "alloc::vec::Vec::extend_from_slice")
    lb = conn_bodies(prog)
    helpers = {n for n in READS if n not in READS_EXT}

    def helper_info(n):
        slice_read = grows = False
        for hb in body_by_name(prog, n):
            for fb in family(prog, hb):
                for bb2, t2 in fb.calls():
                    ns2 = callee_names(t2)
                    slice_read = slice_read or any(x in SLICE_READS for x in ns2)
                    grows = grows or any(x in GROW for x in ns2)
        return slice_read, grows
    for name in ("blocking/connect", "blocking/receive", "async/connect", "async/receive"):
        b = lb.get(name)
        if b is None or (cfg == "K3" and name.startswith("async")):
            continue
        g = Cfg(b)
        for loop in g.loops:
            if is_await_cycle(b, loop):
                continue
            reads = False
            grows = False
            for bb in loop:
                t = b.blocks[bb]["t"]
                if t["k"] != "call":
                    continue
                ns = callee_names(t)
                if any(x in SLICE_READS for x in ns):
                    reads = True
                if any(x in GROW for x in ns):
                    grows = True
                for n in ns:
                    if n in helpers:
                        sr, gr = helper_info(n)
                        reads = reads or sr
                        grows = grows or gr
            if reads:
                full_ok = _full_test_ok(prog, b, loop, helpers, GROW)
                rep.check(full_ok is not False, rule, "%s/%s buffer grown when it is full" % (cfg, name), b.loc(b.blocks[min(loop)]["ts"]),
                          "the buffer is grown under a condition that does not compare its length with the number of bytes received so far (the "
                          "running count): a buffer that fills up through several reads, or behind bytes left over, is not grown and the next read gets an "
                          "empty slice")
                rep.check(grows, rule, "%s/%s read loop can grow the buffer" % (cfg, name), b.loc(b.blocks[min(loop)]["ts"]),
                          "%s reads through a slice of a fixed-length buffer in a loop that never grows the buffer: once the buffer is full the read "
                          "gets an empty slice, returns 0 and the input is reported as an unexpected end of stream" % name)


def never_empty_rule(rep, prog, cfg):
    """Multiplicative growth (`resize(len * k)`) cannot enlarge an empty buffer.  When that is the only way the padded receive
    buffer of the blocking flavour grows, its length must never reach zero: every path in receive() from a call that shortens the
    buffer (split_off / parse on it) to the next read or to a return must give the length back (`resize` to a length that does not
    come out of a multiplication — the length saved before the split, a constant, a `max`).  Otherwise a response that ends exactly at
    the end of the filled buffer leaves length 0, the growth step is a no-op, the read is handed an empty slice and its 0 is taken for
    end of stream."""
    from ..cfg import reach
    from ..common import ref_field_of_local
    from ..flow import Flow
    rule = "C02.grow"
    lb = conn_bodies(prog)
    b = lb.get("blocking/receive")
    if b is None:
        return
    RESIZE = "bytes::bytes_mut::BytesMut::resize"

    def resize_kind(fb, t):
        """'mul' if the new length is a product of the current length, 'floor' otherwise (saved length, constant, max, sum)"""
        fl = Flow(fb)
        l = op_local(t["args"][1])
        if l is None:
            return "floor"
        _, seen = fl.sources([l], through_call=lambda t2, kind: range(len(t2["args"])))
        mul = False
        other = False
        for bb2, i2, s2 in fb.stmts():
            if s2["k"] == "assign" and s2["place"]["l"] in seen and s2["rv"]["k"] == "binop":
                if s2["rv"]["op"].startswith("Mul") or s2["rv"]["op"].startswith("Shl"):
                    mul = True
                elif s2["rv"]["op"].startswith("Add"):
                    other = True
        for bb2, t2 in fb.calls():
            if t2.get("dest") is not None and t2["dest"]["l"] in seen and any(n.endswith("::max") or n.endswith("::saturating_add") or n.endswith("::checked_add")
                                                                               or n.endswith("::next_power_of_two") for n in callee_names(t2)):
                other = True
        return "mul" if mul and not other else "floor"

    growth = []
    bodies = [b] + [hb for n in READS for hb0 in body_by_name(prog, n) for hb in family(prog, hb0)]
    for fb in bodies:
        for bb, t in fb.calls():
            if RESIZE in callee_names(t) and len(t["args"]) >= 2:
                growth.append((fb, bb, resize_kind(fb, t)))
    helper_growth = [k for fb, bb, k in growth if fb is not b]
    own = [(bb, k) for fb, bb, k in growth if fb is b]
    if not helper_growth and not any(k == "mul" for _, k in own):
        return
    if any(k == "floor" for k in helper_growth):
        rep.ok(rule, "%s/blocking buffer never empty (growth has a floor)" % cfg)
        return
    # growth *after* the read (`read; if len == total { resize(len * 2) }`) leaves `len > total` behind every read, and consuming
    # parsed bytes lowers both by the same amount: the slice of the next read is never empty, whatever receive() gives back.  Only
    # growth *before* the read depends on the length being non-zero when it is tested.
    before = False
    for fb, rbb, k in growth:
        if k != "mul":
            continue
        gg = Cfg(fb)
        rd = [bb for bb, t in fb.calls() if any(n in SLICE_READS or (n in READS and fb is b) for n in callee_names(t))]
        tgt = fb.blocks[rbb]["t"].get("target")
        after_resize = reach(gg.succs, [tgt] if tgt is not None else [])
        for r in rd:
            rt = fb.blocks[r]["t"].get("target")
            after_read = reach(gg.succs, [rt] if rt is not None else [])
            if r in after_resize and rbb not in after_read:
                before = True
    if not before:
        rep.ok(rule, "%s/blocking buffer never empty (growth follows the read)" % cfg)
        return
    g = Cfg(b)
    shorten = [(bb, t) for bb, t in b.calls() if any(n in ("bytes::bytes_mut::BytesMut::split_off", "bytes::bytes_mut::BytesMut::split_to", "bytes::buf::buf_impl::Buf::advance",
                                                           "bytes::bytes_mut::BytesMut::truncate", "bytes::bytes_mut::BytesMut::clear") for n in callee_names(t))
               and t["args"] and ref_field_of_local(b, op_local(t["args"][0])) is not None]
    if not shorten:
        return
    gives_back = {bb for bb, k in own if k == "floor"}
    reads = {bb for bb, t in b.calls() if any(n in READS or n in SLICE_READS for n in callee_names(t))}
    bad = []
    for sbb, st in shorten:
        free = reach(g.succs, [st["target"]] if st.get("target") is not None else [], avoid=gives_back)
        hit = sorted(x for x in free if x in reads or b.blocks[x]["t"]["k"] == "return")
        if hit:
            bad.append((sbb, len(hit)))
    rep.check(not bad, rule, "%s/blocking buffer never empty" % cfg, b.loc(b.span),
              "Connection::receive shortens the padded receive buffer and can reach the next read (or return) without giving the length back, while the only growth "
              "step is a multiplication of the current length: a response ending exactly at the end of the filled buffer leaves length 0, `len * k` stays 0, the read "
              "gets an empty slice and its 0 is reported as end of stream (%d shortening site(s) with such a path)" % len(bad))


def run(rep, progs, tier):
    rep.explanation = (
        "Rule-based static analysis (no execution). Decided clauses: (a) only streaming nom combinators "
        "are reachable from the line parser and the greeting parser (a complete-input combinator turns "
        "'need more bytes' into an error or a short match at a read boundary); (b) in "
        "ResponseBuilder::parse the source buffer is shortened only on the Ok arm of the component "
        "parse, by src.len() - remaining.len(), and the Incomplete edge returns without touching it; "
        "(c) the receive buffer and byte count are connection fields written only by connect/receive, "
        "receive reads into and parses from that same field and never discards from it; lengths given to "
        "resize derive from a fresh len() of the buffer taken in the same loop iteration; (e) both "
        "flavours share parser and builder and loop parse->read->EOF. NOT decided: the relational "
        "arithmetic of split_off/unsplit in the blocking connection (needs a numeric domain).")
    rep.rule("C02.streaming", "no nom ::complete:: combinator reachable from ParsedComponent::parse / greeting")
    rep.rule("C02.need-more", "ResponseBuilder::parse returns Ok(None) only through the Incomplete edge or with an empty source buffer")
    rep.rule("C02.consume-on-ok", "source buffer shortened only after a successful component parse, by the exact consumed length; Incomplete leaves it untouched")
    rep.rule("C02.persist", "receive buffer/byte count are connection fields written only by connect/receive; same buffer read and parsed; never cleared by receive")
    rep.rule("C02.resize-fresh", "resize lengths derive from a fresh len() of the same buffer in the same loop iteration")
    rep.rule("C02.read-then-parse", "no cycle through a read avoids the parser; read helpers read once per call")
    rep.rule("C02.valid-prefix", "with a slice-based read (zero-padded buffer) the parser is given the helper's returned slice or the buffer cut at the received count")
    rep.rule("C02.grow", "every loop around a slice-based read can grow the buffer (in the loop or in the read helper)")
    rep.rule("C02.siblings.eof.guard", "both receive flavours classify a 0-byte read by the same two facts (C10's rule, decided here for 'identical results for the same bytes')")
    rep.rule("C02.siblings", "both receive flavours loop parse->read->EOF over the shared builder")
    rep.trusted = ["rustc MIR construction", "mpdfacts exporter", "nom 7 streaming combinator semantics", "bytes::BytesMut semantics"]
    rep.assume("blocking-connection buffer arithmetic (total_received <= recv_buf.len(), content preservation of split_off/unsplit) is not decided")
    for cfg, prog in progs.items():
        READS.bind(prog)
        streaming_rule(rep, prog, cfg)
        consume_rule(rep, prog, cfg)
        persist_rule(rep, prog, cfg)
        builder_scope_rule(rep, prog, cfg)
        count_scope_rule(rep, prog, cfg)
        resize_rule(rep, prog, cfg)
        siblings_rule(rep, prog, cfg)
        read_then_parse_rule(rep, prog, cfg)
        valid_prefix_rule(rep, prog, cfg)
        grow_rule(rep, prog, cfg)
        never_empty_rule(rep, prog, cfg)
        # "the terminal outcome depends only on the bytes" and "both flavours give identical results": how a 0-byte read is classified
        # (clean close only with no frame in progress and no unconsumed bytes) is C10's rule on both receive flavours, decided here
        # for C02's clause — a flavour that tests a different fact (the slice a helper handed back instead of the running count)
        # classifies the same bytes differently
        from . import C10
        with rep.importing("C10.", "C02.siblings.eof."):
            C10.receive_rule(rep, prog, cfg, "mpd_protocol::connection::Connection::receive", "blocking")
            if cfg != "K3":
                C10.receive_rule(rep, prog, cfg, "mpd_protocol::connection::AsyncConnection::receive", "async")
