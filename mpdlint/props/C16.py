"""C16 — status, stats, count, list, playlist and sticker replies decode faithfully (DESIGN §4/C16)."""
from .. import tables
from ..callgraph import norm
from ..common import body_by_name, callee_names, callgraph, impl_methods
from ..facts import callee, const_str, op_const, op_local
from ..inline import inlined, same_impl_helpers
from ..flow import Flow, identity_through
from .C12 import only_err_returns

CONFIGS_QUICK = ["K1", "K2"]
CONFIGS_THOROUGH = ["K1", "K2"]
TECHNIQUE = "static analysis: provenance of struct fields to wire-key literals (MIR), literal<->variant tables, who-may-call"

FRAME_GET = "mpd_protocol::response::frame::Frame::get"
FRAME_TAKE_BINARY = "mpd_protocol::response::frame::Frame::take_binary"
EXTRACTORS = {FRAME_GET: "optional", FRAME_TAKE_BINARY: "optional"}


def find_extractors(prog):
    """Helper functions that look a field up by a key they are given: found by what they do, not by name.
    A workspace fn is an extractor if it calls Frame::get (or another extractor) with a key that derives
    from one of its own parameters; it is `required` if it can build a 'missing field' error."""
    ex = {FRAME_GET: "optional", FRAME_TAKE_BINARY: "optional"}
    changed = True
    rounds = 0
    while changed and rounds < 4:
        changed = False
        rounds += 1
        for b in prog.bodies.values():
            if b.crate != "mpd_client" or b.kind not in ("Fn", "AssocFn") or b.raw.get("derived"):
                continue
            n = norm(b.name)
            if n in ex:
                continue
            fl = None
            hit = False
            missing = False
            for fb in [x for x in prog.bodies.values() if x.root == b.root]:
                for bb, t in fb.calls():
                    ns = callee_names(t)
                    if any(x.endswith("TypedResponseError::missing") for x in ns):
                        missing = True
                    for a in t["args"] + [t["func"]]:
                        c = op_const(a)
                        if c is not None and "fn" in c and norm(c["fn"]["name"]).endswith("TypedResponseError::missing"):
                            missing = True
                    if fb.id == b.id and any(x in ex for x in ns) and len(t["args"]) >= 2:
                        fl = fl or Flow(b)
                        for a in t["args"][1:]:
                            l = op_local(a)
                            if l is None:
                                continue
                            leaves, _ = fl.sources([l], through_call=identity_through, follow_mut=False)
                            if any(x[0] == "param" for x in leaves) and not any(x[0] == "const" for x in leaves):
                                hit = True
            if hit:
                ex[n] = "required" if missing else "optional"
                changed = True
    return ex


DEFAULTING = {"core::option::Option::unwrap_or", "core::option::Option::unwrap_or_default",
              "core::option::Option::unwrap_or_else"}

# Oracle written from the MPD protocol reference (status / stats / count / replay_gain_status /
# albumart / readpicture / addid / update): struct field <- wire keys, presence mode.
EXPECT = {
    "mpd_client::responses::Status": {
        "volume": ({"volume"}, "defaulted"), "state": ({"state"}, "required"),
        "repeat": ({"repeat"}, "required"), "random": ({"random"}, "required"),
        "consume": ({"consume"}, "required"), "single": ({"single"}, "custom"),
        "playlist_version": ({"playlist"}, "defaulted"), "playlist_length": ({"playlistlength"}, "defaulted"),
        "current_song": ({"song", "songid"}, "optional"), "next_song": ({"nextsong", "nextsongid"}, "optional"),
        "elapsed": ({"elapsed"}, "optional"), "duration": ({"duration", "Time"}, "custom"),
        "bitrate": ({"bitrate"}, "optional"), "crossfade": ({"xfade"}, "defaulted"),
        "update_job": ({"updating_db"}, "optional"), "error": ({"error"}, "optional"),
        "partition": ({"partition"}, "optional"),
    },
    "mpd_client::responses::Stats": {
        "artists": ({"artists"}, "required"), "albums": ({"albums"}, "required"), "songs": ({"songs"}, "required"),
        "uptime": ({"uptime"}, "required"), "playtime": ({"playtime"}, "required"),
        "db_playtime": ({"db_playtime"}, "required"), "db_last_update": ({"db_update"}, "required"),
    },
    "mpd_client::responses::count::Count": {
        "songs": ({"songs"}, "required"), "playtime": ({"playtime"}, "required"),
    },
    "mpd_client::responses::ReplayGainStatus": {"mode": ({"replay_gain_mode"}, "required")},
    "mpd_client::responses::AlbumArt": {
        "size": ({"size"}, "required"), "mime": ({"type"}, "optional"), "data": (set(), "optional"),
    },
}
# which function builds which struct (public anchors: the from_frame constructors)
BUILDERS = {
    "mpd_client::responses::Status": "mpd_client::responses::Status::from_frame",
    "mpd_client::responses::Stats": "mpd_client::responses::Stats::from_frame",
    "mpd_client::responses::count::Count": "mpd_client::responses::count::Count::from_frame",
    "mpd_client::responses::ReplayGainStatus": "mpd_client::responses::ReplayGainStatus::from_frame",
    "mpd_client::responses::AlbumArt": "mpd_client::responses::AlbumArt::from_frame",
}
# commands whose response is a single required field
SINGLE_FIELD_COMMANDS = {
    "mpd_client::commands::definitions::Add<'_>": "Id",
    "mpd_client::commands::definitions::Update<'_>": "updating_db",
    "mpd_client::commands::definitions::Rescan<'_>": "updating_db",
}

ENUM_TABLES = {
    # (function, adt suffix): {literal: variant}
    ("<mpd_client::responses::PlayState as mpd_client::responses::FromFieldValue>::from_value", "responses::PlayState"):
        {"play": "Playing", "pause": "Paused", "stop": "Stopped"},
    ("<mpd_client::commands::ReplayGainMode as mpd_client::responses::FromFieldValue>::from_value", "commands::ReplayGainMode"):
        {"off": "Off", "track": "Track", "album": "Album", "auto": "Auto"},
    ("mpd_client::responses::Status::from_frame", "commands::SingleMode"):
        {"0": "Disabled", "1": "Enabled", "oneshot": "Oneshot"},
}


def slice_calls(body, fl, locals_):
    """Calls in the backward slice of `locals_` (through identity-like calls): [(name, [literals], bb)]"""
    leaves, _ = fl.sources(locals_, through_call=identity_through, follow_mut=False)
    out = []
    for leaf in leaves:
        if leaf[0] != "call":
            continue
        t = body.blocks[leaf[1]]["t"]
        names = callee_names(t)
        lits = [tables.arg_str(body, a) for a in t["args"]]
        out.append((names, [x for x in lits if x is not None], leaf[1]))
    return out


def fields_rule(rep, prog, cfg):
    rule = "C16.fields"
    for adt, fn in BUILDERS.items():
        short = adt.rsplit("::", 1)[-1]
        # the function that constructs the struct (found by the construction, not by its name)
        bs = [b for b in prog.bodies.values() if b.crate == "mpd_client" and b.kind in ("Fn", "AssocFn") and not b.raw.get("derived")
              and any(s["k"] == "assign" and s["rv"]["k"] == "agg" and s["rv"]["agg"] == "adt" and norm(s["rv"]["adt_name"]) == adt for _, _, s in b.stmts())]
        # ... from fields looked up by key (a second constructor that folds a list, like the grouped count, is C16.pairs)
        bs = [b for b in bs if any(any(n in EXTRACTORS for n in callee_names(t)) for _, t in b.calls())]
        if len(bs) != 1:
            rep.fail(rule + ".anchor", "%s/%s" % (cfg, short), adt, "expected exactly one function constructing %s from looked-up fields, found %d" % (adt, len(bs)))
            continue
        # parts of the decoding may sit in private helpers next to the decoder (spliced in, A12); the field extractors stay calls
        b = inlined(prog, bs[0], same_impl_helpers(bs[0], module=True, exclude=set(EXTRACTORS)))
        aggs = []
        for bb, i, s in b.stmts():
            if s["k"] == "assign" and s["rv"]["k"] == "agg" and s["rv"]["agg"] == "adt" and norm(s["rv"]["adt_name"]) == adt:
                aggs.append(s)
        if len(aggs) != 1:
            rep.fail(rule + ".anchor", "%s/%s" % (cfg, short), b.loc(b.span),
                     "expected one construction of %s in %s, found %d" % (adt, fn, len(aggs)))
            continue
        s = aggs[0]
        fl = Flow(b)
        exp = EXPECT[adt]
        fields = s["rv"]["fields"]
        rep.check(set(exp) <= set(fields), rule, "%s/%s field set" % (cfg, short), b.loc(s["span"]),
                  "struct %s has fields %s, the reference table lists %s" % (short, sorted(fields), sorted(exp)))
        extra_fields = sorted(set(fields) - set(exp))
        if extra_fields:
            rep.note("fields_not_in_reference_table_%s_%s" % (cfg, short), extra_fields)
        attributed = set()
        custom_expected = set()
        for fname, op in zip(fields, s["rv"]["ops"]):
            if fname not in exp:
                # a field added after the table was written: its keys are its own business
                l = op_local(op)
                for names, lits, bb in (slice_calls(b, fl, [l]) if l is not None else []):
                    if any(n in EXTRACTORS for n in names):
                        attributed.update(lits)
                continue
            ekeys, emode = exp[fname]
            if emode == "custom":
                custom_expected |= ekeys
                continue
            l = op_local(op)
            calls = slice_calls(b, fl, [l]) if l is not None else []
            keys = set()
            mode = None
            defaulted = False
            for names, lits, bb in calls:
                ex = [EXTRACTORS[n] for n in names if n in EXTRACTORS]
                if ex:
                    keys.update(lits)
                    m = ex[0]
                    mode = m if mode in (None, m) else "mixed"
                if any(n in DEFAULTING for n in names):
                    defaulted = True
                    # "absent exactly when the server omitted them": a defaulted field reads as nothing (0 / empty / zero duration)
                    # when the server sent nothing — any other stand-in value is a value the server never sent
                    t2 = b.blocks[bb]["t"]
                    if any(n.endswith("::unwrap_or") for n in names) and len(t2["args"]) == 2:
                        c = op_const(t2["args"][1])
                        zero = c is not None and (c.get("int") == 0 or str(c.get("c", "")).endswith(("::ZERO", "::MIN")) or c.get("c") in ("false", '""'))
                        rep.check(zero, rule, "%s/%s.%s default is the zero value" % (cfg, short, fname), b.loc(b.blocks[bb]["ts"]),
                                  "%s.%s stands in `%s` for a field the server omitted: the decoded value then carries a value the server never sent "
                                  "(the documented default is the type's zero)" % (short, fname, (c or {}).get("c", "a computed value")))
            if defaulted and mode == "optional":
                mode = "defaulted"
            attributed |= keys
            inst = "%s/%s.%s<-%s" % (cfg, short, fname, "+".join(sorted(keys)) or "-")
            rep.check(keys == ekeys and mode == emode, rule, inst, b.loc(s["span"]),
                      "%s.%s is decoded from wire key(s) %s (%s); the MPD reference says %s (%s)"
                      % (short, fname, sorted(keys), mode, sorted(ekeys), emode),
                      detail={"keys": sorted(keys), "mode": mode})
        # fields computed by a match on the looked-up value (control, not data, dependence) are
        # decided by elimination: the keys the function looks up but that flow into no other field
        all_keys = set()
        for bb, t in b.calls():
            if any(n in EXTRACTORS for n in callee_names(t)):
                all_keys.update(x for x in (tables.arg_str(b, a) for a in t["args"]) if x is not None)
        rest = all_keys - attributed
        rep.check(rest == custom_expected, rule, "%s/%s match-computed fields<-%s" % (cfg, short, "+".join(sorted(rest)) or "-"),
                  b.loc(s["span"]),
                  "the remaining looked-up keys %s do not equal the keys of the match-computed fields %s"
                  % (sorted(rest), sorted(custom_expected)), detail={"keys": sorted(rest)})
    # single-field command responses
    for imp, b in impl_methods(prog, "commands::Command", "response"):
        st = imp["info"]["self"]
        if st in SINGLE_FIELD_COMMANDS:
            fl = Flow(b)
            calls = slice_calls(b, fl, [0])
            keys = set()
            for names, lits, bb in calls:
                if any(EXTRACTORS.get(n) == "required" for n in names):
                    keys.update(lits)
            short = st.rsplit("::", 1)[-1]
            rep.check(keys == {SINGLE_FIELD_COMMANDS[st]}, rule, "%s/%s response<-%s" % (cfg, short, "+".join(sorted(keys)) or "-"),
                      b.loc(b.span), "response of %s is read from %s, the MPD reference says %s" % (short, sorted(keys), SINGLE_FIELD_COMMANDS[st]))


def enums_rule(rep, prog, cfg):
    from .C20 import parse_table
    rule = "C16.enums"
    for (fn, adt), exp in ENUM_TABLES.items():
        bs = [b for b in prog.bodies.values() if b.kind in ("Fn", "AssocFn") and norm(b.name) == fn]
        short = adt.rsplit("::", 1)[-1]
        if len(bs) != 1:
            rep.fail(rule + ".anchor", "%s/%s" % (cfg, short), fn, "function %s not found" % fn)
            continue
        b = inlined(prog, bs[0], same_impl_helpers(bs[0], module=True, exclude=set(EXTRACTORS)))
        ptab, bad = parse_table(b, adt)
        if not ptab:
            # the table may have moved (e.g. from Status::from_frame into an `impl FromFieldValue for SingleMode`): it is found by
            # what it constructs — the one function of the crate that compares strings and builds variants of this enum
            cands = [x for x in prog.bodies.values() if x.crate == "mpd_client" and not x.raw.get("derived") and x.kind in ("Fn", "AssocFn", "Closure")
                     and len(parse_table(x, adt)[0]) >= 2]
            if len(cands) == 1:
                b = cands[0]
                ptab, bad = parse_table(b, adt)
        got = {}
        for lit, ci, v in ptab:
            got.setdefault(lit, set()).add(v)
        for lit, v in exp.items():
            rep.check(got.get(lit) == {v}, rule, "%s/%s %s" % (cfg, short, lit), b.loc(b.span),
                      "wire value %r of %s decodes to %s, the MPD reference says %s" % (lit, short, sorted(got.get(lit, [])), v))
        extra = set(got) - set(exp)
        rep.check(not extra, rule, "%s/%s no extra spellings" % (cfg, short), b.loc(b.span),
                  "%s accepts spellings outside the reference: %s" % (short, sorted(extra)))
        tr = tables.transformed_compares(b)
        rep.check(not tr, rule, "%s/%s compares the received value" % (cfg, short), b.loc(b.span),
                  "the wire value of %s is transformed before it is matched (%s): spellings the MPD reference does not define would be accepted"
                  % (short, sorted({x for v in tr.values() for x in v})))
        # unknown spelling -> invalid_value error
        cs = [c for c in tables.str_compares(b) if c["lit"] in exp]
        if cs:
            last_false = [c["false"] for c in cs]
            reach_err = False
            for bb, t in b.calls():
                if "mpd_client::responses::TypedResponseError::invalid_value" in callee_names(t):
                    reach_err = True
            rep.check(reach_err, rule, "%s/%s unknown->error" % (cfg, short), b.loc(b.span),
                      "no invalid_value error for unknown spellings of %s" % short)
    # bool: "0" -> false, "1" -> true
    fn = "<bool as mpd_client::responses::FromFieldValue>::from_value"
    bs = [b for b in prog.bodies.values() if b.kind == "AssocFn" and norm(b.name) == fn]
    if len(bs) != 1:
        rep.fail(rule + ".anchor", cfg + "/bool", fn, "bool::from_value not found")
        return
    b = bs[0]
    got = {}
    for c in tables.str_compares(b):
        region = tables.exclusive(b, c["true"], [c["false"]])
        for bb in region:
            for s in b.blocks[bb]["s"]:
                if s["k"] == "assign" and s["rv"]["k"] == "agg" and s["rv"].get("variant") == "Ok":
                    k = op_const(s["rv"]["ops"][0])
                    if k is not None and k["ty"] == "bool":
                        got[c["lit"]] = bool(k.get("int"))
    rep.check(got == {"0": False, "1": True}, rule, cfg + "/bool", b.loc(b.span),
              "boolean wire values decode as %s, the MPD reference says 0=false 1=true" % got, detail=got)


def pairs_rule(rep, prog, cfg):
    rule = "C16.pairs"
    expect = {
        "mpd_client::responses::parse_channel_messages": {"channel", "message"},
        "mpd_client::responses::playlist::Playlist::parse_frame": {"playlist", "Last-Modified"},
        "mpd_client::responses::count::build_grouped_values": {"songs", "playtime"},
        "mpd_client::responses::sticker::StickerFind::from_frame": {"file", "sticker"},
        "mpd_client::responses::sticker::StickerGet::from_frame": {"sticker"},
        "<mpd_client::commands::definitions::ListChannels as mpd_client::commands::Command>::response": {"channel"},
    }
    for fn, keys in expect.items():
        bs = body_by_name(prog, fn) or [x for x in prog.bodies.values() if norm(x.name) == fn and x.kind in ("Fn", "AssocFn")]
        short = "::".join(fn.replace(" as mpd_client::commands::Command>", "").replace("<", "").rsplit("::", 2)[-2:])
        if len(bs) != 1:
            rep.fail(rule + ".anchor", "%s/%s" % (cfg, short), fn, "function not found")
            continue
        b = bs[0]
        cs = tables.str_compares(b)
        lits = {c["lit"] for c in cs}
        if not keys <= lits:
            # `expect_key(pair, "channel")?`: the comparison sits in a private helper, the name is its argument — spliced in, the
            # argument is a constant of that copy (A12)
            from ..inline import inlined, module_private_helpers
            nb2 = inlined(prog, b, module_private_helpers(b), depth=2)
            if nb2.raw.get("inlined"):
                b = nb2
                cs = tables.str_compares(b)
                lits = {c["lit"] for c in cs}
        rep.check(keys <= lits, rule, "%s/%s keys" % (cfg, short), b.loc(b.span),
                  "%s compares field names with %s, expected to see %s" % (short, sorted(lits), sorted(keys)),
                  detail={"literals": sorted(lits)})
        # a field that is none of the expected names must lead to an error, never be accepted
        for c in cs:
            if c["lit"] not in keys:
                continue
        errs = [1 for bb, t in b.calls() if any(n.startswith("mpd_client::responses::TypedResponseError::") for n in callee_names(t))]
        rep.check(len(errs) >= (2 if len(keys) > 1 and "Sticker" not in fn else 1), rule, "%s/%s rejects" % (cfg, short), b.loc(b.span),
                  "%s has no error path for unexpected/missing fields" % short)


def key_guard_rule(rep, prog, cfg):
    """`unexpected_field(expected = X, found)` is the error for a field that is NOT X: in every decoder the call must lie on the
    unequal edge of the comparison of the key with X.  On the equal edge it rejects exactly the well-formed reply and accepts
    everything else (a contradiction between the test and the error it raises, whatever the surrounding idiom)."""
    rule = "C16.pairs"
    UNEXP = "mpd_client::responses::TypedResponseError::unexpected_field"
    n = 0
    # a guard written once in a private helper that takes the expected name as a parameter (`expect_key(pair, "channel")?`) is
    # judged where the helper is called: the callers are read with it spliced in, the name is then a constant of each copy
    from ..inline import inlined, module_private_helpers
    param_helpers = set()
    for hb in prog.bodies.values():
        if hb.crate == "mpd_client" and not hb.raw.get("derived") and hb.kind in ("Fn", "AssocFn") and not hb.raw.get("pub") and not hb.raw.get("exported"):
            hc = [(bb, t) for bb, t in hb.calls() if UNEXP in callee_names(t) and t["args"]]
            if hc and any(tables.arg_str(hb, t["args"][0]) is None for _, t in hc):
                param_helpers.add(hb.id)
    bodies = []
    for b in prog.bodies.values():
        if b.crate != "mpd_client" or b.raw.get("derived") or b.id in param_helpers:
            continue
        if param_helpers and any((callee(t) or {}).get("def") in param_helpers or (callee(t) or {}).get("inst") in param_helpers for _, t in b.calls()):
            nb2 = inlined(prog, b, lambda cb: cb.id in param_helpers, depth=1)
            b = nb2 if nb2.raw.get("inlined") else b
        bodies.append(b)
    for b in bodies:
        cs = [c for c in tables.str_compares(b) if c["true"] is not None and c["false"] is not None]
        if not cs:
            continue
        calls = [(bb, t) for bb, t in b.calls() if UNEXP in callee_names(t) and t["args"]]
        if not calls:
            continue
        rn = norm(prog.bodies.get(b.root, b).name)
        from ..cfg import Cfg
        g = Cfg(b)
        for c in cs:
            for bb, t in calls:
                exp = tables.arg_str(b, t["args"][0])
                # the error reports the key that was found (not a second literal: those are "X twice" errors of group decoders)
                if exp != c["lit"] or len(t["args"]) < 2 or tables.arg_str(b, t["args"][1]) is not None:
                    continue
                on_eq, on_ne = g.dom(c["true"], bb), g.dom(c["false"], bb)
                if on_eq != on_ne:
                    n += 1
                    rep.check(on_ne, rule, "%s/%s: 'expected %s' raised when the key differs" % (cfg, rn, exp), b.loc(b.blocks[bb]["ts"]),
                              "%s raises unexpected_field(expected %r) on the edge where the key EQUALS %r: the well-formed reply is rejected and any other "
                              "field name is accepted" % (rn, exp, exp))
    rep.floor(rule, cfg + "/key guards with an expected-field error", n, 8)


def carried_state_rule(rep, prog, cfg):
    """Pair / group decoders carry "the first half seen so far" in an Option across loop turns.  State that is set inside the
    loop must also be emptied inside it (Option::take, mem::take / replace, `= None`): if it is only ever copied out, the decoder
    stays in "second half expected" for ever and rejects (or mis-pairs) every reply with more than one pair."""
    rule = "C16.lossless-iter"
    from ..cfg import Cfg

    def some_temp(b, l):
        d = [st for _, _, st in b.stmts() if st["k"] == "assign" and st["place"]["l"] == l and not st["place"]["p"]]
        return len(d) == 1 and d[0]["rv"]["k"] == "agg" and d[0]["rv"].get("variant") == "Some"
    n = 0
    for b in prog.bodies.values():
        if b.crate != "mpd_client" or b.raw.get("derived"):
            continue
        rn = norm(prog.bodies.get(b.root, b).name)
        if not (rn.startswith("mpd_client::responses::") or rn.endswith("as mpd_client::commands::Command>::response")):
            continue
        g = Cfg(b)
        if not g.loops:
            continue
        L = set().union(*g.loops)
        carriers = set()
        for bb, i, st in b.stmts():
            if bb in L and st["k"] == "assign" and not st["place"]["p"] and b.local_name(st["place"]["l"]) and "Option<" in b.local_ty(st["place"]["l"]):
                rv = st["rv"]
                if (rv["k"] == "agg" and rv.get("variant") == "Some") or (rv["k"] == "use" and op_local(rv["op"]) is not None and some_temp(b, op_local(rv["op"]))):
                    carriers.add(st["place"]["l"])
        for l in sorted(carriers):
            emptied = False
            for bb, t in b.calls():
                if bb in L and t["args"] and any(x.rsplit("::", 1)[-1] in ("take", "replace") for x in callee_names(t)):
                    a = op_local(t["args"][0])
                    for _, _, s2 in b.stmts():
                        if s2["k"] == "assign" and s2["place"]["l"] == a and s2["rv"]["k"] == "ref" and s2["rv"]["mut"] and s2["rv"]["place"]["l"] == l \
                                and not s2["rv"]["place"]["p"]:
                            emptied = True
            for bb, i, st in b.stmts():
                if bb in L and st["k"] == "assign" and st["place"]["l"] == l and not st["place"]["p"]:
                    rv = st["rv"]
                    if rv["k"] == "agg" and rv.get("variant") == "None":
                        emptied = True
                if bb in L and st["k"] == "assign" and st["rv"]["k"] == "use" and "move" in st["rv"]["op"] and st["rv"]["op"]["move"]["l"] == l \
                        and not st["rv"]["op"]["move"]["p"]:
                    emptied = True      # moved out whole: the compiler forces a re-initialisation before the next use
            n += 1
            rep.check(emptied, rule, "%s/%s: carried state `%s` is emptied in the loop" % (cfg, rn, b.local_name(l)), b.loc(b.span),
                      "%s sets `%s` to Some(..) inside its decoding loop but never takes it out / resets it there (no Option::take, mem::take, "
                      "`= None`): after the first pair the decoder never returns to the 'first half expected' state" % (rn, b.local_name(l)))
    rep.floor(rule, cfg + "/loop-carried Option state in decoders", n, 1)


def sticker_rule(rep, prog, cfg):
    rule = "C16.sticker"
    bs = body_by_name(prog, "mpd_client::responses::sticker::parse_sticker_value")
    if len(bs) != 1:
        rep.fail(rule + ".anchor", cfg, "sticker.rs", "parse_sticker_value not found")
        return
    cg = callgraph(prog)
    scope = [prog.bodies[x] for x in cg.reachable([bs[0].id])]
    for imp, b in impl_methods(prog, "commands::Command", "response"):
        if "Sticker" in imp["info"]["self"]:
            scope.extend(prog.bodies[x] for x in cg.reachable([b.id]) if prog.bodies[x].crate == "mpd_client")
    first = 0
    for b in {x.id: x for x in scope}.values():
        for bb, t in b.calls():
            for n in callee_names(t):
                m = n.rsplit("::", 1)[-1]
                if m in ("rsplit_once", "rfind", "rsplit", "rsplitn", "rsplit_terminator", "rmatch_indices", "rposition"):
                    rep.fail(rule, "%s/%s:%s" % (cfg, norm(prog.bodies[b.root].name) if b.root in prog.bodies else b.name, m), b.loc(b.blocks[bb]["ts"]),
                             "sticker `name=value` is split with %s: the value may itself contain '=', the split must be at the first one" % m)
                if m in ("split_once", "find", "splitn", "position"):
                    first += 1
    rep.check(first >= 1, rule, cfg + "/first-occurrence splitter present", bs[0].loc(bs[0].span),
              "no first-occurrence splitter (split_once/find/splitn) found in the sticker value parser (idiom unknown: failing closed)")


def errors_rule(rep, prog, cfg):
    """No typed-response / parse error is swallowed on the conversion path."""
    rule = "C16.errors"
    cg = callgraph(prog)
    roots = [b.id for imp, b in impl_methods(prog, "commands::Command", "response")]
    scope = [prog.bodies[x] for x in cg.reachable(roots) if prog.bodies[x].crate == "mpd_client"]
    swallow = {"core::result::Result::ok", "core::result::Result::unwrap_or", "core::result::Result::unwrap_or_default",
               "core::result::Result::unwrap_or_else", "core::result::Result::is_ok", "core::result::Result::is_err",
               "core::result::Result::err", "core::result::Result::map_or", "core::result::Result::map_or_else",
               "core::result::Result::is_ok_and", "core::result::Result::or", "core::result::Result::or_else"}
    n = 0
    for b in scope:
        if b.raw.get("derived"):
            continue
        for bb, t in b.calls():
            names = callee_names(t)
            if any(x in swallow for x in names) and t["args"]:
                l = op_local(t["args"][0])
                ty = b.local_ty(l) if l is not None else ""
                if "Error" in ty:
                    n += 1
                    rep.fail(rule, "%s/%s:%s" % (cfg, norm(prog.bodies[b.root].name), names[0].rsplit("::", 1)[-1]),
                             b.loc(b.blocks[bb]["ts"]),
                             "a conversion error (%s) is discarded with %s: a value outside a field's domain must produce an error, not a default" % (ty, names[0]))
    # truncating float -> integer casts of a parsed number lose the server's value (1.001 s -> 1000 ms)
    for b in scope:
        if b.raw.get("derived"):
            continue
        fl = None
        for bb, i, st in b.stmts():
            if st["k"] == "assign" and st["rv"]["k"] == "cast" and st["rv"]["cast"] == "FloatToInt":
                fl = fl or Flow(b)
                l = op_local(st["rv"]["op"])
                leaves, _ = fl.sources([l] if l is not None else [], through_call=lambda t, k=None: (0,))
                rounded = any(x[0] == "call" and any(n.endswith(("::round", "::round_ties_even")) for n in callee_names(b.blocks[x[1]]["t"]))
                              for x in leaves)
                rep.check(rounded, "C16.no-trunc-cast", "%s/%s" % (cfg, norm(prog.bodies[b.root].name)), b.loc(st["span"]),
                          "a float is cast to an integer without rounding on the response conversion path: the "
                          "cast truncates (and saturates), the decoded value differs from what the server sent")
    # narrowing integer casts (`as u8` of a wider parsed number) wrap instead of reporting a value outside the field's domain
    WIDTH = {"u8": 8, "i8": 8, "u16": 16, "i16": 16, "u32": 32, "i32": 32, "u64": 64, "i64": 64, "usize": 64, "isize": 64, "u128": 128, "i128": 128}
    for b in scope:
        if b.raw.get("derived"):
            continue
        for bb, i, st in b.stmts():
            if st["k"] == "assign" and st["rv"]["k"] == "cast" and st["rv"]["cast"] == "IntToInt":
                l = op_local(st["rv"]["op"])
                src_ty = b.local_ty(l) if l is not None else None
                dst_ty = st["rv"].get("ty")
                if src_ty in WIDTH and dst_ty in WIDTH and (WIDTH[dst_ty] < WIDTH[src_ty] or (WIDTH[dst_ty] == WIDTH[src_ty] and src_ty[0] != dst_ty[0])) \
                        and not prog.exp_chain(b.crate, st.get("span")):
                    rep.fail("C16.no-trunc-cast", "%s/%s %s as %s" % (cfg, norm(prog.bodies[b.root].name), src_ty, dst_ty), b.loc(st["span"]),
                             "a %s is cast to %s on the response conversion path: a value outside the narrower type wraps silently instead of "
                             "producing an error" % (src_ty, dst_ty))
    # positive control: the detector sees Result::ok on a parse result somewhere in the crate
    pc = 0
    for b in prog.bodies.values():
        if b.crate == "mpd_client":
            for bb, t in b.calls():
                if "core::result::Result::ok" in callee_names(t):
                    pc += 1
    rep.check(pc >= 1, rule + ".control", cfg, "mpd_client", "positive control lost: no Result::ok call visible anywhere in mpd_client")
    rep.check(n == 0, rule, cfg + "/no swallowed conversion errors", "mpd_client::responses", "see above", detail={"bodies": len(scope)})


# iterator adapters / consumers that drop, merge or reorder elements of the stream they are applied to
DROPPING_ADAPTERS = ("filter", "filter_map", "skip", "skip_while", "take", "take_while", "step_by", "map_while", "scan",
                     "flatten", "flat_map", "dedup", "dedup_by", "dedup_by_key", "rev", "last", "nth", "nth_back", "max", "min",
                     "max_by", "min_by", "max_by_key", "min_by_key", "find_map", "rfind", "retain", "truncate", "drain", "swap_remove",
                     "sort", "sort_by", "sort_by_key", "sort_unstable", "sort_unstable_by", "sort_unstable_by_key", "reverse", "pop",
                     "remove", "clear", "split_off")
DROPPING_OWNERS = ("core::iter::traits::iterator::Iterator::", "core::iter::traits::double_ended::DoubleEndedIterator::",
                   "alloc::vec::Vec::<T, A>::", "alloc::vec::Vec::<T>::", "core::slice::<impl [T]>::", "alloc::slice::<impl [T]>::",
                   "alloc::collections::vec_deque::VecDeque::<T, A>::")


def lossless_iter_rule(rep, prog, cfg):
    """The decoded value carries exactly the values the server sent: a reply decoder may walk the fields of a frame, but no
    element-dropping / reordering adapter may sit between the frame and the decoded collection.  Scope: the bodies of the
    responses module and of Command::response impls, except the delegating Iterator impls of the public value iterators."""
    rule = "C16.lossless-iter"
    scope = 0
    hits = []
    for b in prog.bodies.values():
        if b.crate != "mpd_client" or b.raw.get("derived"):
            continue
        root = prog.bodies.get(b.root, b)
        rn = norm(root.name)
        in_scope = rn.startswith("mpd_client::responses::") or rn.endswith("as mpd_client::commands::Command>::response")
        if not in_scope:
            continue
        if " as core::iter::traits::" in rn and "::next" not in rn.rsplit(">::", 1)[-1]:
            continue  # count/last/nth/... of ListValuesIter delegate to the inner iterator's method of the same name
        scope += 1
        for bb, t in b.calls():
            for n in callee_names(t)[:1]:
                for o in DROPPING_OWNERS:
                    if n.startswith(o) and n[len(o):].split("::<")[0] in DROPPING_ADAPTERS:
                        hits.append((rn, n[len(o):].split("::<")[0], b.loc(b.blocks[bb]["ts"])))
    for rn, ad, where in hits:
        rep.fail(rule, "%s/%s:%s" % (cfg, rn, ad), where,
                 "the reply decoder %s applies `%s` to the stream of fields/values: elements the server sent would be dropped, merged or reordered before they reach the decoded value" % (rn, ad))
    # logging must not consume: the arguments of a tracing macro are evaluated only when that level is enabled, so a consuming
    # accessor in there (Frame::get removes the field, take_binary the blob, next() an item) changes the decoded value depending
    # on the log level
    CONSUMING = ("mpd_protocol::response::frame::Frame::get", "mpd_protocol::response::frame::Frame::take_binary",
                 "mpd_protocol::response::frame::IntoIter::take_binary", "core::iter::traits::iterator::Iterator::next",
                 "core::option::Option::take", "alloc::vec::Vec::pop", "alloc::vec::Vec::remove", "core::mem::take", "core::mem::replace")
    n_log = 0
    for b in prog.bodies.values():
        if b.crate not in ("mpd_client", "mpd_protocol") or b.raw.get("derived"):
            continue
        raw = prog.crates[b.crate]
        # extents of the logging macro invocations this body contains
        ranges = set()
        spans = [blk.get("ts") for blk in b.blocks] + [st.get("span") for blk in b.blocks for st in blk["s"]]
        for sp in spans:
            if sp and sp[3] >= 0:
                for e in raw["exps"][sp[3]]:
                    if e.get("ext") and ((e.get("crate") == "tracing" and str(e.get("m", "")).startswith("Bang:"))
                                         or str(e.get("m", "")) in ("Bang:debug_assert", "Bang:debug_assert_eq", "Bang:debug_assert_ne", "Bang:log")):
                        ranges.add((e["cs"][0],) + tuple(e["ext"]))
        if not ranges:
            continue
        for bb, t in b.calls():
            sp = b.blocks[bb].get("ts")
            if not sp or sp[3] >= 0:
                continue   # code the macro itself generated
            inside = any(f == sp[0] and (l0, c0) <= (sp[1], sp[2] - 1) <= (l1, c1) for f, l0, c0, l1, c1 in ranges)
            if not inside:
                continue
            n_log += 1
            ns = callee_names(t)
            if any(n in CONSUMING for n in ns):
                root = norm(prog.bodies.get(b.root, b).name)
                rep.fail(rule, "%s/%s consumes inside a log statement: %s" % (cfg, root, ns[0].rsplit("::", 1)[-1]), b.loc(sp),
                         "%s calls %s inside the arguments of a logging macro: the value is consumed only when that log level is enabled, so the "
                         "decoded result depends on the logging configuration" % (root, ns[0]))
    # list decoders: in a loop that takes items from the reply and appends to the result, no turn can go back for the next
    # item without having appended (or left with an error): a `continue` / guard in between drops what the server sent
    from ..cfg import Cfg, sccs
    IT_NEXT = "core::iter::traits::iterator::Iterator::next"
    n_loops = 0
    for b in prog.bodies.values():
        if b.crate != "mpd_client" or b.raw.get("derived"):
            continue
        rn = norm(prog.bodies.get(b.root, b).name)
        if not (rn.startswith("mpd_client::responses::") or rn.endswith("as mpd_client::commands::Command>::response")) or " as core::iter::traits::" in rn:
            continue
        g = Cfg(b)
        for loop in g.loops:
            nexts = {bb for bb in loop if b.blocks[bb]["t"]["k"] == "call" and IT_NEXT in callee_names(b.blocks[bb]["t"])}
            sinks = {bb for bb in loop if b.blocks[bb]["t"]["k"] == "call" and any(
                n.rsplit("::", 1)[-1] in ("push", "insert", "push_back", "extend", "field") and ("Vec" in n or "HashMap" in n or "VecDeque" in n or "SongBuilder" in n)
                for n in callee_names(b.blocks[bb]["t"]))}
            if not nexts or not sinks:
                continue
            # an item may first be kept in a state variable that reaches the result on a later turn (`current_name = Some(value)`,
            # `file = tag`, `songs = Some(..)`): storing into such a variable counts as using the item
            fl = Flow(b)
            item_derived = set()
            for nb in nexts:
                d, _u = fl.forward([b.blocks[nb]["t"]["dest"]["l"]], through_call=lambda t2, ai: True)
                item_derived |= set(d)
            reach_sink = set()
            for sb in sinks:
                for a in b.blocks[sb]["t"]["args"][1:]:
                    if op_local(a) is not None:
                        _l, vis = fl.sources([op_local(a)], through_call=lambda t2, k=None: tuple(range(6)), follow_mut=True)
                        reach_sink |= vis
            state = {l for l in reach_sink if b.locals[l]["name"]}
            def_blocks = {}
            for bb2, i2, st2 in b.stmts():
                if st2["k"] == "assign":
                    def_blocks.setdefault(st2["place"]["l"], set()).add(bb2)
            for bb2, t2 in b.calls():
                def_blocks.setdefault(t2["dest"]["l"], set()).add(bb2)

            def carried(l, bb):
                # a variable that lives across turns is a re-assigned `let mut` (an initialisation plus the store), unlike the
                # pattern variable an item is bound to (one definition)
                return len(def_blocks.get(l, ())) >= 2
            for bb in loop:
                for st in b.blocks[bb]["s"]:
                    if st["k"] == "assign" and st["place"]["l"] in state and st["place"]["l"] in item_derived and carried(st["place"]["l"], bb):
                        sinks.add(bb)
                t = b.blocks[bb]["t"]
                if t["k"] == "call" and t["dest"]["l"] in state and t["dest"]["l"] in item_derived and carried(t["dest"]["l"], bb):
                    sinks.add(bb)
            n_loops += 1
            idle = [c for c in sccs(g.succs, set(loop) - sinks) if c & nexts]
            rep.check(not idle, rule, "%s/%s every item taken is appended" % (cfg, rn), b.loc(b.blocks[min(loop)]["ts"]),
                      "%s can take an item from the reply and go on to the next one without appending it to the result or returning an error" % rn)
    rep.floor(rule, cfg + "/list-decoder loops", n_loops, 5)
    rep.count("calls_inside_log_statements_" + cfg, n_log)
    rep.check(not hits, rule, cfg + "/no dropping adapter in reply decoders", "responses/", "see above", detail={"bodies_in_scope": scope})
    rep.floor(rule, cfg + "/decoder bodies in scope", scope, 60, "responses/")



def run(rep, progs, tier):
    rep.explanation = (
        "Rule-based static analysis (no execution). For every typed reply built from named fields the "
        "relation struct field <- wire key(s) and its presence mode (required / optional / defaulted) "
        "is extracted from MIR by a backward provenance slice from each operand of the struct "
        "construction to the extractor calls and their literal key arguments, and compared with a "
        "table written from the MPD protocol reference; literal->variant tables of PlayState, "
        "ReplayGainMode, SingleMode and bool likewise; pair/group parsers must compare the documented "
        "keys and have error paths; the sticker name=value split must use a first-occurrence splitter; "
        "no conversion error may be swallowed. Numeric conversions themselves are str::parse and are "
        "not decided.")
    rep.rule("C16.fields", "struct field <- wire key table and presence mode equal the MPD reference")
    rep.rule("C16.enums", "literal -> variant tables of PlayState/ReplayGainMode/SingleMode/bool equal the reference; unknown -> error")
    rep.rule("C16.pairs", "channel/message, playlist/Last-Modified, songs/playtime parsers compare the documented keys and reject others")
    rep.rule("C16.sticker", "name=value split at the first '='")
    rep.rule("C16.errors", "no Result<_, error> is discarded on the conversion path")
    rep.rule("C16.lossless-iter", "no element-dropping/reordering iterator or Vec operation in any reply decoder (zero instances expected)")
    rep.rule("C16.no-trunc-cast", "no truncating float->integer cast of a parsed number on the conversion path (zero instances expected)")
    rep.trusted = ["rustc MIR construction", "mpdfacts exporter", "MPD protocol reference tables", "str::parse"]
    for cfg, prog in progs.items():
        global EXTRACTORS
        EXTRACTORS = find_extractors(prog)
        rep.sample({"extractors_found_" + cfg: {k.rsplit("::", 1)[-1]: v for k, v in EXTRACTORS.items()}})
        rep.check(len(EXTRACTORS) >= 4, "C16.fields.floor", cfg + "/field extractors found", "responses/mod.rs",
                  "fewer than 4 field extractors found structurally (%s)" % sorted(EXTRACTORS))
        fields_rule(rep, prog, cfg)
        # list / tagtypes / grouped replies carry tag names: each decodes to the tag of that name (tables via the C20 machinery)
        from .C20 import tag_key_problems
        r = tag_key_problems(prog)
        if r is None:
            rep.fail("C16.enums", cfg + "/tag names decode to the tag of that name", "mpd_client/src/tag.rs", "cannot extract Tag::as_str / Tag::try_from tables (failing closed)")
        else:
            rep.check(not r[0], "C16.enums", cfg + "/tag names decode to the tag of that name", r[0][0][0] if r[0] else "mpd_client/src/tag.rs",
                      "; ".join(m for _, m in r[0]), detail={"named_tags": r[1]})
        # grouped / list decoders tell tags apart: only by name (C20's rule on tag comparators, decided here for C16's clause)
        from .C20 import comparators_rule
        comparators_rule(rep, prog, cfg, rule="C16.enums")
        enums_rule(rep, prog, cfg)
        pairs_rule(rep, prog, cfg)
        key_guard_rule(rep, prog, cfg)
        carried_state_rule(rep, prog, cfg)
        sticker_rule(rep, prog, cfg)
        errors_rule(rep, prog, cfg)
        lossless_iter_rule(rep, prog, cfg)
