"""C14 — song listings decode to the songs the server listed (DESIGN.md §4/C14)."""
from .. import tables
from ..callgraph import norm
from ..cfg import Cfg, reach
from ..common import body_by_name, callee_names, switch_atom
from ..facts import callee, op_const, op_local, op_place
from ..flow import Flow, identity_through
from ..inline import inlined, same_impl_helpers

CONFIGS_QUICK = ["K1", "K2"]
CONFIGS_THOROUGH = ["K1", "K2"]
TECHNIQUE = "static analysis: per-literal abstract interpretation of the song field dispatch (MIR), field provenance, must-flow to push"

B = "mpd_client::responses::song::SongBuilder::"
# MPD protocol reference: attribute lines of a song entry -> meaning
FIELD_TABLE = {
    "duration": "duration", "Time": "duration", "Range": "range", "Format": "format",
    "Last-Modified": "last_modified", "Prio": "priority", "Pos": "position", "Id": "id",
}
ENTRY_STARTS = {"file", "directory", "playlist"}
# attribute -> (parse types wide enough for every protocol value, parse types known to be too narrow)
_NARROW = {"u8", "u16", "i8", "i16", "core::num::nonzero::NonZero<u8>", "core::num::nonzero::NonZero<u16>"}
NUMERIC_RANGE = {
    "Pos": ({"u32", "u64", "usize", "u128"}, _NARROW),
    "Id": ({"u32", "u64", "usize", "u128"}, _NARROW),
    "Prio": ({"u8", "u16", "u32", "u64", "usize"}, {"i8", "bool"}),
}


def self_aliases(body):
    """Locals that hold (a reborrow of) the `self` reference parameter _1."""
    fl = Flow(body)
    derived, _ = fl.forward([1])
    out = {1}
    changed = True
    while changed:
        changed = False
        for bb, i, s in body.stmts():
            if s["k"] == "assign" and not s["place"]["p"] and s["place"]["l"] in derived and s["place"]["l"] not in out:
                rv = s["rv"]
                if rv["k"] == "ref" and rv["place"]["l"] in out and rv["place"]["p"] == ["*"]:
                    out.add(s["place"]["l"])
                    changed = True
                elif rv["k"] == "use" and op_local(rv["op"]) in out and not (op_place(rv["op"]) or {}).get("p"):
                    out.add(s["place"]["l"])
                    changed = True
    return out


def run(rep, progs, tier):
    rep.explanation = (
        "Rule-based static analysis (no execution), tied to the private SongBuilder (fails closed if it "
        "is replaced). The field dispatch of handle_song_field / handle_start_field / is_start_field is "
        "interpreted abstractly over the finite partition of the key string induced by the literals it "
        "is compared with (each literal, and 'anything else'): per cell the builder fields written, the "
        "error/ok outcome and the boolean result are extracted and compared with the table written from "
        "the MPD protocol reference. Further: the legacy Time write is guarded by 'duration unset', the "
        "builder->song field mapping is the identity on meanings, every completed song and the last "
        "one reach Vec::push in every from_frame_multi, tag values are appended under the tag parsed "
        "from the key. Decides these necessary conditions, not the sequence semantics as a whole.")
    for r, t in (("C14.fields", "literal -> builder field table equals the protocol table; everything else is a tag"),
                 ("C14.boundary", "entry-boundary predicate ⊆ keys the start handler accepts; only `file` sets the URL"),
                 ("C14.reset", "an entry boundary replaces the whole builder state (no attribute leaks into the next song)"),
                 ("C14.legacy-time", "write from Time guarded by duration.is_none(); write from duration unguarded"),
                 ("C14.mapping", "each field of the produced SongInQueue/Song derives from the builder field of the same meaning"),
                 ("C14.flush", "every Some from the per-field step and the final finish() reach push; single = finish()"),
                 ("C14.tags", "tag branch pushes the value onto the entry of the tag parsed from the key")):
        rep.rule(r, t)
    rep.trusted = ["rustc MIR construction", "mpdfacts exporter", "MPD protocol reference (song attribute lines)",
                   "iteration order of Frame (C19)"]
    rep.rule("C14.lossless", "no element-dropping / reordering adapter between the frame and the song builder (C16's rule over the reply decoders, decided here for C14's clause)")
    for cfg, prog in progs.items():
        one(rep, prog, cfg)
        # every line of the listing reaches the builder: a filter in front of it (dropping `directory` lines together with "their"
        # Last-Modified, say) decides what belongs to a song by other means than the builder's own state
        from .C16 import lossless_iter_rule
        with rep.importing("C16.lossless-iter", "C14.lossless"):
            lossless_iter_rule(rep, prog, cfg)


def one(rep, prog, cfg):
    hs = body_by_name(prog, B + "handle_song_field")
    st = body_by_name(prog, B + "handle_start_field")
    isf = body_by_name(prog, "mpd_client::responses::song::is_start_field")
    fld = body_by_name(prog, B + "field")
    # the function that turns the builder into a song: found by what it constructs, not by name
    into = [b for b in prog.bodies.values() if b.kind in ("Fn", "AssocFn") and not b.raw.get("derived")
            and norm(b.name).startswith(B) and any(
                s["k"] == "assign" and s["rv"]["k"] == "agg" and s["rv"].get("adt_name", "").endswith("responses::song::SongInQueue")
                for _, _, s in b.stmts())]
    fin = body_by_name(prog, B + "finish")
    for name, l in (("handle_song_field", hs), ("handle_start_field", st), ("field", fld),
                    ("into_song", into), ("finish", fin)):
        if len(l) != 1:
            rep.fail("C14.anchor", "%s/%s" % (cfg, name), "song.rs", "SongBuilder machinery changed: %s not found exactly once" % name)
            return
    # the entry-boundary predicate may be a function of its own or be folded into the handler's match: optional
    isf = isf[0] if len(isf) == 1 else None
    hs, st, fld, into, fin = hs[0], st[0], fld[0], into[0], fin[0]
    INTO = norm(into.name)
    # parts of the per-field handling may be private methods of the builder (e.g. the tag arm, the legacy Time arm, the
    # "take the finished song" step): analyse the handlers with those spliced in (A12); the handlers themselves and the
    # conversion into a song stay calls, the rules below look for them
    keep = {norm(x.name) for x in (hs, st, isf, fld, into, fin) if x is not None}
    hs = inlined(prog, hs, same_impl_helpers(hs, exclude=keep))
    st = inlined(prog, st, same_impl_helpers(st, exclude=keep))
    if hs.raw.get("inlined") or st.raw.get("inlined"):
        rep.sample({"C14 helpers spliced (%s)" % cfg: sorted(set(hs.raw.get("inlined", []) + st.raw.get("inlined", [])))})

    # ---- C14.fields ------------------------------------------------------------------------
    cmps = tables.str_compares(hs)
    # only comparisons of the key parameter (_2)
    fl = Flow(hs)
    key_cmps = []
    for c in cmps:
        l = op_local(c["other"])
        leaves, _ = fl.sources([l] if l is not None else [], through_call=identity_through)
        if ("param", 2) in leaves:
            key_cmps.append(c)
    cases, cells = tables.string_cases(hs, key_cmps, extra_cells=ENTRY_STARTS)
    selfs = self_aliases(hs)
    common = set.intersection(*cases.values())
    got = {}
    for cell in cells:
        ws = {f for f, bb in tables.field_writes(hs, cases[cell] - common, selfs)}
        got[cell] = ws
    for lit, field in FIELD_TABLE.items():
        rep.check(got.get(lit) == {field}, "C14.fields", "%s/%s->%s" % (cfg, lit, "+".join(sorted(got.get(lit, ["?"]))) or "-"),
                  hs.loc(hs.span), "attribute line %r sets builder field(s) %s, the protocol table says %s"
                  % (lit, sorted(got.get(lit, [])), field), detail={"writes": sorted(got.get(lit, []))})
    # what is written is the line's value: in the arm of attribute X the value stored in the builder field derives from the
    # `value` parameter (possibly through its conversion) — a constant (`None`, a default) there drops what the server listed
    fl_hs = Flow(hs)
    for lit, field in FIELD_TABLE.items():
        region = cases.get(lit, set()) - common
        from_value = None
        for bb in sorted(region):
            blk = hs.blocks[bb]
            cands = []
            for stm in blk["s"]:
                if stm["k"] == "assign" and stm["place"]["l"] in selfs and any(isinstance(e, dict) and e.get("n") == field for e in stm["place"]["p"]):
                    rv = stm["rv"]
                    ls = [op_local(rv["op"])] if rv["k"] in ("use", "cast") else [op_local(o) for o in rv.get("ops", [])] if rv["k"] == "agg" else []
                    cands.append([l for l in ls if l is not None])
            t = blk["t"]
            if t["k"] == "call" and t["dest"]["l"] in selfs and any(isinstance(e, dict) and e.get("n") == field for e in t["dest"]["p"]):
                cands.append([op_local(a) for a in t["args"] if op_local(a) is not None])
            for ls in cands:
                leaves, _ = fl_hs.sources(ls, through_call=lambda t2, k=None: tuple(range(4)), follow_mut=False) if ls else (set(), None)
                ok_v = ("param", 3) in leaves
                from_value = ok_v if from_value is None else (from_value and ok_v)
        if from_value is not None:
            rep.check(from_value, "C14.fields", "%s/%s stores the line's value" % (cfg, lit), hs.loc(hs.span),
                      "in the arm of attribute %r the builder field `%s` is assigned something that does not derive from the line's value (a constant "
                      "or default): the attribute the server listed is lost" % (lit, field))
    # the numeric attributes are parsed with a type that holds every value the protocol can send there (MPD: queue positions and
    # song ids are unsigned 32-bit, priorities 0..255): a narrower parse type turns a well-formed listing into an error
    for lit, (wide, narrow) in NUMERIC_RANGE.items():
        tys = set()
        for bb in cases.get(lit, set()) - common:
            t = hs.blocks[bb]["t"]
            if t["k"] == "call" and any(n.endswith("FromFieldValue::from_value") or n.endswith("::parse") for n in callee_names(t)):
                c = callee(t) or {}
                tys.update(a for a in c.get("args", [])[:1])
        bad = sorted(tys & narrow)
        rep.check(not bad and tys, "C14.fields", "%s/%s parsed wide enough" % (cfg, lit), hs.loc(hs.span),
                  "attribute line %r is parsed as %s: %s" % (lit, sorted(tys) or "?", "values the protocol allows there do not fit and the whole listing "
                                                               "fails to decode" if bad else "no conversion found in that arm (idiom unknown: failing closed)"),
                  detail={"parse_types": sorted(tys)})
        for ty in sorted(tys - wide - narrow):
            rep.note("C14 parse types outside the reference (not decided) " + cfg, "%s: %s" % (lit, ty))
    extra = [c for c in cells if c not in FIELD_TABLE and c not in ENTRY_STARTS and c != tables.OTHER]
    rep.check(not extra, "C14.fields", cfg + "/no extra attribute names", hs.loc(hs.span),
              "handle_song_field treats %s as attributes; the protocol table has no such song attribute" % extra)
    # anything else is a tag: the OTHER cell touches `tags` only
    other_region = cases[tables.OTHER] - common
    tag_touch = False
    for bb in other_region:
        t = hs.blocks[bb]["t"]
        if t["k"] == "call" and any(n.startswith("std::collections::hash::map::HashMap") for n in callee_names(t)):
            tag_touch = True
    rep.check(tag_touch and not got[tables.OTHER] - {"tags"}, "C14.fields", cfg + "/other->tags", hs.loc(hs.span),
              "a field that is not an attribute does not go to the tag map (writes %s)" % sorted(got[tables.OTHER]))
    # entry starts leave through the start handler: the cell of an entry-start key calls handle_start_field + into_song
    for k in sorted(ENTRY_STARTS):
        region = cases[k] - cases[tables.OTHER]
        calls = set()
        for bb in cases[k]:
            t = hs.blocks[bb]["t"]
            if t["k"] == "call":
                calls.update(callee_names(t))
        ok = INTO in calls and (B + "handle_start_field") in calls and not got[k]
        # the builder is reset wholesale (mem::take / mem::replace of *self), not field by field
        reset = False
        for bb in cases[k]:
            t = hs.blocks[bb]["t"]
            if t["k"] == "call" and any(n in ("core::mem::take", "core::mem::replace") for n in callee_names(t)):
                a = op_local(t["args"][0])
                for bb2, i2, s2 in hs.stmts():
                    if s2["k"] == "assign" and s2["place"]["l"] == a and s2["rv"]["k"] == "ref" and s2["rv"]["place"]["l"] in selfs \
                            and s2["rv"]["place"]["p"] == ["*"]:
                        reset = True
        rep.check(reset, "C14.reset", "%s/%s resets the whole builder" % (cfg, k), hs.loc(hs.span),
                  "on entry key %r the builder is not replaced wholesale (mem::take/mem::replace of *self): "
                  "an attribute of the finished song can leak into the next one" % k)
        rep.check(ok, "C14.boundary", "%s/%s completes the song" % (cfg, k), hs.loc(hs.span),
                  "entry key %r does not complete the current song and restart (calls: into_song=%s start=%s, direct writes=%s)"
                  % (k, INTO in calls, (B + "handle_start_field") in calls, sorted(got[k])))

    # ---- C14.boundary: is_start_field ⊆ accepted by handle_start_field; only file sets url -----------
    if isf is not None:
        icmps = tables.str_compares(isf, branchless=True)
        icases, icells = tables.string_cases(isf, icmps, extra_cells=ENTRY_STARTS)
        accepts = set()
        for cell in icells:
            vals = set()
            cmp_dest = {c["dest"]: c for c in icmps}
            for bb in icases[cell]:
                for s in isf.blocks[bb]["s"]:
                    if s["k"] == "assign" and s["place"]["l"] == 0 and s["rv"]["k"] == "use":
                        c = op_const(s["rv"]["op"])
                        if c is not None and c["ty"] == "bool":
                            vals.add(bool(c.get("int")))
                        elif op_local(s["rv"]["op"]) in cmp_dest:
                            # `a == "x" || .. || f == "z"`: the last comparison's result is the value
                            cc = cmp_dest[op_local(s["rv"]["op"])]
                            vals.add(cell != tables.OTHER and (cc["lit"].lower() == cell.lower() if cc["ci"] else cc["lit"] == cell))
                t = isf.blocks[bb]["t"]
                if t["k"] == "call" and t["dest"]["l"] == 0 and not t["dest"]["p"] and bb in {c["bb"] for c in icmps}:
                    cc = [c for c in icmps if c["bb"] == bb][0]
                    vals.add(cell != tables.OTHER and (cc["lit"].lower() == cell.lower() if cc["ci"] else cc["lit"] == cell))
            if vals == {True}:
                accepts.add(cell)
            elif vals != {False} and icmps:
                rep.fail("C14.boundary", "%s/is_start_field(%s)" % (cfg, cell if cell != tables.OTHER else "other"), isf.loc(isf.span),
                         "cannot decide the boundary predicate for this key (values %s)" % vals)
        if not icmps:
            # membership form: `[<constants>].contains(&f)` whose result is the function's result
            from .. import terms
            from ..common import const_value_of
            for bb, t in isf.calls():
                if any(n.endswith("<impl [T]>::contains") for n in callee_names(t)) and len(t["args"]) == 2 and t["dest"]["l"] == 0 and not t["dest"]["p"]:
                    arr = terms.strip_views(terms.term_of_local(isf, op_local(t["args"][0]))) if op_local(t["args"][0]) is not None else None
                    while isinstance(arr, tuple) and arr[0] == "unknown":
                        break
                    needle, tr = terms.raw_source(isf, t["args"][1])
                    # the array: an aggregate of string constants (through the unsizing cast)
                    elems = None
                    for bb2, i2, s2 in isf.stmts():
                        if s2["k"] == "assign" and s2["rv"]["k"] == "agg" and s2["rv"].get("agg") == "array":
                            vals = [const_value_of(prog, isf, o) for o in s2["rv"]["ops"]]
                            if all(v is not None for v in vals):
                                elems = set(vals)
                    if elems is not None and needle == ("free", 1) and not tr:
                        accepts = elems
        rep.check(accepts == ENTRY_STARTS, "C14.boundary", cfg + "/is_start_field set", isf.loc(isf.span),
                  "entry boundaries are %s, the protocol says %s" % (sorted(accepts), sorted(ENTRY_STARTS)),
                  detail={"accepts": sorted(accepts)})
    scases, scells = tables.string_cases(st, extra_cells=ENTRY_STARTS)
    sselfs = self_aliases(st)
    scommon = set.intersection(*scases.values())
    err_blocks = {bb for bb, i, s in st.stmts() if s["k"] == "assign" and s["place"]["l"] == 0 and s["rv"]["k"] == "agg"
                  and s["rv"].get("variant") == "Err"}
    for cell in scells:
        errs = bool(scases[cell] & err_blocks)
        ws = {f for f, bb in tables.field_writes(st, scases[cell], sselfs)}
        name = cell if cell != tables.OTHER else "other"
        if cell in ENTRY_STARTS:
            rep.check(not errs, "C14.boundary", "%s/start accepts %s" % (cfg, name), st.loc(st.span),
                      "entry key %r is an entry boundary but the start handler rejects it" % cell)
        if cell == tables.OTHER:
            rep.check(errs, "C14.boundary", cfg + "/start rejects other", st.loc(st.span),
                      "an arbitrary field is accepted as the start of an entry")
        rep.check((ws == {"url"}) == (cell == "file") and ws <= {"url"}, "C14.boundary", "%s/start %s writes %s" % (cfg, name, "+".join(sorted(ws)) or "-"),
                  st.loc(st.span), "start key %r writes %s; only `file` may set the URL" % (name, sorted(ws)))

    # ---- C14.legacy-time ---------------------------------------------------------------------
    g = Cfg(hs)
    for lit, must_guard in (("Time", True), ("duration", False)):
        region = cases[lit] - common
        writes = [bb for f, bb in tables.field_writes(hs, region, selfs) if f == "duration"]
        guarded = []
        for wb in writes:
            ok = False
            for bb in region:
                t = hs.blocks[bb]["t"]
                if t["k"] == "call" and "core::option::Option::is_none" in callee_names(t):
                    # receiver must be self.duration
                    a = op_local(t["args"][0])
                    src_field = None
                    for bb2, i2, s2 in hs.stmts():
                        if s2["k"] == "assign" and s2["place"]["l"] == a and s2["rv"]["k"] == "ref":
                            fs = [e["n"] for e in s2["rv"]["place"]["p"] if isinstance(e, dict) and "f" in e]
                            src_field = fs[0] if fs else None
                    tb, fb = tables.branch_on_bool(hs, t["target"], t["dest"]["l"])
                    if src_field == "duration" and tb is not None and wb in reach(g.succs, [tb]) and wb not in reach(g.succs, [fb], avoid=[tb]):
                        ok = True
            guarded.append(ok)
        if must_guard:
            rep.check(writes and all(guarded), "C14.legacy-time", cfg + "/Time guarded", hs.loc(hs.span),
                      "the legacy Time line overwrites duration without the 'duration unset' test (duration must win in either order)")
        else:
            rep.check(writes and not any(guarded), "C14.legacy-time", cfg + "/duration unguarded", hs.loc(hs.span),
                      "the duration line is ignored when a duration is already set (it must override the legacy Time value)")

    # ---- C14.mapping ---------------------------------------------------------------------------
    mapping_rule(rep, prog, cfg, into)
    # ---- C14.flush -----------------------------------------------------------------------------
    flush_rule(rep, prog, cfg)
    # ---- C14.tags ------------------------------------------------------------------------------
    tags_rule(rep, prog, cfg, hs, cases, common)
    # field(): dispatches on url.is_empty(): empty -> start handler, else song handler
    disp_rule(rep, prog, cfg, fld)


def field_of_self(body, local, depth=8):
    """If `local` is (a wrapper around) a move/copy/take of a field of `self` (_1, by value or by
    reference): the field's name."""
    inner = None
    for _ in range(depth):
        defs = [s for bb, i, s in body.stmts() if s["k"] == "assign" and s["place"]["l"] == local and not s["place"]["p"]]
        cdefs = [t for bb, t in body.calls() if t["dest"]["l"] == local and not t["dest"]["p"]]
        if len(defs) + len(cdefs) != 1:
            return None
        if cdefs:
            t = cdefs[0]
            if any(n in ("core::mem::take", "core::mem::replace", "core::option::Option::take", "core::clone::Clone::clone")
                   for n in callee_names(t)) and t["args"]:
                l2 = op_local(t["args"][0])
                if l2 is None:
                    return None
                local = l2
                continue
            return None
        rv = defs[0]["rv"]
        if rv["k"] in ("use", "ref"):
            p = op_place(rv["op"]) if rv["k"] == "use" else rv["place"]
            if p is None:
                return None
            fs = [e["n"] for e in p["p"] if isinstance(e, dict) and "f" in e and e.get("n") is not None]
            if p["l"] == 1:
                # the innermost named field on the way from self (`self.queue.position` -> position: a group of attributes held
                # in a private sub-struct is still those attributes)
                chain = fs + ([inner] if inner else [])
                return chain[-1] if chain else None
            if any(e != "*" and not (isinstance(e, dict) and "f" in e) for e in p["p"]):
                return None
            if fs and inner is None:
                inner = fs[-1]
            local = p["l"]
        elif rv["k"] == "agg" and len(rv["ops"]) == 1 and rv["agg"] == "adt" and rv["adt_name"].endswith(("SongPosition", "SongId")):
            l2 = op_local(rv["ops"][0])
            if l2 is None:
                return None
            local = l2
        else:
            return None
    return None


def mapping_rule(rep, prog, cfg, into):
    expect = {
        "SongInQueue": {"position": "position", "id": "id", "range": "range", "priority": "priority"},
        "Song": {"url": "url", "duration": "duration", "tags": "tags", "format": "format", "last_modified": "last_modified"},
    }
    seen = set()
    for bb, i, s in into.stmts():
        if s["k"] == "assign" and s["rv"]["k"] == "agg" and s["rv"]["agg"] == "adt":
            short = s["rv"]["adt_name"].rsplit("::", 1)[-1]
            if short in expect and "responses::song" in s["rv"]["adt_name"]:
                seen.add(short)
                for fname, op in zip(s["rv"]["fields"], s["rv"]["ops"]):
                    if fname not in expect[short]:
                        continue
                    l = op_local(op)
                    src = field_of_self(into, l) if l is not None else None
                    rep.check(src == expect[short][fname], "C14.mapping", "%s/%s.%s<-%s" % (cfg, short, fname, src), into.loc(s["span"]),
                              "%s.%s is filled from builder field %r, expected %r" % (short, fname, src, expect[short][fname]))
    rep.check(seen == set(expect), "C14.mapping", cfg + "/constructions", into.loc(into.span),
              "into_song does not construct SongInQueue and Song exactly once (found %s)" % sorted(seen))


def flush_rule(rep, prog, cfg):
    multi = ["mpd_client::responses::song::SongInQueue::from_frame_multi", "mpd_client::responses::song::Song::from_frame_multi"]
    for fn in multi:
        bs = body_by_name(prog, fn)
        short = fn.split("::")[-2] + "::from_frame_multi"
        if len(bs) != 1:
            rep.fail("C14.flush", "%s/%s" % (cfg, short), fn, "function not found")
            continue
        b = bs[0]
        if not any(B + "field" in callee_names(t) for _, t in b.calls()):
            # the driving loop may be shared by both entry points (`collect_songs(frame, |entry| entry.song)`): the helper and the
            # conversion closure it is handed are spliced in (A12); the builder's own methods stay calls
            from ..inline import inlined, module_private_helpers
            base_want = module_private_helpers(b)
            b = inlined(prog, b, lambda cb: base_want(cb) and not norm(cb.name).startswith(B))
        fl = Flow(b)
        pushes = [(bb, t) for bb, t in b.calls() if "alloc::vec::Vec::push" in callee_names(t)]
        from_field = from_finish = False
        for bb, t in pushes:
            l = op_local(t["args"][1])
            leaves, _ = fl.sources([l] if l is not None else [], through_call=identity_through, follow_mut=False)
            for leaf in leaves:
                if leaf[0] == "call":
                    ns = callee_names(b.blocks[leaf[1]]["t"])
                    if B + "field" in ns:
                        from_field = True
                    if B + "finish" in ns:
                        from_finish = True
        rep.check(from_field, "C14.flush", "%s/%s each completed song pushed" % (cfg, short), b.loc(b.span),
                  "no Vec::push receives the song returned by SongBuilder::field — completed songs are dropped")
        rep.check(from_finish, "C14.flush", "%s/%s last song pushed" % (cfg, short), b.loc(b.span),
                  "no Vec::push receives the song returned by SongBuilder::finish — the last song of a listing is dropped")
        # the finish() call is outside the field loop and after it
        g = Cfg(b)
        fin_bbs = [bb for bb, t in b.calls() if B + "finish" in callee_names(t)]
        fld_bbs = [bb for bb, t in b.calls() if B + "field" in callee_names(t)]
        in_loop = [bb for bb in fin_bbs if any(bb in l for l in g.loops)]
        field_in_loop = [bb for bb in fld_bbs if any(bb in l for l in g.loops)]
        rep.check(fin_bbs and not in_loop and fld_bbs and len(field_in_loop) == len(fld_bbs), "C14.flush",
                  "%s/%s shape" % (cfg, short), b.loc(b.span),
                  "expected field() inside the loop over the frame and finish() once after it")
        # every field the frame yields is offered to the builder, and every song the builder completes is pushed: within one turn
        # of the loop there is no way back to the iterator that avoids field() (a `continue` / filter in front of it), and none
        # from a completed song (the Some arm of field()'s result) that avoids the push
        IT_NEXT = "core::iter::traits::iterator::Iterator::next"
        nexts = [bb for bb, t in b.calls() if IT_NEXT in callee_names(t) and any(bb in l for l in g.loops)]
        if len(nexts) == 1 and len(fld_bbs) == 1:
            nb = nexts[0]
            swn = [x for x in tables.discr_switches(b) if x["place"]["l"] == b.blocks[nb]["t"]["dest"]["l"] and not x["place"]["p"]]
            some_t = swn[0]["arms"].get("Some", swn[0]["otherwise"]) if swn else None
            bypass = some_t is not None and nb in reach(g.succs, [some_t], avoid=fld_bbs)
            rep.check(some_t is not None and not bypass, "C14.flush", "%s/%s every field offered to the builder" % (cfg, short), b.loc(b.blocks[nb]["ts"]),
                      "the loop over the frame can move on to the next field without handing the current one to SongBuilder::field (a filter or "
                      "`continue` in front of it): fields the server sent would be missing from the decoded songs")
            # the Some(song) result
            fb_ = fld_bbs[0]
            res_l = b.blocks[fb_]["t"]["dest"]["l"]
            derived, _u = fl.forward([res_l], through_call=lambda t2, ai: identity_through(t2) is not None)
            sws = [x for x in tables.discr_switches(b) if x["place"]["l"] in derived and x["adt"].endswith("option::Option") and "Some" in x["arms"]]
            push_bbs = [bb for bb, t in pushes if any(bb in l for l in g.loops)]
            if sws and push_bbs:
                lost = any(nb in reach(g.succs, [x["arms"]["Some"]], avoid=push_bbs) for x in sws)
                rep.check(not lost, "C14.flush", "%s/%s every completed song pushed" % (cfg, short), b.loc(b.blocks[fb_]["ts"]),
                          "a song completed by SongBuilder::field can be dropped: the next turn of the loop is reachable from the Some arm without passing the push")
        else:
            rep.fail("C14.flush", "%s/%s loop shape" % (cfg, short), b.loc(b.span), "expected one iterator next() and one field() call in the loop over the frame")
        # returned vector is the one pushed to
        leaves, _ = fl.sources([0], through_call=identity_through)
        push_dsts = set()
        for bb, t in pushes:
            src, _ = fl.sources([op_local(t["args"][0])], through_call=identity_through)
            push_dsts |= {x for x in src if x[0] == "call"}
        rep.check(bool(push_dsts & leaves), "C14.flush", "%s/%s returns the accumulated vector" % (cfg, short), b.loc(b.span),
                  "the returned value does not derive from the vector the songs are pushed to")
    bs = body_by_name(prog, "mpd_client::responses::song::SongInQueue::from_frame_single")
    if len(bs) != 1:
        rep.fail("C14.flush", cfg + "/from_frame_single", "song.rs", "function not found")
        return
    b = bs[0]
    fl = Flow(b)
    leaves, _ = fl.sources([0], through_call=identity_through, follow_mut=False)
    ok = any(leaf[0] == "call" and B + "finish" in callee_names(b.blocks[leaf[1]]["t"]) for leaf in leaves)
    rep.check(ok, "C14.flush", cfg + "/from_frame_single = finish()", b.loc(b.span),
              "from_frame_single does not return the song produced by SongBuilder::finish")


def tags_rule(rep, prog, cfg, hs, cases, common):
    fl = Flow(hs)
    region = cases[tables.OTHER] - common
    ok_value = ok_entry = False
    for bb in region:
        t = hs.blocks[bb]["t"]
        if t["k"] != "call":
            continue
        ns = callee_names(t)
        if "alloc::vec::Vec::push" in ns:
            leaves, _ = fl.sources([op_local(t["args"][1])], through_call=identity_through, follow_mut=False)
            if ("param", 3) in leaves and not any(x[0] == "const" for x in leaves):
                ok_value = True
        if "std::collections::hash::map::HashMap::entry" in ns:
            leaves, _ = fl.sources([op_local(t["args"][1])], through_call=lambda t2, k=None: (0,), follow_mut=False)
            tf = any(x[0] == "call" and any(n.endswith("::try_from") for n in callee_names(hs.blocks[x[1]]["t"])) for x in leaves)
            if not tf:
                # the parse may be wrapped in a crate-private constructor of Tag (`Tag::from_field_name(key)` = try_from + unwrap)
                for x in leaves:
                    if x[0] != "call":
                        continue
                    fcx = callee(hs.blocks[x[1]]["t"])
                    wb = prog.bodies.get((fcx or {}).get("inst") or (fcx or {}).get("def")) if fcx else None
                    if wb is not None and wb.crate == "mpd_client" and not wb.raw.get("exported") and "tag::Tag" in wb.local_ty(0) and \
                            any(any(n.endswith("::try_from") for n in callee_names(t2)) for _, t2 in wb.calls()):
                        tf = True
            if tf and ("param", 2) in leaves:
                ok_entry = True
    rep.check(ok_value, "C14.tags", cfg + "/value appended", hs.loc(hs.span),
              "the tag branch does not push the field's value (parameter `value`) onto the tag's list")
    rep.check(ok_entry, "C14.tags", cfg + "/entry keyed by parsed key", hs.loc(hs.span),
              "the tag map entry is not keyed by the tag parsed from the field's key")
    # the key itself: each wire name decodes to the tag of that name and no two named tags share a name (Tag compares and hashes by
    # name), otherwise the values of two different tag lines are merged under one key.  Tables are extracted by the C20 machinery.
    from .C20 import tag_key_problems
    r = tag_key_problems(prog)
    if r is None:
        rep.fail("C14.tags", cfg + "/tag keys are one-to-one with field names", "mpd_client/src/tag.rs", "cannot extract Tag::as_str / Tag::try_from tables (failing closed)")
    else:
        probs, n = r
        rep.check(not probs, "C14.tags", cfg + "/tag keys are one-to-one with field names", probs[0][0] if probs else "mpd_client/src/tag.rs",
                  "; ".join(m for _, m in probs), detail={"named_tags": n})
        rep.floor("C14.tags", cfg + "/named tags in the key tables", n, 31)
    # a tag line whose name has no variant keeps the server's spelling (C20's fallback rule), and every value reaches the song as the
    # line grammar captured it (C03's rule on the component parser)
    from .C20 import fallback_verbatim
    tf = [b for b in prog.bodies.values() if b.kind == "AssocFn" and norm(b.name) == "<mpd_client::tag::Tag as core::convert::TryFrom<&'a str>>::try_from"]
    if len(tf) == 1:
        fallback_verbatim(rep, "C14.tags", cfg + "/unknown tag names", tf[0], "tag::Tag", "Other", 1, prog)
    else:
        rep.fail("C14.tags", cfg + "/unknown tag names", "mpd_client/src/tag.rs", "Tag::try_from not found (failing closed)")
    from .C03 import verbatim_rule
    with rep.importing("C03.grammar", "C14.tags.value"):
        verbatim_rule(rep, prog, cfg)


def disp_rule(rep, prog, cfg, fld):
    """SongBuilder::field: url.is_empty() ? handle_start_field : handle_song_field."""
    ok = False
    for bb, t in fld.calls():
        if any(n.endswith("::is_empty") for n in callee_names(t)):
            tb, fb = tables.branch_on_bool(fld, t["target"], t["dest"]["l"])
            if tb is None:
                continue
            succs = fld.succs()
            tr = reach(succs, [tb], avoid=[fb])
            fr = reach(succs, [fb], avoid=[tb])

            def calls_in(region):
                out = set()
                for b2 in region:
                    t2 = fld.blocks[b2]["t"]
                    if t2["k"] == "call":
                        out.update(callee_names(t2))
                return out
            ct, cf = calls_in(tr - fr), calls_in(fr - tr)
            if B + "handle_start_field" in ct and B + "handle_song_field" in cf and B + "handle_song_field" not in ct \
                    and B + "handle_start_field" not in cf:
                ok = True
    if not ok:
        # `url.len() == 0` / `!= 0` / `> 0` forms of the same test
        from ..common import op_int
        for bb in sorted(fld.reachable()):
            a = switch_atom(fld, bb)
            if a is None or a["kind"] != "cmp":
                continue
            k, x, op = op_int(fld, a["rhs"]), a["lhs"], a["op"]
            if k is None:
                k, x = op_int(fld, a["lhs"]), a["rhs"]
                op = {"Lt": "Gt", "Gt": "Lt", "Le": "Ge", "Ge": "Le"}.get(op, op)
            if k not in (0, 1) or op_local(x) is None:
                continue
            leaves, _ = Flow(fld).sources([op_local(x)], through_call=None, follow_mut=False)
            if not any(lf[0] == "call" and any(n.endswith("::len") for n in callee_names(fld.blocks[lf[1]]["t"])) for lf in leaves):
                continue
            empty_t = ({"Eq": a["true"], "Ne": a["false"], "Gt": a["false"], "Le": a["true"]} if k == 0 else {"Lt": a["true"], "Ge": a["false"]}).get(op)
            if empty_t is None:
                continue
            other_t = a["false"] if empty_t == a["true"] else a["true"]
            succs = fld.succs()
            tr = reach(succs, [empty_t], avoid=[other_t])
            fr = reach(succs, [other_t], avoid=[empty_t])
            ct = {n for b2 in tr - fr if fld.blocks[b2]["t"]["k"] == "call" for n in callee_names(fld.blocks[b2]["t"])}
            cf = {n for b2 in fr - tr if fld.blocks[b2]["t"]["k"] == "call" for n in callee_names(fld.blocks[b2]["t"])}
            if B + "handle_start_field" in ct and B + "handle_song_field" in cf and B + "handle_song_field" not in ct and B + "handle_start_field" not in cf:
                ok = True
    rep.check(ok, "C14.boundary", cfg + "/field dispatch", fld.loc(fld.span),
              "SongBuilder::field does not dispatch 'no song in progress' (empty URL) to the start handler and everything else to the song handler")
