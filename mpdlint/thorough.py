"""Thorough-tier extras: E2 compile-fail witnesses and the checker self-test (DESIGN.md §6).
Still static: witnesses are decided by the compiler's type checker, self-test variants are analysed,
never run."""
import json
import os
import re
import shutil
import subprocess

from . import export

VERIF = export.VERIF


def run_witnesses(rep, prefix):
    """Run the doctest witnesses whose item name starts with `prefix` (e.g. 'C07')."""
    wdir = os.path.join(VERIF, "witness")
    if not os.path.isdir(wdir):
        return
    try:
        shutil.copy(os.path.join(export.REPO, "Cargo.lock"), os.path.join(wdir, "Cargo.lock"))
    except OSError:
        pass
    env = dict(os.environ, CARGO_NET_OFFLINE="true", CARGO_TARGET_DIR=os.path.join(export.CACHE, "witness-target"))
    r = subprocess.run(["cargo", "+nightly", "test", "--doc", "--offline"], cwd=wdir, env=env,
                       stdout=subprocess.PIPE, stderr=subprocess.STDOUT, text=True)
    seen = 0
    for m in re.finditer(r"^test src/lib\.rs - (\w+) \(line (\d+)\)( - compile fail)? \.\.\. (\w+)", r.stdout, re.M):
        name, line, cf, verdict = m.group(1), m.group(2), m.group(3), m.group(4)
        if not name.startswith(prefix):
            continue
        seen += 1
        kind = "compile_fail" if cf else "twin"
        rep.check(verdict == "ok", "E2.witness", "%s/%s" % (name, kind), "witness/src/lib.rs:%s" % line,
                  "type-level witness %s (%s) no longer holds: %s" % (name, kind,
                  "the offending program now compiles (or fails for another reason)" if cf else "the compiling twin no longer compiles (API moved: witness would pass vacuously)"),
                  detail={"verdict": verdict})
    if seen == 0:
        rep.fail("E2.witness", prefix + "/none-ran", "witness/", "no witness doctest for %s ran (build failure?): %s" % (prefix, r.stdout[-400:]))
    rep.rule("E2.witness", "compile_fail doctests with error code + compiling twins (cargo +nightly test --doc)")


def run_selftest(rep, pid):
    """Run the firing / silence / seeded / un-fix corpora that concern property `pid`."""
    r = subprocess.run([os.path.join(VERIF, "selftest", "run.py"), "--property", pid], stdout=subprocess.PIPE, stderr=subprocess.STDOUT, text=True)
    n = 0
    for line in r.stdout.splitlines():
        m = re.match(r"^(\w+)\s+(\S+)\s+(ok|FAIL|APPLY-FAILED)", line)
        if not m:
            continue
        kind, vid, verdict = m.groups()
        n += 1
        if verdict == "APPLY-FAILED":
            rep.note("selftest_skipped_" + vid, "variant does not apply to this tree")
            continue
        rep.check(verdict == "ok", "selftest." + kind, vid, "selftest/", "checker self-test failed for variant %s: %s" % (vid, line.strip()),
                  detail={"line": line.strip()})
    rep.rule("selftest.mutants", "each seeded one-line break is reported by the expected rule")
    rep.rule("selftest.benign", "behaviour-preserving edits raise no alarm")
    rep.rule("selftest.seeded", "sub-agent changes kept under /verif/seeded are reported (or documented as missed)")
    rep.note("selftest_variants", n)
