"""A12 — MIR-level inlining of workspace helper functions (analysis support).

Rules that read the shape of one function (a state-machine transition, a receive loop) would go blind, or raise a false
alarm, when part of that function is moved into a private helper.  `inlined(prog, body, want)` returns a synthetic Body in
which every call to a workspace function accepted by `want(callee_body)` is replaced by a renamed copy of the callee's
blocks: parameters become assignments from the call's operands, `return` becomes an assignment of the callee's `_0` to the
call's destination followed by a jump to the call's target.  Nothing is executed; the result is a CFG over the same kind
of facts every other analysis consumes.  Recursion is cut by a depth bound and a per-chain visited set.
"""
import copy

from .facts import Body, callee
from .callgraph import norm


def _targets(prog, t):
    f = callee(t)
    if f is None:
        return None
    inst = f.get("inst")
    if inst and inst in prog.bodies:
        return prog.bodies[inst]
    d = f["def"]
    if d in prog.bodies and not (f.get("trait") and not inst):
        return prog.bodies[d]
    return None


def _remap(x, lo, bo):
    """deep copy of a fact fragment with locals shifted by lo (block ids are handled by the caller)"""
    if isinstance(x, dict):
        if "l" in x and "p" in x and isinstance(x["l"], int):
            return {"l": x["l"] + lo, "p": [_remap_proj(e, lo) for e in x["p"]], **{k: copy.deepcopy(v) for k, v in x.items() if k not in ("l", "p")}}
        return {k: _remap(v, lo, bo) for k, v in x.items()}
    if isinstance(x, list):
        return [_remap(v, lo, bo) for v in x]
    return x


def _remap_proj(e, lo):
    if isinstance(e, dict) and "idx" in e and isinstance(e["idx"], int):
        d = dict(e)
        d["idx"] = e["idx"] + lo
        return d
    return copy.deepcopy(e)


def _remap_term(t, lo, bo):
    t2 = _remap(t, lo, bo)
    for k in ("target", "unwind", "otherwise", "drop"):
        if isinstance(t2.get(k), int):
            t2[k] = t2[k] + bo
    if "targets" in t2:
        t2["targets"] = [[v, b + bo] for v, b in t2["targets"]]
    return t2


def inlined(prog, body, want, depth=3, _chain=()):
    """Synthetic Body: `body` with accepted workspace callees spliced in (up to `depth` levels)."""
    raw = dict(body.raw)
    mir = {"argc": body.mir["argc"], "locals": list(copy.deepcopy(body.locals)), "blocks": copy.deepcopy(body.blocks)}
    for k, v in body.mir.items():
        if k not in mir:
            mir[k] = v
    raw["mir"] = mir
    raw["inlined"] = []
    blocks = mir["blocks"]
    chain = _chain + (body.id,)
    work = [(bb, depth, chain) for bb in range(len(blocks))]
    while work:
        bb, d, ch = work.pop()
        t = blocks[bb]["t"]
        if t["k"] != "call" or d <= 0:
            continue
        cb = _targets(prog, t)
        if cb is None or cb.id in ch or cb.raw.get("coroutine") or not want(cb):
            continue
        lo, bo = len(mir["locals"]), len(blocks)
        for l in cb.locals:
            l2 = dict(l)
            l2["inlined_from"] = cb.name
            mir["locals"].append(l2)
        nb = len(cb.blocks)
        cont = bo + nb          # continuation: dest = callee _0; goto target
        prelude = bo + nb + 1   # parameter assignments; goto callee entry
        for i, blk in enumerate(cb.blocks):
            b2 = {"s": [_remap(s, lo, bo) for s in blk["s"]], "t": _remap_term(blk["t"], lo, bo), "cleanup": blk.get("cleanup", False),
                  "ts": blk.get("ts"), "inlined_from": cb.name}
            for k, v in blk.items():
                if k not in b2:
                    b2[k] = copy.deepcopy(v)
            tk = b2["t"]["k"]
            if tk == "return":
                b2["t"] = {"k": "goto", "target": cont}
            elif tk == "resume" and t.get("unwind") is not None:
                b2["t"] = {"k": "goto", "target": t["unwind"]}
            blocks.append(b2)
        span = blocks[bb].get("ts")
        cont_blk = {"s": [], "t": {"k": "goto", "target": t["target"]} if t.get("target") is not None else {"k": "unreachable"},
                    "cleanup": False, "ts": span, "inlined_from": cb.name}
        if t.get("dest") is not None:
            cont_blk["s"].append({"k": "assign", "place": copy.deepcopy(t["dest"]), "rv": {"k": "use", "op": {"move": {"l": lo, "p": []}}}, "span": span})
        blocks.append(cont_blk)
        pre = {"s": [], "t": {"k": "goto", "target": bo}, "cleanup": False, "ts": span, "inlined_from": cb.name}
        for i, a in enumerate(t["args"]):
            pre["s"].append({"k": "assign", "place": {"l": lo + 1 + i, "p": []}, "rv": {"k": "use", "op": copy.deepcopy(a)}, "span": span})
        blocks.append(pre)
        blocks[bb]["t"] = {"k": "goto", "target": prelude, "inlined_call": norm(cb.name)}
        raw["inlined"].append(norm(cb.name))
        for i in range(nb):
            work.append((bo + i, d - 1, ch + (cb.id,)))
    if raw["inlined"]:
        _fold_constant_switches(mir)
    nbody = Body(prog, raw, body.crate)
    nbody.children = body.children
    return nbody


def _fold_constant_switches(mir):
    """Arguments that are literals at the call (`helper(true)`) become single-definition constants of the spliced copy:
    a switch on such a local (directly or through copies) has one feasible successor."""
    defs = {}
    borrowed = set()
    for blk in mir["blocks"]:
        for s in blk["s"]:
            if s["k"] == "assign":
                defs.setdefault(s["place"]["l"], []).append(s if not s["place"]["p"] else None)
                if s["rv"]["k"] in ("ref", "rawptr") and s["rv"].get("mut", True):
                    borrowed.add(s["rv"]["place"]["l"])
            elif s["k"] == "setdiscr":
                defs.setdefault(s["place"]["l"], []).append(None)
        t = blk["t"]
        if t["k"] == "call" and t.get("dest") is not None:
            defs.setdefault(t["dest"]["l"], []).append(None)
        if t["k"] == "yield" and t.get("resume_arg") is not None:
            defs.setdefault(t["resume_arg"]["l"], []).append(None)

    def value(l, depth=6):
        if depth <= 0 or l in borrowed or l <= mir["argc"]:
            return None
        ds = defs.get(l, [])
        if len(ds) != 1 or ds[0] is None:
            return None
        rv = ds[0]["rv"]
        if rv["k"] != "use":
            return None
        op = rv["op"]
        if "const" in op:
            return op["const"].get("int")
        pl = op.get("copy") or op.get("move")
        if pl is None or pl["p"]:
            return None
        return value(pl["l"], depth - 1)

    for blk in mir["blocks"]:
        t = blk["t"]
        if t["k"] != "switch":
            continue
        d = t["discr"]
        pl = d.get("copy") or d.get("move")
        v = d["const"].get("int") if "const" in d else (value(pl["l"]) if pl is not None and not pl["p"] else None)
        if v is None:
            continue
        hit = [b for x, b in t["targets"] if x == v]
        blk["t"] = {"k": "goto", "target": hit[0] if hit else t["otherwise"], "folded_switch": True}


def same_impl_helpers(body):
    """predicate: callee is a non-derived method/function defined next to `body` (same parent impl/module), i.e. a private
    helper the function was split into"""
    parent = body.raw.get("parent") or body.name.rsplit("::", 1)[0]
    pname = norm(body.name).rsplit("::", 1)[0]

    def want(cb):
        if cb.raw.get("derived") or cb.crate != body.crate or cb.kind not in ("Fn", "AssocFn"):
            return False
        return norm(cb.name).rsplit("::", 1)[0] == pname
    return want
