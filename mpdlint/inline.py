"""A12 — MIR-level inlining of workspace helper functions (analysis support).

Rules that read the shape of one function (a state-machine transition, a receive loop) would go blind, or raise a false
alarm, when part of that function is moved into a private helper.  `inlined(prog, body, want)` returns a synthetic Body in
which every call to a workspace function accepted by `want(callee_body)` is replaced by a renamed copy of the callee's
blocks: parameters become assignments from the call's operands, `return` becomes an assignment of the callee's `_0` to the
call's destination followed by a jump to the call's target.  Nothing is executed; the result is a CFG over the same kind
of facts every other analysis consumes.  Recursion is cut by a depth bound and a per-chain visited set.
"""
import copy

from .facts import Body, callee
from .callgraph import norm


def _targets(prog, t):
    f = callee(t)
    if f is None:
        return None
    inst = f.get("inst")
    if inst and inst in prog.bodies:
        return prog.bodies[inst]
    d = f["def"]
    if d in prog.bodies and not (f.get("trait") and not inst):
        return prog.bodies[d]
    return None


def _remap(x, lo, bo, up=None):
    """deep copy of a fact fragment with locals shifted by lo (block ids are handled by the caller); `up` maps the upvar
    fields of a spliced coroutine's environment `_1.k` to fresh locals (scalar replacement of the environment)"""
    if isinstance(x, dict):
        if "l" in x and "p" in x and isinstance(x["l"], int):
            proj = x["p"]
            if up is not None and x["l"] == 1 and proj and isinstance(proj[0], dict) and "f" in proj[0] and proj[0]["f"] in up:
                return {"l": up[proj[0]["f"]], "p": [_remap_proj(e, lo) for e in proj[1:]], **{k: copy.deepcopy(v) for k, v in x.items() if k not in ("l", "p")}}
            return {"l": x["l"] + lo, "p": [_remap_proj(e, lo) for e in proj], **{k: copy.deepcopy(v) for k, v in x.items() if k not in ("l", "p")}}
        return {k: _remap(v, lo, bo, up) for k, v in x.items()}
    if isinstance(x, list):
        return [_remap(v, lo, bo, up) for v in x]
    return x


def _remap_proj(e, lo):
    if isinstance(e, dict) and "idx" in e and isinstance(e["idx"], int):
        d = dict(e)
        d["idx"] = e["idx"] + lo
        return d
    return copy.deepcopy(e)


def _remap_term(t, lo, bo, up=None):
    t2 = _remap(t, lo, bo, up)
    for k in ("target", "unwind", "otherwise", "drop"):
        if isinstance(t2.get(k), int):
            t2[k] = t2[k] + bo
    if "targets" in t2:
        t2["targets"] = [[v, b + bo] for v, b in t2["targets"]]
    return t2


AWAIT_PLUMBING = ("core::future::into_future::IntoFuture::into_future", "core::pin::Pin::new_unchecked", "core::pin::Pin::<Ptr>::new_unchecked")


def _ctor_call(prog, blocks, local, H, limit=12):
    """the call that created the future polled through `local`: walk unique definitions back through the await plumbing to a
    call of a workspace `async fn` whose body only builds the coroutine H from its parameters.
    Returns (block index, [call-argument index for each upvar]) or None."""
    for _ in range(limit):
        defs = []
        for bi, blk in enumerate(blocks):
            for s in blk["s"]:
                if s["k"] == "assign" and s["place"]["l"] == local and not s["place"]["p"]:
                    defs.append(("s", bi, s))
            t = blk["t"]
            if t["k"] == "call" and t.get("dest") is not None and t["dest"]["l"] == local and not t["dest"]["p"]:
                defs.append(("c", bi, t))
        if len(defs) != 1:
            return None
        kind, bi, d = defs[0]
        if kind == "s":
            rv = d["rv"]
            if rv["k"] == "ref":
                if [e for e in rv["place"]["p"] if e != "*"]:
                    return None
                local = rv["place"]["l"]
                continue
            if rv["k"] == "use":
                pl = rv["op"].get("copy") or rv["op"].get("move")
                if pl is None or pl["p"]:
                    return None
                local = pl["l"]
                continue
            return None
        f = callee(d)
        if f is None:
            return None
        if norm(f["name"]) in AWAIT_PLUMBING:
            pl = d["args"][0].get("copy") or d["args"][0].get("move")
            if pl is None or pl["p"]:
                return None
            local = pl["l"]
            continue
        X = _targets(prog, d)
        if X is None or X.raw.get("coroutine"):
            return None
        aggs = [s for blk in X.blocks for s in blk["s"] if s["k"] == "assign" and s["rv"]["k"] == "agg" and s["rv"].get("agg") == "coroutine"]
        if len(aggs) != 1 or aggs[0]["rv"].get("def") != H.id or aggs[0]["place"]["l"] != 0:
            return None
        amap = []
        for o in aggs[0]["rv"]["ops"]:
            pl = o.get("copy") or o.get("move")
            if pl is None or pl["p"] or not (1 <= pl["l"] <= X.mir["argc"]):
                return None
            amap.append(pl["l"] - 1)
        return bi, amap
    return None


CLOSURE_CALLS = ("core::ops::function::FnOnce::call_once", "core::ops::function::FnMut::call_mut", "core::ops::function::Fn::call")


def _closure_def(blocks, op, limit=10):
    """def id of the closure an operand holds: walk unique definitions (moves, references) back to the closure aggregate"""
    pl = op.get("copy") or op.get("move")
    if pl is None or [e for e in pl["p"] if e != "*"]:
        return None
    local = pl["l"]
    for _ in range(limit):
        defs = []
        for blk in blocks:
            for st in blk["s"]:
                if st["k"] == "assign" and st["place"]["l"] == local and not st["place"]["p"]:
                    defs.append(st)
            t = blk["t"]
            if t["k"] == "call" and t.get("dest") is not None and t["dest"]["l"] == local and not t["dest"]["p"]:
                return None
        if len(defs) != 1:
            return None
        rv = defs[0]["rv"]
        if rv["k"] == "agg" and rv.get("agg") == "closure":
            return rv.get("def")
        if rv["k"] == "ref" and not [e for e in rv["place"]["p"] if e != "*"]:
            local = rv["place"]["l"]
            continue
        if rv["k"] == "use":
            p2 = rv["op"].get("copy") or rv["op"].get("move")
            if p2 is None or [e for e in p2["p"] if e != "*"]:
                return None
            local = p2["l"]
            continue
        return None
    return None


def inlined(prog, body, want, depth=3, _chain=()):
    """Synthetic Body: `body` with accepted workspace callees spliced in (up to `depth` levels)."""
    raw = dict(body.raw)
    mir = {"argc": body.mir["argc"], "locals": list(copy.deepcopy(body.locals)), "blocks": copy.deepcopy(body.blocks)}
    for k, v in body.mir.items():
        if k not in mir:
            mir[k] = v
    raw["mir"] = mir
    raw["inlined"] = []
    blocks = mir["blocks"]
    chain = _chain + (body.id,)
    work = [(bb, depth, chain) for bb in range(len(blocks))]
    while work:
        bb, d, ch = work.pop()
        t = blocks[bb]["t"]
        if t["k"] != "call" or d <= 0:
            continue
        cb = _targets(prog, t)
        clos_call = False
        fcl = callee(t)
        if fcl is not None and norm(fcl["name"]) in CLOSURE_CALLS and len(t["args"]) == 2:
            # `update(&mut frame)` on a closure parameter of a spliced helper (`fn with_frame(&mut self, update: impl FnOnce(..))`):
            # the closure value is known where the helper was called — follow the operand back to the closure aggregate and
            # splice the closure's body (its environment is the operand, its parameters are the fields of the argument tuple)
            cdef = _closure_def(blocks, t["args"][0])
            cand = prog.bodies.get(cdef) if cdef else None
            # only a closure that was *handed to* a spliced helper: the call sits in spliced code and the closure was written
            # somewhere else (in the caller) — closures a function builds and calls itself (macro expansions) are left alone
            here = blocks[bb].get("inlined_from")
            if cand is not None and cand.id not in ch and here is not None \
                    and prog.bodies.get(cand.root, cand).id in {prog.bodies.get(prog.bodies[c].root, prog.bodies[c]).id for c in ch if c in prog.bodies} \
                    and not norm(cand.name).startswith(norm(here) + "::"):
                cb, clos_call = cand, True
        if cb is None or cb.id in ch or not (clos_call or want(cb)):
            continue
        up = None
        if cb.raw.get("coroutine"):
            # `helper(args).await`: the poll of the helper's coroutine is replaced by the coroutine's body; its upvars become
            # fresh locals assigned from the arguments where the helper was called, its result is wrapped in Poll::Ready
            f = callee(t)
            if f is None or not norm(f["name"]).endswith("future::Future::poll") or len(t["args"]) != 2:
                continue
            pl = t["args"][0].get("copy") or t["args"][0].get("move")
            found = _ctor_call(prog, blocks, pl["l"], cb) if pl is not None and not pl["p"] else None
            if found is None:
                continue
            ctor_bb, amap = found
            cargs = blocks[ctor_bb]["t"]["args"]
            up = {}
            for k, ai in enumerate(amap):
                nl = len(mir["locals"])
                mir["locals"].append({"ty": "?upvar", "name": None, "inlined_from": cb.name, "upvar": k})
                up[k] = nl
                blocks[ctor_bb]["s"].append({"k": "assign", "place": {"l": nl, "p": []}, "rv": {"k": "use", "op": copy.deepcopy(cargs[ai])},
                                             "span": blocks[ctor_bb].get("ts")})
        lo, bo = len(mir["locals"]), len(blocks)
        for l in cb.locals:
            l2 = dict(l)
            l2["inlined_from"] = cb.name
            mir["locals"].append(l2)
        nb = len(cb.blocks)
        cont = bo + nb          # continuation: dest = callee _0; goto target
        prelude = bo + nb + 1   # parameter assignments; goto callee entry
        for i, blk in enumerate(cb.blocks):
            b2 = {"s": [_remap(s, lo, bo, up) for s in blk["s"]], "t": _remap_term(blk["t"], lo, bo, up), "cleanup": blk.get("cleanup", False),
                  "ts": blk.get("ts"), "inlined_from": cb.name}
            for k, v in blk.items():
                if k not in b2:
                    b2[k] = copy.deepcopy(v)
            tk = b2["t"]["k"]
            if tk == "return":
                b2["t"] = {"k": "goto", "target": cont}
            elif tk == "resume" and t.get("unwind") is not None:
                b2["t"] = {"k": "goto", "target": t["unwind"]}
            blocks.append(b2)
        span = blocks[bb].get("ts")
        cont_blk = {"s": [], "t": {"k": "goto", "target": t["target"]} if t.get("target") is not None else {"k": "unreachable"},
                    "cleanup": False, "ts": span, "inlined_from": cb.name}
        if t.get("dest") is not None and up is None:
            cont_blk["s"].append({"k": "assign", "place": copy.deepcopy(t["dest"]), "rv": {"k": "use", "op": {"move": {"l": lo, "p": []}}}, "span": span})
        elif t.get("dest") is not None:
            cont_blk["s"].append({"k": "assign", "place": copy.deepcopy(t["dest"]), "span": span,
                                  "rv": {"k": "agg", "agg": "adt", "adt": "core::task::poll::Poll", "adt_name": "core::task::poll::Poll", "args": [],
                                         "variant": "Ready", "vi": 0, "fields": ["0"], "ops": [{"move": {"l": lo, "p": []}}]}})
        blocks.append(cont_blk)
        pre = {"s": [], "t": {"k": "goto", "target": bo}, "cleanup": False, "ts": span, "inlined_from": cb.name}
        if up is not None:
            # resume argument of the spliced coroutine = the context the caller polls with
            pre["s"].append({"k": "assign", "place": {"l": lo + 2, "p": []}, "rv": {"k": "use", "op": copy.deepcopy(t["args"][1])}, "span": span})
        if clos_call:
            pre["s"].append({"k": "assign", "place": {"l": lo + 1, "p": []}, "rv": {"k": "use", "op": copy.deepcopy(t["args"][0])}, "span": span})
            tp = t["args"][1].get("copy") or t["args"][1].get("move")
            tup = None
            if tp is not None and not tp["p"]:
                tdefs = [st for blk2 in blocks for st in blk2["s"] if st["k"] == "assign" and st["place"]["l"] == tp["l"] and not st["place"]["p"]]
                if len(tdefs) == 1 and tdefs[0]["rv"]["k"] == "agg" and tdefs[0]["rv"].get("agg") == "tuple":
                    tup = tdefs[0]["rv"]["ops"]
            for i in range(max(0, cb.mir["argc"] - 1)):
                if tup is not None and i < len(tup):
                    # the argument tuple is built right at the call: hand its components over directly
                    pre["s"].append({"k": "assign", "place": {"l": lo + 2 + i, "p": []}, "rv": {"k": "use", "op": copy.deepcopy(tup[i])}, "span": span})
                elif tp is not None:
                    pre["s"].append({"k": "assign", "place": {"l": lo + 2 + i, "p": []}, "span": span,
                                     "rv": {"k": "use", "op": {"move": {"l": tp["l"], "p": list(tp["p"]) + [{"f": i, "n": None, "ty": "?"}]}}}})
        for i, a in enumerate(t["args"] if up is None and not clos_call else []):
            pre["s"].append({"k": "assign", "place": {"l": lo + 1 + i, "p": []}, "rv": {"k": "use", "op": copy.deepcopy(a)}, "span": span})
        blocks.append(pre)
        blocks[bb]["t"] = {"k": "goto", "target": prelude, "inlined_call": norm(cb.name)}
        raw["inlined"].append(norm(cb.name))
        for i in range(nb):
            work.append((bo + i, d - 1, ch + (cb.id,)))
    if raw["inlined"]:
        _fold_constant_switches(mir)
    nbody = Body(prog, raw, body.crate)
    nbody.children = body.children
    return nbody


def _fold_constant_switches(mir):
    """Arguments that are literals at the call (`helper(true)`) become single-definition constants of the spliced copy:
    a switch on such a local (directly or through copies) has one feasible successor."""
    defs = {}
    borrowed = set()
    for blk in mir["blocks"]:
        for s in blk["s"]:
            if s["k"] == "assign":
                defs.setdefault(s["place"]["l"], []).append(s if not s["place"]["p"] else None)
                if s["rv"]["k"] in ("ref", "rawptr") and s["rv"].get("mut", True):
                    borrowed.add(s["rv"]["place"]["l"])
            elif s["k"] == "setdiscr":
                defs.setdefault(s["place"]["l"], []).append(None)
        t = blk["t"]
        if t["k"] == "call" and t.get("dest") is not None:
            defs.setdefault(t["dest"]["l"], []).append(None)
        if t["k"] == "yield" and t.get("resume_arg") is not None:
            defs.setdefault(t["resume_arg"]["l"], []).append(None)

    def value(l, depth=6):
        if depth <= 0 or l in borrowed or l <= mir["argc"]:
            return None
        ds = defs.get(l, [])
        if len(ds) != 1 or ds[0] is None:
            return None
        rv = ds[0]["rv"]
        if rv["k"] == "discr" and rv["place"]["p"] == ["*"] and rv.get("enum"):
            # the discriminant read through a shared reference to a single-definition aggregate (`match (state, &error)`)
            rd = defs.get(rv["place"]["l"], [])
            cur = rd[0] if len(rd) == 1 and rd[0] is not None else None
            hops = 0
            while cur is not None and hops < 4 and cur["rv"]["k"] == "use" and (cur["rv"]["op"].get("copy") or cur["rv"]["op"].get("move")) \
                    and not (cur["rv"]["op"].get("copy") or cur["rv"]["op"].get("move"))["p"]:
                nd = defs.get((cur["rv"]["op"].get("copy") or cur["rv"]["op"].get("move"))["l"], [])
                cur = nd[0] if len(nd) == 1 and nd[0] is not None else None
                hops += 1
            if cur is not None and cur["rv"]["k"] == "ref" and not cur["rv"].get("mut") and not cur["rv"]["place"]["p"]:
                tgt = cur["rv"]["place"]["l"]
                src = defs.get(tgt, [])
                # the referent may be moved from a single-definition aggregate (`error` parameter <- Some(e) at the call)
                hops = 0
                while len(src) == 1 and src[0] is not None and src[0]["rv"]["k"] == "use" and hops < 4:
                    pl2 = src[0]["rv"]["op"].get("copy") or src[0]["rv"]["op"].get("move")
                    if pl2 is None or pl2["p"]:
                        break
                    src = defs.get(pl2["l"], [])
                    hops += 1
                if len(src) == 1 and src[0] is not None and src[0]["rv"]["k"] == "agg" and src[0]["rv"].get("variant"):
                    for ent in rv["enum"]["variants"]:
                        if ent[1] == src[0]["rv"]["variant"]:
                            return ent[0]
            return None
        if rv["k"] == "discr" and not rv["place"]["p"] and rv.get("enum"):
            src = defs.get(rv["place"]["l"], [])
            if len(src) == 1 and src[0] is not None and src[0]["rv"]["k"] == "agg" and src[0]["rv"].get("variant") and rv["place"]["l"] not in borrowed:
                for ent in rv["enum"]["variants"]:
                    if ent[1] == src[0]["rv"]["variant"]:
                        return ent[0]
            return None
        if rv["k"] != "use":
            return None
        op = rv["op"]
        if "const" in op:
            return op["const"].get("int")
        pl = op.get("copy") or op.get("move")
        if pl is None or pl["p"]:
            return None
        return value(pl["l"], depth - 1)

    for blk in mir["blocks"]:
        t = blk["t"]
        if t["k"] != "switch":
            continue
        d = t["discr"]
        pl = d.get("copy") or d.get("move")
        v = d["const"].get("int") if "const" in d else (value(pl["l"]) if pl is not None and not pl["p"] else None)
        if v is None:
            continue
        hit = [b for x, b in t["targets"] if x == v]
        blk["t"] = {"k": "goto", "target": hit[0] if hit else t["otherwise"], "folded_switch": True}


def module_of(body):
    """module path of a body, from its def path: the segments before the first `{impl#..}` / the item's own name"""
    segs = body.id.split("::")
    out = []
    for i, sg in enumerate(segs):
        if sg.startswith("{") or i == len(segs) - 1:
            break
        out.append(sg)
    return "::".join(out)


def same_impl_helpers(body, module=False, exclude=()):
    """predicate: callee is a non-derived method/function defined next to `body` (same parent impl/module), i.e. a private
    helper the function was split into"""
    parent = body.raw.get("parent") or body.name.rsplit("::", 1)[0]
    pname = norm(body.name).rsplit("::", 1)[0]

    root = body.prog.bodies.get(body.root, body)
    pname = norm(root.name).rsplit("::", 1)[0]

    def want(cb):
        if cb.raw.get("derived") or cb.crate != body.crate:
            return False
        n = norm(cb.name)
        fn = cb
        if cb.raw.get("coroutine"):
            # body of an `async fn` helper: `<helper>::{closure#0}`
            if not n.endswith("::{closure#0}") or cb.id == body.id:
                return False
            n = n[:-len("::{closure#0}")]
            fn = body.prog.bodies.get(cb.root)
            if fn is None or n == norm(root.name):
                return False
        elif cb.kind not in ("Fn", "AssocFn"):
            return False
        if fn.raw.get("pub") or fn.raw.get("exported"):
            return False   # public API is what the rules are written against; only private helpers are spliced
        if n in exclude:
            return False
        par = n.rsplit("::", 1)[0]
        if par == pname:
            return True
        # private free function of the module the impl (or the function) lives in
        return module and not fn.impl and module_of(fn) == module_of(root)
    return want


def module_private_helpers(body, exclude=()):
    """predicate: callee is a non-public, non-exported, non-derived function or method (of any impl) defined in the module `body`
    lives in — wider than same_impl_helpers: also the private / pub(crate) methods of a sibling type of the same module
    (`Command::into_line` used by `CommandList::render`)"""
    base = same_impl_helpers(body, module=True, exclude=exclude)
    root = body.prog.bodies.get(body.root, body)

    def want(cb):
        if base(cb):
            return True
        if cb.raw.get("derived") or cb.crate != body.crate or cb.raw.get("coroutine") or cb.kind not in ("Fn", "AssocFn"):
            return False
        if cb.raw.get("pub") or cb.raw.get("exported") or norm(cb.name) in exclude:
            return False
        return module_of(cb) == module_of(root)
    return want


def scalarize_tuples(prog, body):
    """`body` with local tuples taken apart again (`match (a, b) { (false, 0) => .. }`, `let (x, y) = match s { A => (p, q), B =>
    (r, t) }`): a local all of whose definitions are tuple aggregates of one arity and which is only read field by field is
    split into one fresh local per component — every definition becomes component assignments, every read `_t.i` a read of
    component i.  A fact-level simplification that keeps the components apart for the flow analyses."""
    raw = dict(body.raw)
    mir = copy.deepcopy(body.mir)
    raw["mir"] = mir
    blocks = mir["blocks"]
    defs = {}
    for blk in blocks:
        for st in blk["s"]:
            if st["k"] == "assign":
                defs.setdefault(st["place"]["l"], []).append(st if not st["place"]["p"] else None)
        t = blk["t"]
        if t["k"] == "call" and t.get("dest") is not None:
            defs.setdefault(t["dest"]["l"], []).append(None)
        if t["k"] == "yield" and t.get("resume_arg") is not None:
            defs.setdefault(t["resume_arg"]["l"], []).append(None)
    cands = {}
    for l, ds in defs.items():
        if l <= mir["argc"] or not ds or any(d is None for d in ds):
            continue
        if all(d["rv"]["k"] == "agg" and d["rv"].get("agg") == "tuple" and d["rv"]["ops"] for d in ds) and len({len(d["rv"]["ops"]) for d in ds}) == 1:
            cands[l] = len(ds[0]["rv"]["ops"])
    if not cands:
        return body
    bad = set()

    def scan(x):
        if isinstance(x, dict):
            if "l" in x and "p" in x and isinstance(x["l"], int) and x["l"] in cands:
                proj = x["p"]
                if not (proj and isinstance(proj[0], dict) and "f" in proj[0] and proj[0]["f"] < cands[x["l"]]):
                    bad.add(x["l"])
            for v in x.values():
                scan(v)
        elif isinstance(x, list):
            for v in x:
                scan(v)
    for blk in blocks:
        for st in blk["s"]:
            if st["k"] == "assign":
                if st["place"]["l"] in cands and not st["place"]["p"]:
                    scan(st["rv"])
                else:
                    scan(st)
            elif st["k"] not in ("storage_live", "storage_dead", "nop"):
                scan(st)
        t = blk["t"]
        if t["k"] == "drop" and t.get("place", {}).get("l") in cands and not t["place"]["p"]:
            continue          # dropping the whole tuple drops its components
        scan({k: v for k, v in t.items() if k not in ("target", "unwind", "targets", "otherwise")})
    cands = {l: n for l, n in cands.items() if l not in bad}
    if not cands:
        return body
    comp = {}
    for l, n in cands.items():
        comp[l] = []
        for i in range(n):
            comp[l].append(len(mir["locals"]))
            mir["locals"].append({"ty": "?component", "name": None, "component_of": l, "index": i})

    def rewrite(x):
        if isinstance(x, dict):
            if "l" in x and "p" in x and isinstance(x["l"], int) and x["l"] in cands and x["p"]:
                d = dict(x)
                d["l"] = comp[x["l"]][x["p"][0]["f"]]
                d["p"] = [rewrite(e) for e in x["p"][1:]]
                return d
            return {k: rewrite(v) for k, v in x.items()}
        if isinstance(x, list):
            return [rewrite(v) for v in x]
        return x
    for blk in blocks:
        out = []
        for st in blk["s"]:
            if st["k"] == "assign" and st["place"]["l"] in cands and not st["place"]["p"]:
                for i, o in enumerate(st["rv"]["ops"]):
                    out.append({"k": "assign", "place": {"l": comp[st["place"]["l"]][i], "p": []}, "rv": {"k": "use", "op": rewrite(o)}, "span": st.get("span")})
            else:
                out.append(rewrite(st))
        blk["s"] = out
        t = blk["t"]
        if t["k"] == "drop" and t.get("place", {}).get("l") in cands and not t["place"]["p"]:
            blk["t"] = {"k": "goto", "target": t["target"]}
        else:
            for k in list(t.keys()):
                if k not in ("target", "unwind", "targets", "otherwise", "k"):
                    t[k] = rewrite(t[k])
    raw["scalarized"] = sorted(cands)
    _fold_constant_switches(mir)
    nb = Body(prog, raw, body.crate)
    nb.children = body.children
    return nb


# ---- closures handed to the Option / Result adaptors of the standard library ---------------------------------------------------
# name -> (enum, variant whose payload goes to the closure, wrapper of the closure's result, the other variant, its wrapper).
# wrapper None = the value itself; "=" = the adaptor returns its receiver (inspect*).
ADAPTORS = {
    "core::result::Result::map_err": ("Result", "Err", "Err", "Ok", "Ok"),
    "core::result::Result::map": ("Result", "Ok", "Ok", "Err", "Err"),
    "core::result::Result::and_then": ("Result", "Ok", None, "Err", "Err"),
    "core::result::Result::or_else": ("Result", "Err", None, "Ok", "Ok"),
    "core::result::Result::unwrap_or_else": ("Result", "Err", None, "Ok", None),
    "core::result::Result::inspect_err": ("Result", "Err", "=", "Ok", "="),
    "core::result::Result::inspect": ("Result", "Ok", "=", "Err", "="),
    "core::option::Option::map": ("Option", "Some", "Some", "None", "None"),
    "core::option::Option::and_then": ("Option", "Some", None, "None", "None"),
    "core::option::Option::or_else": ("Option", "None", None, "Some", "Some"),
    "core::option::Option::ok_or_else": ("Option", "None", "Err", "Some", "Ok"),
    "core::option::Option::unwrap_or_else": ("Option", "None", None, "Some", None),
    "core::option::Option::inspect": ("Option", "Some", "=", "None", "="),
}
_ENUMS = {"Result": ("core::result::Result", [[0, "Ok", 0], [1, "Err", 1]]), "Option": ("core::option::Option", [[0, "None", 0], [1, "Some", 1]])}
_WRAP_ENUM = {"Ok": "Result", "Err": "Result", "Some": "Option", "None": "Option"}


def desugar_adaptors(prog, body, accept, _round=0):
    """Synthetic Body in which `r.map_err(|e| { .. })` (and the other Option / Result adaptors taking a closure) are written out as
    the `match` they stand for, with the closure's body spliced into its arm: what a closure does when the adaptor calls it —
    sending an event, answering a request — then lies on the paths of the function like the arm of a hand-written match.  Only
    closures written in this function (its own closure aggregates) and accepted by `accept(closure body)` are taken; block
    numbers of the original are preserved (new blocks are appended)."""
    raw = dict(body.raw)
    mir = {"argc": body.mir["argc"], "locals": list(copy.deepcopy(body.locals)), "blocks": copy.deepcopy(body.blocks)}
    for k, v in body.mir.items():
        if k not in mir:
            mir[k] = v
    raw["mir"] = mir
    blocks = mir["blocks"]
    done = []

    def fresh(ty):
        mir["locals"].append({"ty": ty, "name": None, "synthetic": True})
        return len(mir["locals"]) - 1

    def wrap(dest, variant, op, span):
        if variant is None:
            return {"k": "assign", "place": copy.deepcopy(dest), "rv": {"k": "use", "op": op}, "span": span}
        adt, vs = _ENUMS[_WRAP_ENUM[variant]]
        vi = next(v[0] for v in vs if v[1] == variant)
        return {"k": "assign", "place": copy.deepcopy(dest), "span": span,
                "rv": {"k": "agg", "agg": "adt", "adt": adt, "adt_name": adt, "args": [], "variant": variant, "vi": vi,
                       "fields": ["0"] if op is not None else [], "ops": [op] if op is not None else []}}

    for bb in range(len(blocks)):
        t = blocks[bb]["t"]
        if t["k"] != "call" or len(t["args"]) != 2 or t.get("dest") is None or t.get("target") is None:
            continue
        f = callee(t)
        spec = ADAPTORS.get(norm(f["name"])) if f is not None else None
        if spec is None:
            continue
        fnitem = t["args"][1].get("const") if isinstance(t["args"][1], dict) else None
        fnitem = fnitem if fnitem is not None and "fn" in fnitem else None
        if fnitem is None:
            cdef = _closure_def(blocks, t["args"][1])
            cb = prog.bodies.get(cdef) if cdef else None
            if cb is None or prog.bodies.get(cb.root, cb).id != prog.bodies.get(body.root, body).id or not accept(cb):
                continue
        elif not accept(None):
            continue
        enum, cvar, cwrap, ovar, owrap = spec
        adt, variants = _ENUMS[enum]
        span = blocks[bb].get("ts")
        name = norm(f["name"])
        rp = t["args"][0].get("copy") or t["args"][0].get("move")
        R = fresh(body.local_ty(rp["l"]) if rp is not None and not rp["p"] else "?")
        D = fresh("isize")
        TMP = fresh("?")
        ARGS = fresh("(?)")
        base = len(blocks)
        b_other, b_clos, b_wrap = base, base + 1, base + 2
        cidx = next(v[0] for v in variants if v[1] == cvar)
        blocks[bb]["s"].append({"k": "assign", "place": {"l": R, "p": []}, "rv": {"k": "use", "op": copy.deepcopy(t["args"][0])}, "span": span})
        blocks[bb]["s"].append({"k": "assign", "place": {"l": D, "p": []}, "span": span,
                                "rv": {"k": "discr", "place": {"l": R, "p": []}, "ty": adt, "enum": {"adt": adt, "variants": copy.deepcopy(variants)}}})
        payload = lambda var: {"move": {"l": R, "p": [{"v": next(v[0] for v in variants if v[1] == var), "n": var}, {"f": 0, "n": "0", "ty": "?"}]}}
        # the arm that does not call the closure
        if owrap == "=":
            so = [{"k": "assign", "place": copy.deepcopy(t["dest"]), "rv": {"k": "use", "op": {"move": {"l": R, "p": []}}}, "span": span}]
        else:
            so = [wrap(t["dest"], owrap, payload(ovar) if ovar != "None" else None, span)]
        blocks.append({"s": so, "t": {"k": "goto", "target": t["target"]}, "cleanup": False, "ts": span, "inlined_from": name})
        # the arm that calls it
        sc = []
        if cvar == "None":
            sc.append({"k": "assign", "place": {"l": ARGS, "p": []}, "rv": {"k": "agg", "agg": "tuple", "ops": []}, "span": span})
        elif cwrap == "=":
            P = fresh("&?")
            sc.append({"k": "assign", "place": {"l": P, "p": []}, "span": span,
                       "rv": {"k": "ref", "mut": False, "bk": "Shared", "place": payload(cvar)["move"]}})
            sc.append({"k": "assign", "place": {"l": ARGS, "p": []}, "rv": {"k": "agg", "agg": "tuple", "ops": [{"move": {"l": P, "p": []}}]}, "span": span})
        else:
            sc.append({"k": "assign", "place": {"l": ARGS, "p": []}, "rv": {"k": "agg", "agg": "tuple", "ops": [payload(cvar)]}, "span": span})
        if fnitem is not None:
            # `.map(Response::into_single_frame)`: a plain call of that function with the payload
            targ = sc[-1]["rv"]["ops"]
            sc.pop()
            call = {"k": "call", "func": {"const": copy.deepcopy(fnitem)}, "fty": fnitem.get("ty", "fn"), "args": copy.deepcopy(targ),
                    "dest": {"l": TMP, "p": []}, "target": b_wrap, "unwind": t.get("unwind"), "fn_span": t.get("fn_span")}
            blocks.append({"s": sc, "t": call, "cleanup": False, "ts": span, "inlined_from": name})
        call = {"k": "call", "func": {"const": {"c": "core::ops::function::FnOnce::call_once", "ty": "fn", "fn": {
            "def": "core::ops::function::FnOnce::call_once", "name": "core::ops::function::FnOnce::call_once", "args": []}}},
            "fty": "fn", "args": [copy.deepcopy(t["args"][1]), {"move": {"l": ARGS, "p": []}}], "dest": {"l": TMP, "p": []}, "target": b_wrap,
            "unwind": t.get("unwind"), "fn_span": t.get("fn_span")}
        if fnitem is None:
            blocks.append({"s": sc, "t": call, "cleanup": False, "ts": span, "inlined_from": name})
        if cwrap == "=":
            sw = [{"k": "assign", "place": copy.deepcopy(t["dest"]), "rv": {"k": "use", "op": {"move": {"l": R, "p": []}}}, "span": span}]
        else:
            sw = [wrap(t["dest"], cwrap, {"move": {"l": TMP, "p": []}}, span)]
        blocks.append({"s": sw, "t": {"k": "goto", "target": t["target"]}, "cleanup": False, "ts": span, "inlined_from": name})
        blocks[bb]["t"] = {"k": "switch", "discr": {"move": {"l": D, "p": []}}, "ty": "isize", "targets": [[cidx, b_clos]], "otherwise": b_other,
                           "desugared_call": name}
        done.append(name)
    if not done:
        return body
    raw["desugared"] = done
    nbody = Body(prog, raw, body.crate)
    nbody.children = body.children
    # the closure calls now sit in spliced code and the closures were written by the function itself: `inlined` takes them apart
    out = inlined(prog, nbody, lambda cb: False, depth=2)
    out.raw["desugared"] = done
    if _round < 3:
        # a spliced closure may itself hand a closure / function to an adaptor (`.map(|res| res.map(Response::into_single_frame))`)
        nxt = desugar_adaptors(prog, out, accept, _round + 1)
        if nxt is not out:
            nxt.raw["desugared"] = done + [x for x in nxt.raw.get("desugared", [])]
            nxt.raw["inlined"] = list(out.raw.get("inlined", [])) + [x for x in nxt.raw.get("inlined", []) if x not in out.raw.get("inlined", [])]
            return nxt
    return out
