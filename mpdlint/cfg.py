"""Graph algorithms over MIR control-flow graphs (analysis A2 of DESIGN.md)."""


def reach(succs, starts, avoid=(), avoid_edges=()):
    """Blocks reachable from `starts` (inclusive) without entering `avoid` blocks / taking edges."""
    avoid = set(avoid)
    avoid_edges = set(avoid_edges)
    seen = set()
    st = [s for s in starts if s not in avoid]
    seen.update(st)
    while st:
        b = st.pop()
        for s in succs[b]:
            if s in seen or s in avoid or (b, s) in avoid_edges:
                continue
            seen.add(s)
            st.append(s)
    return seen


def reach_strict(succs, starts, avoid=(), avoid_edges=()):
    """Blocks reachable by at least one edge from `starts`."""
    avoid = set(avoid)
    avoid_edges = set(avoid_edges)
    seen = set()
    st = []
    for b in starts:
        for s in succs[b]:
            if s not in avoid and (b, s) not in avoid_edges and s not in seen:
                seen.add(s)
                st.append(s)
    while st:
        b = st.pop()
        for s in succs[b]:
            if s in seen or s in avoid or (b, s) in avoid_edges:
                continue
            seen.add(s)
            st.append(s)
    return seen


def rpo(succs, entry):
    order = []
    seen = set()
    stack = [(entry, iter(succs[entry]))]
    seen.add(entry)
    while stack:
        node, it = stack[-1]
        advanced = False
        for s in it:
            if s not in seen:
                seen.add(s)
                stack.append((s, iter(succs[s])))
                advanced = True
                break
        if not advanced:
            order.append(node)
            stack.pop()
    order.reverse()
    return order


def dominators(succs, entry):
    """Immediate dominators {block: idom} for blocks reachable from entry (entry maps to itself)."""
    order = rpo(succs, entry)
    idx = {b: i for i, b in enumerate(order)}
    preds = {b: [] for b in order}
    for b in order:
        for s in succs[b]:
            if s in idx:
                preds[s].append(b)
    idom = {entry: entry}
    changed = True
    while changed:
        changed = False
        for b in order[1:]:
            new = None
            for p in preds[b]:
                if p in idom:
                    if new is None:
                        new = p
                    else:
                        a, c = p, new
                        while a != c:
                            while idx[a] > idx[c]:
                                a = idom[a]
                            while idx[c] > idx[a]:
                                c = idom[c]
                        new = a
            if new is not None and idom.get(b) != new:
                idom[b] = new
                changed = True
    return idom


def dominates(idom, a, b):
    """True if a dominates b (reflexive)."""
    if b not in idom:
        return False
    while True:
        if a == b:
            return True
        p = idom[b]
        if p == b:
            return False
        b = p


def post_dominators(succs, n, exits):
    """Immediate post-dominators using a virtual exit node `n` (index n)."""
    rsucc = [[] for _ in range(n + 1)]
    for b in range(n):
        for s in succs[b]:
            rsucc[s].append(b)
    for e in exits:
        rsucc[n].append(e)
    return dominators(rsucc, n)


def sccs(succs, nodes):
    """Tarjan SCCs restricted to `nodes`; returns list of sets (only non-trivial cycles)."""
    nodes = set(nodes)
    index = {}
    low = {}
    onstack = set()
    stack = []
    out = []
    counter = [0]

    def strong(v):
        work = [(v, iter([s for s in succs[v] if s in nodes]))]
        index[v] = low[v] = counter[0]
        counter[0] += 1
        stack.append(v)
        onstack.add(v)
        while work:
            node, it = work[-1]
            advanced = False
            for s in it:
                if s not in index:
                    index[s] = low[s] = counter[0]
                    counter[0] += 1
                    stack.append(s)
                    onstack.add(s)
                    work.append((s, iter([x for x in succs[s] if x in nodes])))
                    advanced = True
                    break
                elif s in onstack:
                    low[node] = min(low[node], index[s])
            if not advanced:
                work.pop()
                if work:
                    low[work[-1][0]] = min(low[work[-1][0]], low[node])
                if low[node] == index[node]:
                    comp = set()
                    while True:
                        w = stack.pop()
                        onstack.discard(w)
                        comp.add(w)
                        if w == node:
                            break
                    if len(comp) > 1 or node in succs[node]:
                        out.append(comp)

    for v in sorted(nodes):
        if v not in index:
            strong(v)
    return out


class Cfg:
    """Per-body CFG facts, computed lazily."""

    def __init__(self, body):
        self.body = body
        self.succs = body.succs()
        self.n = len(body.blocks)
        self.live = body.reachable()
        self._idom = None
        self._ipdom = None
        self._loops = None

    @property
    def idom(self):
        if self._idom is None:
            self._idom = dominators(self.succs, 0)
        return self._idom

    def dom(self, a, b):
        return dominates(self.idom, a, b)

    @property
    def ipdom(self):
        if self._ipdom is None:
            exits = [b for b in self.live if not self.succs[b]]
            self._ipdom = post_dominators(self.succs, self.n, exits)
        return self._ipdom

    def pdom(self, a, b):
        """a post-dominates b."""
        return dominates(self.ipdom, a, b)

    @property
    def loops(self):
        if self._loops is None:
            self._loops = sccs(self.succs, self.live)
        return self._loops

    def returns(self):
        return [b for b in self.live if self.body.blocks[b]["t"]["k"] == "return"]

    def reach(self, starts, avoid=(), avoid_edges=()):
        return reach(self.succs, starts, avoid, avoid_edges)

    def reach_strict(self, starts, avoid=(), avoid_edges=()):
        return reach_strict(self.succs, starts, avoid, avoid_edges)


class FlagReach:
    """Reachability that is sensitive to boolean flag locals which are only ever assigned
    constants (e.g. `embedded`): states are (block, flag values)."""

    def __init__(self, body, flags):
        self.body = body
        self.flags = list(flags)
        self.succs = body.succs()
        # snapshots: locals whose only definition is a plain copy of a flag (or of another snapshot), e.g. a flag passed
        # to a helper as an argument; their value is fixed when the copy is made
        self.snap = {}
        defs = {}
        for bb, i, s in body.stmts():
            if s["k"] == "assign":
                defs.setdefault(s["place"]["l"], []).append(s if not s["place"]["p"] else None)
        for bb, t in body.calls():
            if t.get("dest") is not None:
                defs.setdefault(t["dest"]["l"], []).append(None)
        changed = True
        while changed:
            changed = False
            for l, ds in defs.items():
                if l in self.snap or l in self.flags or len(ds) != 1 or ds[0] is None or ds[0]["rv"]["k"] != "use":
                    continue
                p = ds[0]["rv"]["op"].get("copy") or ds[0]["rv"]["op"].get("move")
                if p is not None and not p["p"] and (p["l"] in self.flags or p["l"] in self.snap):
                    self.snap[l] = p["l"]
                    changed = True

    @staticmethod
    def find_flags(body):
        """bool-typed user locals whose every assignment is a constant."""
        cand = {}
        for i, l in enumerate(body.locals):
            if l["ty"] == "bool" and l["name"]:
                cand[i] = True
        for bb, i, s in body.stmts():
            if s["k"] == "assign" and s["place"]["l"] in cand and not s["place"]["p"]:
                rv = s["rv"]
                if not (rv["k"] == "use" and "const" in rv["op"] and rv["op"]["const"].get("int") is not None):
                    cand[s["place"]["l"]] = False
        for bb, t in body.calls():
            if t["dest"]["l"] in cand:
                cand[t["dest"]["l"]] = False
        return [l for l, ok in cand.items() if ok]

    def _step(self, bb, vals):
        """successor states of (bb, vals)"""
        body = self.body
        vals = dict(vals)
        copies = {}
        for s in body.blocks[bb]["s"]:
            if s["k"] != "assign" or s["place"]["p"]:
                continue
            dst = s["place"]["l"]
            rv = s["rv"]
            if dst in self.flags and rv["k"] == "use" and "const" in rv["op"]:
                vals[dst] = rv["op"]["const"].get("int")
            elif dst in self.snap:
                vals[dst] = vals.get(self.snap[dst])
            elif rv["k"] == "use":
                p = rv["op"].get("copy") or rv["op"].get("move")
                if p is not None and not p["p"] and (p["l"] in self.flags or p["l"] in self.snap):
                    copies[dst] = (p["l"], False)
                elif p is not None and not p["p"] and p["l"] in copies:
                    copies[dst] = copies[p["l"]]
            elif rv["k"] == "unop" and rv["op"] == "Not":
                p = rv["a"].get("copy") or rv["a"].get("move")
                if p is not None and not p["p"]:
                    if p["l"] in self.flags or p["l"] in self.snap:
                        copies[dst] = (p["l"], True)
                    elif p["l"] in copies:
                        copies[dst] = (copies[p["l"]][0], not copies[p["l"]][1])
        t = body.blocks[bb]["t"]
        nxt = self.succs[bb]
        if t["k"] == "switch":
            p = t["discr"].get("copy") or t["discr"].get("move")
            if p is not None and not p["p"]:
                src = None
                if p["l"] in self.flags or p["l"] in self.snap:
                    src = (p["l"], False)
                elif p["l"] in copies:
                    src = copies[p["l"]]
                if src is not None and vals.get(src[0]) is not None:
                    v = vals[src[0]]
                    v = (0 if v else 1) if src[1] else v
                    hit = [b for val, b in t["targets"] if val == v]
                    nxt = [hit[0]] if hit else [t["otherwise"]]
        return [(n, tuple(sorted(vals.items()))) for n in nxt]

    def reach(self, start_bb, init, avoid=(), avoid_edges=()):
        """States reachable from (start_bb, init flags dict)."""
        avoid = set(avoid)
        avoid_edges = set(avoid_edges)
        st0 = (start_bb, tuple(sorted(init.items())))
        seen = {st0}
        work = [st0]
        while work:
            bb, vals = work.pop()
            for n, nv in self._step(bb, vals):
                if n in avoid or (bb, n) in avoid_edges:
                    continue
                s = (n, nv)
                if s not in seen:
                    seen.add(s)
                    work.append(s)
        return seen

    def blocks(self, states):
        return {bb for bb, _ in states}


class VariantReach:
    """Reachability that is sensitive to the enum variant a local is known to hold (A13): states are (block, {local:
    variant path}), e.g. ('Ready', 'Err') for a `Poll::Ready(Err(..))`.  Variants are established by aggregate
    construction, carried through moves, references, downcast field reads and the Option/Result adaptors of
    `?`-desugaring (Try::branch, FromResidual, map_err, transpose, ok_or); a switch on the discriminant of a tracked place
    has one feasible target.  Everything else forgets.  Pruning is sound (only infeasible edges are dropped), so the
    result is a subset of plain CFG reachability and a superset of the feasible blocks."""

    LIMIT = 400000

    def __init__(self, body):
        from .flow import Flow
        self.body = body
        self.succs = body.succs()
        self.mutrefs = Flow(body).mutrefs

    def _place_variant(self, env, place):
        cur = env.get(place["l"])
        want = None
        for e in place["p"]:
            if e == "*":
                continue
            if isinstance(e, dict) and "v" in e:
                want = e.get("n")
                continue
            if isinstance(e, dict) and "f" in e:
                if want is None or not cur or cur[0] != want or e["f"] != 0:
                    return None
                cur = cur[1:]
                want = None
                continue
            return None
        return cur if cur else None

    def _rv_variant(self, env, rv):
        k = rv["k"]
        if k == "use":
            p = rv["op"].get("copy") or rv["op"].get("move")
            return self._place_variant(env, p) if p is not None else None
        if k == "ref":
            return self._place_variant(env, rv["place"])
        if k == "agg" and rv.get("agg") == "adt" and rv.get("variant") and rv.get("adt_kind", "enum") != "struct":
            inner = ()
            if len(rv["ops"]) == 1:
                p = rv["ops"][0].get("copy") or rv["ops"][0].get("move")
                inner = (self._place_variant(env, p) or ()) if p is not None else ()
            return (rv["variant"],) + tuple(inner)
        return None

    def _call(self, env, t):
        from .common import callee_names
        n = set(callee_names(t))
        dst = t.get("dest")
        a0 = None
        if t["args"]:
            p = t["args"][0].get("copy") or t["args"][0].get("move")
            a0 = self._place_variant(env, p) if p is not None else None
        # whatever is reachable through a `&mut` argument may have been replaced
        for a in t["args"]:
            p = a.get("copy") or a.get("move")
            if p is not None:
                for base in self.mutrefs.get(p["l"], ()):
                    env.pop(base, None)
        out = None
        if "core::ops::try_trait::Try::branch" in n and a0:
            out = (("Continue",) + a0[1:]) if a0[0] in ("Ok", "Some") else ("Break",)
        elif "core::ops::try_trait::FromResidual::from_residual" in n and dst is not None:
            ty = self.body.local_ty(dst["l"])
            out = ("None",) if ty.startswith("core::option::Option") else (("Err",) if ty.startswith("core::result::Result") else None)
        elif n & {"core::option::Option::ok_or", "core::option::Option::ok_or_else"} and a0:
            out = (("Ok",) + a0[1:]) if a0[0] == "Some" else ("Err",)
        elif n & {"core::result::Result::ok", "core::result::Result::<T, E>::ok"} and a0:
            out = (("Some",) + a0[1:]) if a0[0] == "Ok" else ("None",)
        elif "core::result::Result::transpose" in n and a0:
            if a0[0] == "Err":
                out = ("Some", "Err")
            elif len(a0) > 1:
                out = ("Some", "Ok") + a0[2:] if a0[1] == "Some" else ("None",)
        elif "core::option::Option::transpose" in n and a0:
            if a0[0] == "None":
                out = ("Ok", "None")
            elif len(a0) > 1:
                out = ("Ok", "Some") + a0[2:] if a0[1] == "Ok" else ("Err",)
        elif n & {"core::result::Result::map_err", "core::result::Result::map", "core::option::Option::map"} and a0:
            out = a0[:1]
        elif a0 and any(x.rsplit("::", 1)[-1] in ("is_some", "is_none", "is_ok", "is_err") and ("Option" in x or "Result" in x) for x in n):
            # a test of the tracked variant: its boolean result is tracked as a pseudo-variant and decides the switch on it
            short = next(x.rsplit("::", 1)[-1] for x in n if x.rsplit("::", 1)[-1] in ("is_some", "is_none", "is_ok", "is_err"))
            truth = {"is_some": a0[0] == "Some", "is_none": a0[0] == "None", "is_ok": a0[0] == "Ok", "is_err": a0[0] == "Err"}[short]
            out = ("#true",) if truth else ("#false",)
        elif n & {"core::convert::Into::into", "core::convert::From::from"} and a0 and dst is not None \
                and self.body.local_ty(dst["l"]).split("<")[0] in ("core::result::Result", "core::option::Option"):
            out = a0
        if dst is not None:
            if dst["p"]:
                env.pop(dst["l"], None)
            elif out:
                env[dst["l"]] = tuple(out)
            else:
                env.pop(dst["l"], None)

    def step(self, bb, envt, inject=None):
        """`inject` = (local, variant): the local holds that variant from its (last) definition in this block on"""
        body = self.body
        env = dict(envt)
        blk = body.blocks[bb]
        inj_at = None
        if inject is not None:
            for i, s in enumerate(blk["s"]):
                if s["k"] == "assign" and s["place"]["l"] == inject[0] and not s["place"]["p"]:
                    inj_at = i
        for i, s in enumerate(blk["s"]):
            if inj_at is not None and i == inj_at + 1:
                env[inject[0]] = tuple(inject[1])
            if s["k"] == "setdiscr":
                env.pop(s["place"]["l"], None)
                continue
            if s["k"] != "assign":
                continue
            dst = s["place"]
            if dst["p"]:
                if any(e != "*" for e in dst["p"]):
                    env.pop(dst["l"], None)
                continue
            v = self._rv_variant(env, s["rv"])
            rv = s["rv"]
            if not v and rv["k"] == "use" and "const" in rv["op"] and rv["op"]["const"].get("int") in (0, 1) \
                    and body.local_ty(dst["l"]) == "bool":
                # a boolean flag set to a constant (`embedded = true`) is carried like the result of `is_some()`
                v = ("#true",) if rv["op"]["const"]["int"] == 1 else ("#false",)
            elif not v and rv["k"] == "unop" and rv["op"] == "Not":
                p = rv["a"].get("copy") or rv["a"].get("move")
                cur = env.get(p["l"]) if p is not None and not p["p"] else None
                if cur in (("#true",), ("#false",)):
                    v = ("#false",) if cur == ("#true",) else ("#true",)
            if v:
                env[dst["l"]] = v
            else:
                env.pop(dst["l"], None)
        if inj_at is not None and inj_at == len(blk["s"]) - 1:
            env[inject[0]] = tuple(inject[1])
        t = blk["t"]
        nxt = list(self.succs[bb])
        if t["k"] == "call":
            self._call(env, t)
        elif t["k"] == "yield" and t.get("resume_arg") is not None:
            env.pop(t["resume_arg"]["l"], None)
        elif t["k"] == "switch":
            dl = t["discr"].get("copy") or t["discr"].get("move")
            d = None
            if dl is not None and not dl["p"] and env.get(dl["l"]) in (("#true",), ("#false",)):
                val = 1 if env[dl["l"]] == ("#true",) else 0
                hit = [x for vv, x in t["targets"] if vv == val]
                nxt = [hit[0] if hit else t["otherwise"]]
            if dl is not None and not dl["p"]:
                for s in blk["s"]:
                    if s["k"] == "assign" and s["place"]["l"] == dl["l"] and s["rv"]["k"] == "discr":
                        d = s["rv"]
            if d is not None and d.get("enum"):
                v = self._place_variant(env, d["place"])
                by_name = {ent[1]: ent[0] for ent in d["enum"]["variants"]}
                if v and v[0] in by_name:
                    val = by_name[v[0]]
                    hit = [x for vv, x in t["targets"] if vv == val]
                    nxt = [hit[0] if hit else t["otherwise"]]
        et = tuple(sorted(env.items()))
        return [(n, et) for n in nxt]

    def reach(self, start_bb, init=None, avoid=(), avoid_edges=()):
        avoid = set(avoid)
        avoid_edges = set(avoid_edges)
        st0 = (start_bb, tuple(sorted((init or {}).items())))
        seen = {st0}
        work = [st0]
        while work:
            bb, env = work.pop()
            for n, ne in self.step(bb, env):
                if n in avoid or (bb, n) in avoid_edges:
                    continue
                s = (n, ne)
                if s not in seen:
                    if len(seen) > self.LIMIT:
                        raise RuntimeError("VariantReach: state limit exceeded in %s" % self.body.name)
                    seen.add(s)
                    work.append(s)
        return seen

    def blocks(self, start_bb, init=None, avoid=(), avoid_edges=()):
        return {bb for bb, _ in self.reach(start_bb, init, avoid, avoid_edges)}

    def blocks_after_def(self, def_bb, local, variant, avoid=()):
        """blocks reachable after the block `def_bb` (which defines `local`) has run, given that `local` then holds `variant`"""
        avoid = set(avoid)
        seen = set()
        work = []
        for n, et in self.step(def_bb, (), inject=(local, variant)):
            env = dict(et)
            if local not in env and not any(s["k"] == "assign" and s["place"]["l"] == local and not s["place"]["p"] for s in self.body.blocks[def_bb]["s"]):
                env[local] = tuple(variant)        # defined by the block's terminator (a call)
            st = (n, tuple(sorted(env.items())))
            if n not in avoid and st not in seen:
                seen.add(st)
                work.append(st)
        while work:
            bb, env = work.pop()
            for n, ne in self.step(bb, env):
                if n in avoid:
                    continue
                st = (n, ne)
                if st not in seen:
                    if len(seen) > self.LIMIT:
                        raise RuntimeError("VariantReach: state limit exceeded in %s" % self.body.name)
                    seen.add(st)
                    work.append(st)
        return {bb for bb, _ in seen}

    def states_at(self, states, bb):
        return [dict(e) for b, e in states if b == bb]


def vreach(body, starts, avoid=()):
    """Variant-sensitive reachability (A13) from several start blocks: blocks reachable when the enum variants established along
    the way (aggregates, `?`-desugaring, moves through a spliced helper's return) decide the switches.  A subset of plain
    reachability — infeasible merges through a single return block of an inlined helper are pruned."""
    vr = VariantReach(body)
    out = set()
    for s0 in ([starts] if isinstance(starts, int) else list(starts)):
        if s0 in avoid:
            continue
        out |= vr.blocks(s0, avoid=avoid)
    return out


def state_cycle_blocks(body, avoid=()):
    """Blocks that lie on a cycle of the variant-sensitive state graph from the function entry that avoids `avoid`: the cycles a
    feasible execution could go around without passing an `avoid` block."""
    vr = VariantReach(body)
    avoid = set(avoid)
    st0 = (0, ())
    succ = {}
    work = [st0]
    seen = {st0}
    while work:
        st = work.pop()
        bb, env = st
        nxt = []
        for n, ne in vr.step(bb, env):
            if n in avoid:
                continue
            s2 = (n, ne)
            nxt.append(s2)
            if s2 not in seen:
                if len(seen) > VariantReach.LIMIT:
                    raise RuntimeError("state_cycle_blocks: state limit exceeded in %s" % body.name)
                seen.add(s2)
                work.append(s2)
        succ[st] = nxt
    # Tarjan over states (iterative)
    index = {}
    low = {}
    onstack = set()
    stack = []
    out = set()
    counter = [0]
    for root in list(succ):
        if root in index:
            continue
        it = [(root, iter(succ.get(root, ())))]
        index[root] = low[root] = counter[0]
        counter[0] += 1
        stack.append(root)
        onstack.add(root)
        while it:
            v, children = it[-1]
            advanced = False
            for w in children:
                if w not in index:
                    index[w] = low[w] = counter[0]
                    counter[0] += 1
                    stack.append(w)
                    onstack.add(w)
                    it.append((w, iter(succ.get(w, ()))))
                    advanced = True
                    break
                elif w in onstack:
                    low[v] = min(low[v], index[w])
            if advanced:
                continue
            it.pop()
            if it:
                low[it[-1][0]] = min(low[it[-1][0]], low[v])
            if low[v] == index[v]:
                comp = []
                while True:
                    w = stack.pop()
                    onstack.discard(w)
                    comp.append(w)
                    if w == v:
                        break
                if len(comp) > 1 or v in succ.get(v, ()):
                    out |= {b for b, _ in comp}
    return out


class BoolReach:
    """Reachability under an assignment of truth values to named boolean facts (A14).  `atom_of(kind, bb, obj)` names the
    fact a statement (`kind` = 'binop', obj = the assignment) or a call (`kind` = 'call', obj = the terminator) computes and
    returns (name, negated) or None.  Boolean locals are evaluated along each path: constants, copies, `!`, `&`/`|` of
    known values, and the named facts (value taken from the assignment); a switch on a known local has one successor.
    Anything else is unknown and forks.  Used to decide a guard written in any boolean form (`a || !b`, `let clean = !a &&
    b`, early returns) by enumerating the assignments."""

    def __init__(self, body, atom_of):
        self.body = body
        self.atom_of = atom_of
        self.succs = body.succs()

    def _step(self, bb, vals, env):
        body = self.body
        blk = body.blocks[bb]
        vals = self._run_stmts(bb, vals, env)
        t = blk["t"]
        nxt = self.succs[bb]
        if t["k"] == "call" and t.get("dest") is not None and not t["dest"]["p"]:
            at = self.atom_of("call", bb, t)
            if at is not None and at[0] in env:
                vals[t["dest"]["l"]] = env[at[0]] != at[1]
            else:
                vals.pop(t["dest"]["l"], None)
        elif t["k"] == "switch":
            p = t["discr"].get("copy") or t["discr"].get("move")
            if p is not None and not p["p"] and vals.get(p["l"]) is not None:
                v = 1 if vals[p["l"]] else 0
                hit = [b for val, b in t["targets"] if val == v]
                nxt = [hit[0]] if hit else [t["otherwise"]]
        return [(n, tuple(sorted(vals.items()))) for n in nxt]

    def _run_stmts(self, bb, vals, env):
        body = self.body
        vals = dict(vals)
        blk = body.blocks[bb]

        def val_of(op):
            if "const" in op:
                c = op["const"]
                return bool(c.get("int")) if c.get("ty") == "bool" and c.get("int") is not None else None
            p = op.get("copy") or op.get("move")
            if p is None or p["p"]:
                return None
            return vals.get(p["l"])
        for s in blk["s"]:
            if s["k"] != "assign":
                continue
            dst = s["place"]
            if dst["p"]:
                continue
            rv = s["rv"]
            v = None
            if rv["k"] == "use":
                v = val_of(rv["op"])
            elif rv["k"] == "unop" and rv["op"] == "Not":
                x = val_of(rv["a"])
                v = (not x) if x is not None else None
            elif rv["k"] == "binop":
                at = self.atom_of("binop", bb, s)
                if at is not None and at[0] in env:
                    v = env[at[0]] != at[1]
                elif rv["op"] in ("BitAnd", "BitOr"):
                    x, y = val_of(rv["a"]), val_of(rv["b"])
                    if rv["op"] == "BitAnd":
                        v = False if (x is False or y is False) else (True if x and y else None)
                    else:
                        v = True if (x is True or y is True) else (False if x is False and y is False else None)
                elif rv["op"] in ("Eq", "Ne"):
                    x, y = val_of(rv["a"]), val_of(rv["b"])
                    if x is not None and y is not None:
                        v = (x == y) if rv["op"] == "Eq" else (x != y)
            if v is None:
                vals.pop(dst["l"], None)
            else:
                vals[dst["l"]] = v
        return vals

    def blocks(self, start_bb, env, avoid=(), avoid_edges=(), init=None):
        avoid = set(avoid)
        avoid_edges = set(avoid_edges)
        st0 = (start_bb, tuple(sorted((init or {}).items())))
        seen = {st0}
        work = [st0]
        while work:
            bb, vals = work.pop()
            for n, nv in self._step(bb, vals, env):
                if n in avoid or (bb, n) in avoid_edges:
                    continue
                s = (n, nv)
                if s not in seen:
                    seen.add(s)
                    work.append(s)
        return {bb for bb, _ in seen}

    def return_values(self, start_bb, env, local=0):
        """Values the boolean `local` can hold when a `return` is reached from start_bb under `env`: subset of {True, False, None}
        (None = not determined by the named facts)."""
        st0 = (start_bb, ())
        seen = {st0}
        work = [st0]
        out = set()
        while work:
            bb, vals = work.pop()
            if self.body.blocks[bb]["t"]["k"] == "return":
                out.add(self._run_stmts(bb, vals, env).get(local))
                continue
            for n, nv in self._step(bb, vals, env):
                s = (n, nv)
                if s not in seen:
                    seen.add(s)
                    work.append(s)
        return out
