"""Graph algorithms over MIR control-flow graphs (analysis A2 of DESIGN.md)."""


def reach(succs, starts, avoid=(), avoid_edges=()):
    """Blocks reachable from `starts` (inclusive) without entering `avoid` blocks / taking edges."""
    avoid = set(avoid)
    avoid_edges = set(avoid_edges)
    seen = set()
    st = [s for s in starts if s not in avoid]
    seen.update(st)
    while st:
        b = st.pop()
        for s in succs[b]:
            if s in seen or s in avoid or (b, s) in avoid_edges:
                continue
            seen.add(s)
            st.append(s)
    return seen


def reach_strict(succs, starts, avoid=(), avoid_edges=()):
    """Blocks reachable by at least one edge from `starts`."""
    avoid = set(avoid)
    avoid_edges = set(avoid_edges)
    seen = set()
    st = []
    for b in starts:
        for s in succs[b]:
            if s not in avoid and (b, s) not in avoid_edges and s not in seen:
                seen.add(s)
                st.append(s)
    while st:
        b = st.pop()
        for s in succs[b]:
            if s in seen or s in avoid or (b, s) in avoid_edges:
                continue
            seen.add(s)
            st.append(s)
    return seen


def rpo(succs, entry):
    order = []
    seen = set()
    stack = [(entry, iter(succs[entry]))]
    seen.add(entry)
    while stack:
        node, it = stack[-1]
        advanced = False
        for s in it:
            if s not in seen:
                seen.add(s)
                stack.append((s, iter(succs[s])))
                advanced = True
                break
        if not advanced:
            order.append(node)
            stack.pop()
    order.reverse()
    return order


def dominators(succs, entry):
    """Immediate dominators {block: idom} for blocks reachable from entry (entry maps to itself)."""
    order = rpo(succs, entry)
    idx = {b: i for i, b in enumerate(order)}
    preds = {b: [] for b in order}
    for b in order:
        for s in succs[b]:
            if s in idx:
                preds[s].append(b)
    idom = {entry: entry}
    changed = True
    while changed:
        changed = False
        for b in order[1:]:
            new = None
            for p in preds[b]:
                if p in idom:
                    if new is None:
                        new = p
                    else:
                        a, c = p, new
                        while a != c:
                            while idx[a] > idx[c]:
                                a = idom[a]
                            while idx[c] > idx[a]:
                                c = idom[c]
                        new = a
            if new is not None and idom.get(b) != new:
                idom[b] = new
                changed = True
    return idom


def dominates(idom, a, b):
    """True if a dominates b (reflexive)."""
    if b not in idom:
        return False
    while True:
        if a == b:
            return True
        p = idom[b]
        if p == b:
            return False
        b = p


def post_dominators(succs, n, exits):
    """Immediate post-dominators using a virtual exit node `n` (index n)."""
    rsucc = [[] for _ in range(n + 1)]
    for b in range(n):
        for s in succs[b]:
            rsucc[s].append(b)
    for e in exits:
        rsucc[n].append(e)
    return dominators(rsucc, n)


def sccs(succs, nodes):
    """Tarjan SCCs restricted to `nodes`; returns list of sets (only non-trivial cycles)."""
    nodes = set(nodes)
    index = {}
    low = {}
    onstack = set()
    stack = []
    out = []
    counter = [0]

    def strong(v):
        work = [(v, iter([s for s in succs[v] if s in nodes]))]
        index[v] = low[v] = counter[0]
        counter[0] += 1
        stack.append(v)
        onstack.add(v)
        while work:
            node, it = work[-1]
            advanced = False
            for s in it:
                if s not in index:
                    index[s] = low[s] = counter[0]
                    counter[0] += 1
                    stack.append(s)
                    onstack.add(s)
                    work.append((s, iter([x for x in succs[s] if x in nodes])))
                    advanced = True
                    break
                elif s in onstack:
                    low[node] = min(low[node], index[s])
            if not advanced:
                work.pop()
                if work:
                    low[work[-1][0]] = min(low[work[-1][0]], low[node])
                if low[node] == index[node]:
                    comp = set()
                    while True:
                        w = stack.pop()
                        onstack.discard(w)
                        comp.add(w)
                        if w == node:
                            break
                    if len(comp) > 1 or node in succs[node]:
                        out.append(comp)

    for v in sorted(nodes):
        if v not in index:
            strong(v)
    return out


class Cfg:
    """Per-body CFG facts, computed lazily."""

    def __init__(self, body):
        self.body = body
        self.succs = body.succs()
        self.n = len(body.blocks)
        self.live = body.reachable()
        self._idom = None
        self._ipdom = None
        self._loops = None

    @property
    def idom(self):
        if self._idom is None:
            self._idom = dominators(self.succs, 0)
        return self._idom

    def dom(self, a, b):
        return dominates(self.idom, a, b)

    @property
    def ipdom(self):
        if self._ipdom is None:
            exits = [b for b in self.live if not self.succs[b]]
            self._ipdom = post_dominators(self.succs, self.n, exits)
        return self._ipdom

    def pdom(self, a, b):
        """a post-dominates b."""
        return dominates(self.ipdom, a, b)

    @property
    def loops(self):
        if self._loops is None:
            self._loops = sccs(self.succs, self.live)
        return self._loops

    def returns(self):
        return [b for b in self.live if self.body.blocks[b]["t"]["k"] == "return"]

    def reach(self, starts, avoid=(), avoid_edges=()):
        return reach(self.succs, starts, avoid, avoid_edges)

    def reach_strict(self, starts, avoid=(), avoid_edges=()):
        return reach_strict(self.succs, starts, avoid, avoid_edges)


class FlagReach:
    """Reachability that is sensitive to boolean flag locals which are only ever assigned
    constants (e.g. `embedded`): states are (block, flag values)."""

    def __init__(self, body, flags):
        self.body = body
        self.flags = list(flags)
        self.succs = body.succs()
        # snapshots: locals whose only definition is a plain copy of a flag (or of another snapshot), e.g. a flag passed
        # to a helper as an argument; their value is fixed when the copy is made
        self.snap = {}
        defs = {}
        for bb, i, s in body.stmts():
            if s["k"] == "assign":
                defs.setdefault(s["place"]["l"], []).append(s if not s["place"]["p"] else None)
        for bb, t in body.calls():
            if t.get("dest") is not None:
                defs.setdefault(t["dest"]["l"], []).append(None)
        changed = True
        while changed:
            changed = False
            for l, ds in defs.items():
                if l in self.snap or l in self.flags or len(ds) != 1 or ds[0] is None or ds[0]["rv"]["k"] != "use":
                    continue
                p = ds[0]["rv"]["op"].get("copy") or ds[0]["rv"]["op"].get("move")
                if p is not None and not p["p"] and (p["l"] in self.flags or p["l"] in self.snap):
                    self.snap[l] = p["l"]
                    changed = True

    @staticmethod
    def find_flags(body):
        """bool-typed user locals whose every assignment is a constant."""
        cand = {}
        for i, l in enumerate(body.locals):
            if l["ty"] == "bool" and l["name"]:
                cand[i] = True
        for bb, i, s in body.stmts():
            if s["k"] == "assign" and s["place"]["l"] in cand and not s["place"]["p"]:
                rv = s["rv"]
                if not (rv["k"] == "use" and "const" in rv["op"] and rv["op"]["const"].get("int") is not None):
                    cand[s["place"]["l"]] = False
        for bb, t in body.calls():
            if t["dest"]["l"] in cand:
                cand[t["dest"]["l"]] = False
        return [l for l, ok in cand.items() if ok]

    def _step(self, bb, vals):
        """successor states of (bb, vals)"""
        body = self.body
        vals = dict(vals)
        copies = {}
        for s in body.blocks[bb]["s"]:
            if s["k"] != "assign" or s["place"]["p"]:
                continue
            dst = s["place"]["l"]
            rv = s["rv"]
            if dst in self.flags and rv["k"] == "use" and "const" in rv["op"]:
                vals[dst] = rv["op"]["const"].get("int")
            elif dst in self.snap:
                vals[dst] = vals.get(self.snap[dst])
            elif rv["k"] == "use":
                p = rv["op"].get("copy") or rv["op"].get("move")
                if p is not None and not p["p"] and (p["l"] in self.flags or p["l"] in self.snap):
                    copies[dst] = (p["l"], False)
                elif p is not None and not p["p"] and p["l"] in copies:
                    copies[dst] = copies[p["l"]]
            elif rv["k"] == "unop" and rv["op"] == "Not":
                p = rv["a"].get("copy") or rv["a"].get("move")
                if p is not None and not p["p"]:
                    if p["l"] in self.flags or p["l"] in self.snap:
                        copies[dst] = (p["l"], True)
                    elif p["l"] in copies:
                        copies[dst] = (copies[p["l"]][0], not copies[p["l"]][1])
        t = body.blocks[bb]["t"]
        nxt = self.succs[bb]
        if t["k"] == "switch":
            p = t["discr"].get("copy") or t["discr"].get("move")
            if p is not None and not p["p"]:
                src = None
                if p["l"] in self.flags or p["l"] in self.snap:
                    src = (p["l"], False)
                elif p["l"] in copies:
                    src = copies[p["l"]]
                if src is not None and vals.get(src[0]) is not None:
                    v = vals[src[0]]
                    v = (0 if v else 1) if src[1] else v
                    hit = [b for val, b in t["targets"] if val == v]
                    nxt = [hit[0]] if hit else [t["otherwise"]]
        return [(n, tuple(sorted(vals.items()))) for n in nxt]

    def reach(self, start_bb, init, avoid=(), avoid_edges=()):
        """States reachable from (start_bb, init flags dict)."""
        avoid = set(avoid)
        avoid_edges = set(avoid_edges)
        st0 = (start_bb, tuple(sorted(init.items())))
        seen = {st0}
        work = [st0]
        while work:
            bb, vals = work.pop()
            for n, nv in self._step(bb, vals):
                if n in avoid or (bb, n) in avoid_edges:
                    continue
                s = (n, nv)
                if s not in seen:
                    seen.add(s)
                    work.append(s)
        return seen

    def blocks(self, states):
        return {bb for bb, _ in states}
