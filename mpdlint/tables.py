"""A6 — literal <-> variant / field tables (DESIGN.md §3)."""
from .callgraph import norm
from .cfg import reach
from .facts import callee, const_str, op_const, op_local, op_place

STR_EQ = {
    "core::cmp::PartialEq::eq": False,
    "core::cmp::PartialEq::ne": False,
    "core::str::<impl str>::eq_ignore_ascii_case": True,
    "core::str::traits::<impl core::cmp::PartialEq for str>::eq": False,
}


def local_const_str(body, local, depth=4):
    """A local that only ever holds one string constant (e.g. `_53 = const "songs"`)."""
    vals = set()
    n = 0
    for bb, i, s in body.stmts():
        if s["k"] == "assign" and s["place"]["l"] == local and not s["place"]["p"]:
            n += 1
            rv = s["rv"]
            if rv["k"] == "use":
                c = op_const(rv["op"])
                if c is not None and const_str(c) is not None:
                    vals.add(const_str(c))
                    continue
                l2 = op_local(rv["op"])
                if l2 is not None and depth > 0:
                    v = local_const_str(body, l2, depth - 1)
                    if v is not None:
                        vals.add(v)
                        continue
            if rv["k"] == "ref" and rv["place"]["p"] in ([], ["*"]) and depth > 0:
                v = local_const_str(body, rv["place"]["l"], depth - 1)
                if v is not None:
                    vals.add(v)
                    continue
            if rv["k"] == "use" and op_place(rv["op"]) is not None and rv["op"].get("copy", rv["op"].get("move"))["p"] == ["*"] and depth > 0:
                v = local_const_str(body, op_place(rv["op"])["l"], depth - 1)
                if v is not None:
                    vals.add(v)
                    continue
            return None
    for bb, t in body.calls():
        if t["dest"]["l"] == local:
            return None
    if n >= 1 and len(vals) == 1:
        return next(iter(vals))
    return None


def arg_str(body, op):
    c = op_const(op)
    if c is not None:
        return const_str(c)
    l = op_local(op)
    if l is not None:
        return local_const_str(body, l)
    return None


def str_compares(body, branchless=False):
    """String comparisons against a literal: list of dicts
    {lit, ci, bb, true, false, other (operand that is compared with the literal), negated}"""
    out = []
    for bb, t in body.calls():
        f = callee(t)
        if f is None:
            continue
        n = norm(f["name"])
        if n not in STR_EQ or len(t["args"]) != 2:
            continue
        lits = [arg_str(body, a) for a in t["args"]]
        if lits[0] is None and lits[1] is None:
            continue
        idx = 1 if lits[1] is not None else 0
        lit = lits[idx]
        other = t["args"][1 - idx]
        nxt = t["target"]
        if nxt is None:
            continue
        res = t["dest"]["l"]
        tb, fb = branch_on_bool(body, nxt, res)
        neg = n.endswith("::ne")
        if tb is None:
            # the comparison's result is used as a value (e.g. the last operand of an `||` chain)
            if not branchless:
                continue
            out.append({"lit": lit, "ci": STR_EQ[n], "bb": bb, "true": None, "false": None, "other": other,
                        "span": body.blocks[bb]["ts"], "dest": res, "neg": neg})
            continue
        if neg:
            tb, fb = fb, tb
        out.append({"lit": lit, "ci": STR_EQ[n], "bb": bb, "true": tb, "false": fb, "other": other,
                    "span": body.blocks[bb]["ts"], "dest": res, "neg": neg})
    return out


def branch_on_bool(body, start, local):
    """Follow straight-line blocks from `start` to the switchInt on `local` (possibly through a
    `Not`); returns (true target, false target) or (None, None)."""
    bb = start
    neg = False
    cur = local
    for _ in range(6):
        blk = body.blocks[bb]
        for s in blk["s"]:
            if s["k"] == "assign" and s["rv"]["k"] == "unop" and s["rv"]["op"] == "Not" and op_local(s["rv"]["a"]) == cur:
                cur = s["place"]["l"]
                neg = not neg
            elif s["k"] == "assign" and s["rv"]["k"] == "use" and op_local(s["rv"]["op"]) == cur and not s["place"]["p"]:
                cur = s["place"]["l"]
        t = blk["t"]
        if t["k"] == "switch" and op_local(t["discr"]) == cur:
            zero = [b for v, b in t["targets"] if v == 0]
            if not zero:
                return None, None
            tb, fb = t["otherwise"], zero[0]
            if neg:
                tb, fb = fb, tb
            return tb, fb
        if t["k"] == "goto":
            bb = t["target"]
            continue
        return None, None
    return None, None


def exclusive(body, target, others):
    """Blocks reachable from `target` but from none of `others` (the arm's own code)."""
    succs = body.succs()
    mine = reach(succs, [target])
    rest = reach(succs, [o for o in others if o != target]) if others else set()
    return mine - rest


def variant_aggs(body, blocks, adt_suffix):
    """Enum-variant constructions `Adt::Variant{..}` in the given blocks: [(variant, bb, stmt idx)]"""
    out = []
    for bb in sorted(blocks):
        for i, s in enumerate(body.blocks[bb]["s"]):
            if s["k"] == "assign" and s["rv"]["k"] == "agg" and s["rv"]["agg"] == "adt" \
                    and norm(s["rv"]["adt_name"]).endswith(adt_suffix):
                out.append((s["rv"]["variant"], bb, i))
    return out


def str_consts(body, blocks):
    out = []
    for bb in sorted(blocks):
        blk = body.blocks[bb]
        for i, s in enumerate(blk["s"]):
            if s["k"] == "assign" and s["rv"]["k"] == "use":
                c = op_const(s["rv"]["op"])
                if c is not None and const_str(c) is not None and c["ty"].endswith("str"):
                    out.append((const_str(c), bb, i))
        t = blk["t"]
        if t["k"] == "call":
            for a in t["args"]:
                c = op_const(a)
                if c is not None and const_str(c) is not None and c["ty"].endswith("str"):
                    out.append((const_str(c), bb, None))
    return out


def discr_switches(body):
    """switchInt on an enum discriminant: [{bb, place, adt, arms: {variant: target}, otherwise,
    variants: [all names]}]"""
    out = []
    for bb in sorted(body.reachable()):
        blk = body.blocks[bb]
        t = blk["t"]
        if t["k"] != "switch":
            continue
        dl = op_local(t["discr"])
        if dl is None:
            continue
        d = None
        for s in blk["s"]:
            if s["k"] == "assign" and s["place"]["l"] == dl and s["rv"]["k"] == "discr":
                d = s["rv"]
        if d is None or not d.get("enum"):
            continue
        by_val = {v[0]: v[1] for v in d["enum"]["variants"]}
        arms = {}
        for v, b in t["targets"]:
            if v in by_val:
                arms[by_val[v]] = b
        out.append({"bb": bb, "place": d["place"], "adt": d["enum"]["adt"], "arms": arms,
                    "otherwise": t["otherwise"], "variants": [v[1] for v in d["enum"]["variants"]]})
    return out


OTHER = "\x00<other>"


def string_cases(body, compares=None, extra_cells=()):
    """Abstract interpretation over the finite partition of the compared string induced by the
    literals it is compared with: for every cell (each literal, and OTHER for 'none of them')
    the set of blocks control can visit.  Switches that do not test a literal comparison fork.
    Returns ({cell: visited blocks}, [cells])."""
    compares = compares if compares is not None else str_compares(body)
    by_bb = {c["bb"]: c for c in compares}
    cells = []
    for c in compares:
        if c["lit"] not in cells:
            cells.append(c["lit"])
    for x in extra_cells:
        if x not in cells:
            cells.append(x)
    cells.append(OTHER)
    succs = body.succs()
    out = {}
    for cell in cells:
        seen = set()
        visited = set()
        st = [(0, ())]
        while st:
            bb, envt = st.pop()
            if (bb, envt) in visited:
                continue
            visited.add((bb, envt))
            seen.add(bb)
            # boolean locals holding a constant on this path (`let is_skipped = matches!(key, "a" | "b"); if is_skipped {..}`:
            # the outcome of the comparisons is stored first and tested later)
            env = dict(envt)
            for s in body.blocks[bb]["s"]:
                if s["k"] != "assign" or s["place"]["p"]:
                    continue
                dst, rv = s["place"]["l"], s["rv"]
                val = None
                if rv["k"] == "use":
                    k = op_const(rv["op"])
                    if k is not None and k.get("ty") == "bool" and k.get("int") in (0, 1):
                        val = bool(k["int"])
                    elif op_local(rv["op"]) is not None and not (rv["op"].get("copy") or rv["op"].get("move"))["p"]:
                        val = env.get(op_local(rv["op"]))
                elif rv["k"] == "unop" and rv["op"] == "Not" and op_local(rv["a"]) is not None and env.get(op_local(rv["a"])) is not None:
                    val = not env[op_local(rv["a"])]
                if val is None:
                    env.pop(dst, None)
                else:
                    env[dst] = val
            t = body.blocks[bb]["t"]
            if t["k"] == "call" and t.get("dest") is not None:
                env.pop(t["dest"]["l"], None)
            envt2 = tuple(sorted(env.items()))
            c = by_bb.get(bb)
            if c is not None and c["true"] is not None:
                if cell == OTHER:
                    hit = False
                elif c["ci"]:
                    hit = c["lit"].lower() == cell.lower()
                else:
                    hit = c["lit"] == cell
                st.append((c["true"] if hit else c["false"], envt2))
                continue
            if t["k"] == "switch" and op_local(t["discr"]) is not None and env.get(op_local(t["discr"])) is not None \
                    and not (t["discr"].get("copy") or t["discr"].get("move"))["p"]:
                v = 1 if env[op_local(t["discr"])] else 0
                hit = [x for vv, x in t["targets"] if vv == v]
                st.append((hit[0] if hit else t["otherwise"], envt2))
                continue
            for s in succs[bb]:
                st.append((s, envt2))
        out[cell] = seen
    return out, cells


def field_writes(body, blocks, base_locals):
    """Names of fields of `base_locals` (e.g. the `self` reference) assigned in `blocks`."""
    out = []
    for bb in sorted(blocks):
        blk = body.blocks[bb]
        for s in blk["s"]:
            if s["k"] == "assign" and s["place"]["l"] in base_locals:
                fs = [e["n"] for e in s["place"]["p"] if isinstance(e, dict) and "f" in e and e["n"] is not None]
                if fs:
                    out.append((fs[-1], bb))        # innermost named field: `self.queue.position` writes `position`
        t = blk["t"]
        if t["k"] == "call" and t["dest"]["l"] in base_locals:
            fs = [e["n"] for e in t["dest"]["p"] if isinstance(e, dict) and "f" in e and e["n"] is not None]
            if fs:
                out.append((fs[-1], bb))
    return out


def transformed_compares(body, compares=None):
    """{literal: [calls]} for literal comparisons whose other operand is not the received value itself but the result of a
    transforming call (to_ascii_lowercase, trim, replace, ...); views and ownership changes are transparent."""
    from . import terms
    out = {}
    for c in (compares if compares is not None else str_compares(body, branchless=True)):
        leaf, tr = terms.raw_source(body, c["other"])
        if tr:
            out[c["lit"]] = tr
    return out
