"""Straight-line term extraction (A11): the value a match arm computes, as an expression tree over the matched payload.

For a `match` on an enum (a discriminant switch) every arm is followed from its target block to the join block of the
match; assignments and calls on the way are folded into terms:

    ('scrut',)                          the matched value
    ('field', t, variant|None, name)    projection
    ('const', v)                        integer / string constant
    ('call', fn, (args...))             call to a resolved function
    ('agg', adt, variant, (ops...))     enum / struct / tuple construction
    ('free', local)                     a local not assigned in the arm
    ('unknown', why)                    anything the extractor does not model (branching inside the arm, casts, ...)

References and dereferences are dropped (`*pos` and `pos` are the same term): the rules using this compare integer
payloads, for which by-reference and by-value access denote the same value.  Nothing is executed; two arms are
compared by comparing their terms after `canon`.
"""
from .facts import op_const, op_local  # noqa: F401
from . import cfg as cfgmod
from .callgraph import norm


def _const_term(c):
    if "int" in c:
        return ("const", c["int"])
    return ("const", c.get("c"))


def eval_place(env, scrut, place):
    l = place["l"]
    t = env.get(l)
    if t is None:
        t = ("scrut",) if l == scrut else ("free", l)
    variant = None
    for e in place["p"]:
        if e == "*":
            continue
        if isinstance(e, dict) and "v" in e:
            variant = e.get("n")
            continue
        if isinstance(e, dict) and "f" in e:
            t = ("field", t, variant, e.get("n") if e.get("n") is not None else str(e["f"]))
            variant = None
            continue
        return ("unknown", "projection %r" % (e,))
    return t


def eval_op(env, scrut, op):
    if "const" in op:
        return _const_term(op["const"])
    pl = op.get("copy") or op.get("move")
    if pl is None:
        return ("unknown", "operand")
    return eval_place(env, scrut, pl)


def eval_rv(env, scrut, rv):
    k = rv["k"]
    if k == "use":
        return eval_op(env, scrut, rv["op"])
    if k == "ref":
        return eval_place(env, scrut, rv["place"])
    if k == "agg":
        if rv.get("agg") == "adt":
            return ("agg", norm(rv.get("adt_name") or rv.get("adt")), rv.get("variant"), tuple(eval_op(env, scrut, o) for o in rv["ops"]))
        if rv.get("agg") in ("tuple", "array"):
            return ("agg", rv["agg"], None, tuple(eval_op(env, scrut, o) for o in rv["ops"]))
        return ("unknown", "aggregate %s" % rv.get("agg"))
    if k == "binop":
        return ("binop", rv["op"], tuple(eval_op(env, scrut, o) for o in (rv["a"], rv["b"]))) if "a" in rv else ("unknown", "binop")
    return ("unknown", "rvalue %s" % k)


def callee_name(t):
    from .common import callee_names
    ns = callee_names(t)
    return ns[-1] if ns else None


def follow_arm(body, start, join, scrut, limit=40):
    """environment {local: term} after running the straight-line code from `start` up to (not including) `join`."""
    env = {}
    bb = start
    for _ in range(limit):
        if bb == join:
            return env, None
        blk = body.blocks[bb]
        for s in blk["s"]:
            if s["k"] != "assign":
                continue
            if s["place"]["p"]:
                env[s["place"]["l"]] = ("unknown", "partial write")
                continue
            env[s["place"]["l"]] = eval_rv(env, scrut, s["rv"])
        t = blk["t"]
        k = t["k"]
        if k == "goto":
            bb = t["target"]
        elif k == "call":
            name = callee_name(t)
            args = tuple(eval_op(env, scrut, a) for a in t["args"])
            if t.get("dest") is not None and not t["dest"]["p"]:
                env[t["dest"]["l"]] = ("call", name, args) if name else ("unknown", "indirect call")
            if t.get("target") is None:
                return env, "diverges"
            bb = t["target"]
        elif k == "drop":
            bb = t["target"]
        elif k in ("falseedge", "falseunwind"):
            bb = t.get("real", t.get("target"))
        else:
            return env, "branching terminator %s in bb%d" % (k, bb)
    return env, "arm too long"


def canon(t):
    """normal form: checked_add(x, c).unwrap_or(MAX) == saturating_add(x, c); copies / clones are transparent"""
    if not isinstance(t, tuple):
        return t
    if t[0] == "call":
        name, args = t[1], tuple(canon(a) for a in t[2])
        if name and name.endswith("::saturating_add") and len(args) == 2:
            return ("sat_add", args[0], args[1])
        if name in ("core::option::Option::<T>::unwrap_or",) and len(args) == 2 and isinstance(args[0], tuple) and args[0][0] == "call" \
                and args[0][1] and args[0][1].endswith("::checked_add") and args[1][0] == "const" and args[1][1] in (2**64 - 1, 2**32 - 1):
            inner = args[0][2]
            return ("sat_add", inner[0], inner[1])
        if name in ("core::clone::Clone::clone", "core::convert::Into::into", "core::convert::From::from") and len(args) == 1:
            return args[0]
        return ("call", name, args)
    if t[0] == "agg":
        return ("agg", t[1], t[2], tuple(canon(a) for a in t[3]))
    if t[0] == "field":
        return ("field", canon(t[1]), t[2], t[3])
    return t


def show(t):
    if not isinstance(t, tuple):
        return repr(t)
    k = t[0]
    if k == "scrut":
        return "x"
    if k == "field":
        return "%s%s.%s" % (show(t[1]), (" as " + t[2]) if t[2] else "", t[3])
    if k == "const":
        return str(t[1])
    if k == "sat_add":
        return "sat(%s + %s)" % (show(t[1]), show(t[2]))
    if k == "call":
        return "%s(%s)" % ((t[1] or "?").rsplit("::", 1)[-1], ", ".join(show(a) for a in t[2]))
    if k == "agg":
        return "%s%s{%s}" % (t[1].rsplit("::", 1)[-1], ("::" + t[2]) if t[2] else "", ", ".join(show(a) for a in t[3]))
    if k == "free":
        return "_%d" % t[1]
    return "%s" % (t,)


def _chain(body, start, limit=40):
    """blocks on the straight-line normal-flow path from `start` (stops at a branch / return)"""
    out = []
    bb = start
    for _ in range(limit):
        if bb in out:
            break
        out.append(bb)
        t = body.blocks[bb]["t"]
        k = t["k"]
        if k in ("goto", "drop", "call") and t.get("target") is not None:
            bb = t["target"]
        elif k in ("falseedge", "falseunwind"):
            bb = t.get("real", t.get("target"))
        else:
            break
    return out


def match_arms(body, sw):
    """(join block, {variant: ({local: term}, error|None)}) for a discriminant switch `sw` (tables.discr_switches entry).
    The join is the first block on the straight-line continuation of one arm that lies on that of every arm (unwind
    edges ignored); None when the arms do not meet (each is then followed to its branch / return)."""
    chains = {v: _chain(body, tb) for v, tb in sw["arms"].items()}
    join = None
    if chains:
        first = next(iter(chains.values()))
        for bb in first:
            if all(bb in c for c in chains.values()):
                join = bb
                break
    out = {}
    for v, tb in sw["arms"].items():
        out[v] = follow_arm(body, tb, join, sw["place"]["l"])
    return join, out


def term_of_local(body, local, depth=8, _seen=None):
    """Backward term of a local with a unique definition (assignment or call result), through copies and references."""
    _seen = _seen or set()
    if depth <= 0 or local in _seen:
        return ("free", local)
    _seen = _seen | {local}
    defs = [("s", s) for bb, i, s in body.stmts() if s["k"] == "assign" and s["place"]["l"] == local and not s["place"]["p"]]
    defs += [("c", t) for bb, t in body.calls() if t.get("dest") is not None and t["dest"]["l"] == local and not t["dest"]["p"]]
    if len(defs) != 1:
        return ("free", local)
    kind, d = defs[0]

    class _Env(dict):
        def get(self, l, default=None):
            return term_of_local(body, l, depth - 1, _seen)
    env = _Env()
    if kind == "s":
        return eval_rv(env, None, d["rv"])
    name = callee_name(d)
    return ("call", name, tuple(eval_op(env, None, a) for a in d["args"])) if name else ("unknown", "indirect call")


VIEW_CALLS = ("deref", "deref_mut", "as_ref", "as_mut", "as_str", "as_bytes", "borrow", "borrow_mut", "as_slice", "as_mut_str", "clone",
              "as_deref", "into", "from", "to_owned", "to_string", "into_boxed_str", "into_string", "from_utf8_unchecked")


def strip_views(t):
    """drop calls that only change the view / ownership of a string (deref, as_ref, as_str, clone, into, ...)"""
    while isinstance(t, tuple) and t[0] == "call" and t[1] and len(t[2]) == 1 and t[1].rsplit("::", 1)[-1].split("::<")[0] in VIEW_CALLS:
        t = t[2][0]
    return t


def raw_source(body, op, depth=12):
    """(leaf term, [transforming calls]) of an operand: the value it views, and every call on the way that is not a mere
    view/ownership change (e.g. to_ascii_lowercase, trim, replace)."""
    from .facts import op_local as _ol
    l = _ol(op)
    if l is None:
        return eval_op({}, None, op), []
    t = term_of_local(body, l, depth)
    transforms = []
    while True:
        t2 = strip_views(t)
        if isinstance(t2, tuple) and t2[0] == "call" and t2[2]:
            transforms.append(t2[1])
            t = t2[2][0]
            continue
        return t2, transforms


def simplify(t):
    """projection of a known aggregate: field k of a tuple built from (a, b, ..) is its k-th operand; Ok/Some/Continue payloads
    likewise (the variant must match)"""
    if not isinstance(t, tuple):
        return t
    if t[0] == "field":
        base = simplify(t[1])
        if isinstance(base, tuple) and base[0] == "agg" and t[3] is not None and str(t[3]).isdigit() and int(t[3]) < len(base[3]) \
                and (base[1] == "tuple" or t[2] is None or t[2] == base[2]):
            return simplify(base[3][int(t[3])])
        return ("field", base, t[2], t[3])
    if t[0] == "call":
        return ("call", t[1], tuple(simplify(a) for a in t[2]))
    if t[0] == "agg":
        return ("agg", t[1], t[2], tuple(simplify(a) for a in t[3]))
    return t


def calls_in(t, out=None):
    """names of all calls in a term"""
    out = out if out is not None else []
    if isinstance(t, tuple) and t:
        if t[0] == "call":
            out.append(t[1])
        for x in t:
            if isinstance(x, tuple):
                calls_in(x, out)
    return out


def has_kind(t, kind):
    if isinstance(t, tuple) and t:
        if t[0] == kind:
            return True
        return any(has_kind(x, kind) for x in t if isinstance(x, tuple))
    return False


def cut_at(t, names):
    """replace the arguments of calls to `names` by nothing: what such a call was applied to is not part of the value path"""
    if not isinstance(t, tuple):
        return t
    if t[0] == "call":
        if t[1] in names:
            return ("call", t[1], ())
        return ("call", t[1], tuple(cut_at(a, names) for a in t[2]))
    if t[0] == "agg":
        return ("agg", t[1], t[2], tuple(cut_at(a, names) for a in t[3]))
    if t[0] == "field":
        return ("field", cut_at(t[1], names), t[2], t[3])
    if t[0] == "binop":
        return ("binop", t[1], tuple(cut_at(a, names) for a in t[2]))
    return t
