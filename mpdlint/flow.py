"""A3 — intra-procedural value flow (provenance) over MIR locals (DESIGN.md §3).

Flow-insensitive def/use slicing.  By default places are treated field-insensitively (a write to
`_5.0` is a definition of `_5`); `field_path` variants are provided where a rule needs them.
"""
from .callgraph import norm
from .facts import callee, op_const, op_local, op_place


class Flow:
    def __init__(self, body):
        self.body = body
        self.defs = {}       # local -> list of def records
        self.mutrefs = {}    # local holding `&mut place` -> base local of place
        self.refs = {}       # local holding `&place`/`&mut place` -> base local
        live = sorted(body.reachable())
        for bb in live:
            blk = body.blocks[bb]
            for i, s in enumerate(blk["s"]):
                if s["k"] == "assign":
                    self.defs.setdefault(s["place"]["l"], []).append(("assign", bb, i, s))
                    rv = s["rv"]
                    if rv["k"] == "ref" and not s["place"]["p"]:
                        self.refs.setdefault(s["place"]["l"], set()).add(rv["place"]["l"])
                        if rv["mut"]:
                            self.mutrefs.setdefault(s["place"]["l"], set()).add(rv["place"]["l"])
                elif s["k"] == "setdiscr":
                    self.defs.setdefault(s["place"]["l"], []).append(("setdiscr", bb, i, s))
            t = blk["t"]
            if t["k"] == "call":
                self.defs.setdefault(t["dest"]["l"], []).append(("call", bb, None, t))
            elif t["k"] == "yield":
                self.defs.setdefault(t["resume_arg"]["l"], []).append(("yield", bb, None, t))
        # calls mutate what their `&mut` arguments point to
        changed = True
        # propagate mutrefs through reborrows `_9 = &mut (*_10)` handled above: base of (*_10) is _10,
        # and _10 is itself a mutref to X -> treat _9 as mutref to X too
        while changed:
            changed = False
            for l, bases in list(self.mutrefs.items()):
                for b in list(bases):
                    for bb2 in self.mutrefs.get(b, ()):
                        if bb2 not in bases:
                            bases.add(bb2)
                            changed = True
            # moves of a mutref: `_k = move _j`
            for l, ds in self.defs.items():
                for d in ds:
                    if d[0] == "assign" and d[3]["rv"]["k"] == "use" and not d[3]["place"]["p"]:
                        src = op_local(d[3]["rv"]["op"])
                        if src is not None and src in self.mutrefs:
                            cur = self.mutrefs.setdefault(l, set())
                            if not self.mutrefs[src] <= cur:
                                cur |= self.mutrefs[src]
                                changed = True
        for bb in live:
            t = body.blocks[bb]["t"]
            if t["k"] == "call":
                for a in t["args"]:
                    l = op_local(a)
                    if l is not None and l in self.mutrefs:
                        for base in self.mutrefs[l]:
                            self.defs.setdefault(base, []).append(("callmut", bb, None, t))

    # ---- backward slice ---------------------------------------------------------------------
    def sources(self, start_locals, through_call=None, follow_agg=True, follow_mut=True):
        """Leaf sources from which the values of `start_locals` may derive.

        Returns (leaves, visited_locals).  Leaves are tuples:
          ('param', n) | ('call', bb) | ('callmut', bb) | ('const', text) | ('agg', bb, i) |
          ('yield', bb) | ('opaque', bb, i) | ('undef', local)
        `through_call(t, kind)` -> iterable of argument indices to follow (None = do not follow).
        """
        body = self.body
        argc = body.mir["argc"]
        leaves = set()
        seen = set()
        work = list(start_locals)
        while work:
            l = work.pop()
            if l in seen:
                continue
            seen.add(l)
            if 1 <= l <= argc:
                leaves.add(("param", l))
            ds = self.defs.get(l, [])
            if not ds and not (1 <= l <= argc):
                leaves.add(("undef", l))
            for kind, bb, i, x in ds:
                if kind == "assign":
                    rv = x["rv"]
                    k = rv["k"]
                    if k in ("use", "cast", "repeat"):
                        self._follow_op(rv["op"], work, leaves)
                    elif k in ("ref", "rawptr", "discr"):
                        work.append(rv["place"]["l"])
                        self._follow_idx(rv["place"], work)
                    elif k == "binop":
                        self._follow_op(rv["a"], work, leaves)
                        self._follow_op(rv["b"], work, leaves)
                    elif k == "unop":
                        self._follow_op(rv["a"], work, leaves)
                    elif k == "agg":
                        leaves.add(("agg", bb, i))
                        if follow_agg:
                            for o in rv["ops"]:
                                self._follow_op(o, work, leaves)
                    else:
                        leaves.add(("opaque", bb, i))
                elif kind in ("call", "callmut"):
                    if kind == "callmut" and not follow_mut:
                        continue
                    leaves.add((kind, bb))
                    idxs = through_call(x, kind) if through_call else None
                    if idxs is not None:
                        for ai in idxs:
                            if ai < len(x["args"]):
                                self._follow_op(x["args"][ai], work, leaves)
                elif kind == "yield":
                    leaves.add(("yield", bb))
                elif kind == "setdiscr":
                    leaves.add(("opaque", bb, i))
        return leaves, seen

    def _follow_op(self, op, work, leaves):
        p = op_place(op)
        if p is not None:
            work.append(p["l"])
            self._follow_idx(p, work)
            return
        c = op_const(op)
        if c is not None:
            leaves.add(("const", c["c"]))

    @staticmethod
    def _follow_idx(place, work):
        for e in place["p"]:
            if isinstance(e, dict) and "idx" in e:
                work.append(e["idx"])

    # ---- forward slice ----------------------------------------------------------------------
    def forward(self, start_locals, through_call=None, stop_variants=()):
        """Locals whose value may derive from `start_locals`, and the call sites that receive
        them as arguments: returns (locals, [(bb, arg index)]).  `stop_variants`: a read through a downcast to one of these
        variants (`(r as Ok).0`) does not carry the value on — for following an *error* inside a Result."""
        body = self.body
        derived = set(start_locals)
        uses = []
        changed = True
        live = sorted(body.reachable())
        while changed:
            changed = False
            for bb in live:
                blk = body.blocks[bb]
                for s in blk["s"]:
                    if s["k"] != "assign":
                        continue
                    rv = s["rv"]
                    srcs = []
                    k = rv["k"]
                    if k in ("use", "cast", "repeat"):
                        srcs = [rv["op"]]
                    elif k in ("ref", "rawptr", "discr"):
                        srcs = [{"copy": rv["place"]}]
                    elif k == "binop":
                        srcs = [rv["a"], rv["b"]]
                    elif k == "unop":
                        srcs = [rv["a"]]
                    elif k == "agg":
                        srcs = rv["ops"]
                    hit = False
                    for o in srcs:
                        p = op_place(o)
                        if p is not None and p["l"] in derived and not (stop_variants and any(
                                isinstance(e, dict) and "v" in e and e.get("n") in stop_variants for e in p["p"])):
                            hit = True
                    if hit and s["place"]["l"] not in derived:
                        derived.add(s["place"]["l"])
                        changed = True
                t = blk["t"]
                if t["k"] == "call":
                    for ai, a in enumerate(t["args"]):
                        p = op_place(a)
                        if p is not None and p["l"] in derived:
                            if (bb, ai) not in uses:
                                uses.append((bb, ai))
                            idxs = through_call(t, ai) if through_call else False
                            if idxs and t["dest"]["l"] not in derived:
                                derived.add(t["dest"]["l"])
                                changed = True
        return derived, uses


# ---- commonly used call summaries ("result derives from argument k") ---------------------------

IDENTITY_LIKE = {
    # name -> argument indices whose value flows to the result
    "core::convert::Into::into": (0,),
    "core::convert::From::from": (0,),
    "core::convert::AsRef::as_ref": (0,),
    "core::ops::deref::Deref::deref": (0,),
    "core::ops::deref::DerefMut::deref_mut": (0,),
    "core::borrow::Borrow::borrow": (0,),
    "core::clone::Clone::clone": (0,),
    "alloc::borrow::ToOwned::to_owned": (0,),
    "alloc::string::ToString::to_string": (0,),
    "alloc::string::String::into_boxed_str": (0,),
    "alloc::str::<impl str>::into_string": (0,),
    "alloc::str::<impl str>::into_boxed_bytes": (0,),
    "alloc::string::String::as_str": (0,),
    "alloc::string::String::into_bytes": (0,),
    "core::ops::try_trait::Try::branch": (0,),
    "core::ops::try_trait::FromResidual::from_residual": (0,),
    "core::option::Option::map": (0, 1),
    "core::option::Option::map_err": (0,),
    "core::option::Option::ok_or": (0, 1),
    "core::option::Option::ok_or_else": (0, 1),
    "core::option::Option::unwrap_or": (0, 1),
    "core::option::Option::unwrap_or_default": (0,),
    "core::result::Result::unwrap_or_default": (0,),
    "core::option::Option::unwrap_or_else": (0, 1),
    "core::option::Option::unwrap": (0,),
    "core::option::Option::expect": (0,),
    "core::option::Option::take": (0,),
    "core::option::Option::as_ref": (0,),
    "core::option::Option::as_mut": (0,),
    "core::option::Option::as_deref": (0,),
    "core::option::Option::transpose": (0,),
    "core::option::Option::and_then": (0, 1),
    "core::result::Result::map": (0, 1),
    "core::result::Result::map_err": (0, 1),
    "core::result::Result::ok": (0,),
    "core::result::Result::unwrap": (0,),
    "core::result::Result::expect": (0,),
    "core::result::Result::transpose": (0,),
    "core::result::Result::and_then": (0, 1),
    "core::future::into_future::IntoFuture::into_future": (0,),
    "core::future::future::Future::poll": (0,),
    "core::pin::Pin::new": (0,),
    "core::pin::Pin::new_unchecked": (0,),
    "tracing::instrument::Instrument::instrument": (0,),
    "tracing::instrument::Instrument::in_current_span": (0,),
    "core::mem::take": (0,),
    "core::mem::replace": (0,),
    "alloc::boxed::Box::new": (0,),
    "alloc::string::String::as_str": (0,),
    "alloc::string::String::as_bytes": (0,),
    "core::str::<impl str>::as_bytes": (0,),
    "alloc::vec::Vec::as_slice": (0,),
}


def identity_through(t, kind=None):
    f = callee(t)
    if f is None:
        return None
    return IDENTITY_LIKE.get(norm(f["name"]))
