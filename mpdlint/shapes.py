"""A8 — command-shape extraction (DESIGN.md §3): enumerate the paths of a `command()` body and
record, per path, the command word and the ordered argument events with their provenance."""
from .callgraph import norm
from .common import callee_names, const_value_of
from .facts import callee, const_str, op_const, op_local, op_place

RAW = "mpd_protocol::command::Command::"
IDENT = {"core::convert::Into::into", "core::convert::From::from", "core::convert::AsRef::as_ref", "core::ops::deref::Deref::deref",
         "core::option::Option::as_ref", "core::clone::Clone::clone", "core::hint::must_use", "alloc::fmt::format",
         "core::fmt::Arguments::new", "core::fmt::rt::Argument::new_display", "core::fmt::rt::Argument::new_debug",
         "alloc::borrow::ToOwned::to_owned", "alloc::string::ToString::to_string", "core::borrow::Borrow::borrow",
         "core::slice::<impl [T]>::iter", "core::iter::traits::collect::IntoIterator::into_iter", "core::iter::traits::iterator::Iterator::next",
         "core::option::Option::unwrap", "core::result::Result::unwrap", "core::result::Result::expect"}


def place_path(p):
    out = []
    for e in p["p"]:
        if e == "*":
            continue
        if isinstance(e, dict):
            if "f" in e:
                out.append(str(e["n"] if e.get("n") is not None else e["f"]))
            elif "v" in e:
                out.append(str(e["n"] if e.get("n") is not None else e["v"]))
            elif "idx" in e or "cidx" in e:
                out.append("[]")
    return ".".join(out)


def path_elems(p, skip_first_field=False):
    out = []
    skipped = not skip_first_field
    for e in p["p"]:
        if e == "*":
            continue
        if isinstance(e, dict):
            if "f" in e:
                if not skipped:
                    skipped = True
                    continue
                out.append(str(e["n"] if e.get("n") is not None else e["f"]))
            elif "v" in e:
                out.append(str(e["n"] if e.get("n") is not None else e["v"]))
            elif "idx" in e or "cidx" in e:
                out.append("[]")
    return tuple(out)


def describe(prog, body, op, allowed, depth=0):
    """Canonical descriptor of an argument operand, sliced backwards inside `allowed` blocks.
    Tuple / array aggregates are followed field-sensitively."""
    atoms = set()
    seen = set()
    c = op_const(op)
    if c is not None:
        v = const_str(c)
        return '"%s"' % v if v is not None else "const:" + c["c"]

    def first_field(p):
        for e in p["p"]:
            if isinstance(e, dict) and "f" in e:
                return e["f"]
        return None

    def push(p, work, suffix=()):
        # `suffix`: what is read of the value later on (`_5 = &(*_1).0; .. ((*_5) as Disable).0` reads `self.0.Disable.0`) — the
        # descriptor is the whole access path, however many reference locals it goes through
        if p["l"] == 1 and (suffix or (p["p"] and any(e != "*" for e in p["p"]))):
            atoms.add("f:" + ".".join(path_elems(p) + tuple(suffix)))
        elif p["l"] == 1:
            atoms.add("f:self")
        else:
            work.append((p["l"], first_field(p), path_elems(p), path_elems(p, True), tuple(suffix)))

    def note_const(k):
        v = const_str(k)
        if v is not None and k["ty"].endswith("str"):
            atoms.add('"%s"' % v)
        elif "[u8" in k["ty"]:
            atoms.add("tpl:" + k["c"])
        elif k["ty"].rstrip("]").endswith("; 0"):
            atoms.add("empty[]")
        elif k.get("int") is not None:
            atoms.add("int:%d" % k["int"])

    work = []
    if op_place(op) is not None:
        push(op_place(op), work)
    while work:
        l, fsel, whole, rest, suffix = work.pop()
        if (l, fsel, whole, suffix) in seen:
            continue
        seen.add((l, fsel, whole, suffix))
        for bb in allowed:
            blk = body.blocks[bb]
            for s in blk["s"]:
                if s["k"] != "assign" or s["place"]["l"] != l:
                    continue
                rv = s["rv"]
                ops = []
                nsuf = ()
                if s["place"]["p"] and any(e != "*" for e in s["place"]["p"]):
                    pass        # a write to a part of the local: followed without a path
                elif rv["k"] in ("use", "cast", "repeat"):
                    ops = [rv["op"]]
                    nsuf = whole + suffix if rv["k"] == "use" else ()
                elif rv["k"] in ("ref", "rawptr", "discr"):
                    ops = [{"copy": rv["place"]}]
                    nsuf = whole + suffix if rv["k"] == "ref" else ()
                if ops:
                    pass
                elif rv["k"] in ("use", "cast", "repeat"):
                    ops = [rv["op"]]
                elif rv["k"] in ("ref", "rawptr", "discr"):
                    ops = [{"copy": rv["place"]}]
                elif rv["k"] == "agg":
                    ops = rv["ops"]
                    if rv["agg"] == "array" and not ops:
                        atoms.add("empty[]")
                    if fsel is not None and rv["agg"] in ("tuple", "array") and fsel < len(ops):
                        ops = [ops[fsel]]
                        nsuf = rest + suffix if rv["agg"] == "tuple" else ()
                    elif fsel is None and not whole and suffix and suffix[0].isdigit() and rv["agg"] == "tuple" and int(suffix[0]) < len(ops):
                        # the component was selected on a copy of the tuple (`_4 = move _ret; _2 = _4.0`)
                        ops = [ops[int(suffix[0])]]
                        nsuf = suffix[1:]
                elif rv["k"] == "binop":
                    ops = [rv["a"], rv["b"]]
                    atoms.add("op:" + rv["op"])
                elif rv["k"] == "unop":
                    ops = [rv["a"]]
                for o in ops:
                    k = op_const(o)
                    if k is not None:
                        note_const(k)
                        continue
                    p = op_place(o)
                    if p is not None:
                        push(p, work, nsuf)
            t = blk["t"]
            if t["k"] == "call" and t["dest"]["l"] == l:
                ns = callee_names(t)
                if "core::fmt::Arguments::new" in ns and depth < 3:
                    folded = _fold_fmt(prog, body, t, allowed, depth)
                    if folded is not None:
                        atoms.add(folded[0])
                        for o in folded[1]:
                            k = op_const(o)
                            if k is not None:
                                note_const(k)
                            elif op_place(o) is not None:
                                push(op_place(o), work)
                        continue
                if not any(n in IDENT for n in ns):
                    parts = ns[0].split("::")
                    name = "::".join(parts[-2:])
                    # the method and the free-function spelling of the same operation
                    name = {"Ord::min": "cmp::min", "Ord::max": "cmp::max", "Ord::clamp": "cmp::clamp"}.get(name, name)
                    atoms.add("fn:" + name)
                for a in t["args"]:
                    k = op_const(a)
                    if k is not None:
                        note_const(k)
                        continue
                    p = op_place(a)
                    if p is not None:
                        push(p, work)
    if len(atoms) == 1:
        return next(iter(atoms))
    return "<" + "|".join(sorted(atoms)) + ">"


def _def_in(body, allowed, l):
    """the definitions of a local on the path: [('assign', stmt) | ('call', terminator)]"""
    out = []
    for bb in allowed:
        blk = body.blocks[bb]
        for s in blk["s"]:
            if s["k"] == "assign" and s["place"]["l"] == l and not s["place"]["p"]:
                out.append(("assign", s))
        t = blk["t"]
        if t["k"] == "call" and t["dest"]["l"] == l and not t["dest"]["p"]:
            out.append(("call", t))
    return out


def _through_refs(body, allowed, op, want):
    """follow `&`, `&*` and plain copies from an operand to the one definition `want` accepts"""
    for _ in range(8):
        c = op_const(op)
        if c is not None:
            return want("const", c)
        p = op_place(op)
        if p is None or any(e != "*" for e in p["p"]):
            return None
        ds = _def_in(body, allowed, p["l"])
        if len(ds) != 1:
            return None
        kind, d = ds[0]
        r = want(kind, d)
        if r is not None:
            return r
        if kind != "assign":
            return None
        rv = d["rv"]
        if rv["k"] == "use":
            op = rv["op"]
        elif rv["k"] == "ref" and all(e == "*" for e in rv["place"]["p"]):
            op = {"copy": rv["place"]}
        else:
            return None
    return None


def _fold_fmt(prog, body, t, allowed, depth):
    """`format_args!("{sign}{:.3}", secs)` on a path where `sign` is the constant "+" writes what `format_args!("+{:.3}", secs)`
    writes: a plainly displayed constant string is folded into the template.  Returns (template atom, operands of the remaining
    arguments) or None when nothing is folded (then the call is described as before)."""
    from . import fmttpl
    if len(t["args"]) != 2:
        return None
    tpl = _through_refs(body, allowed, t["args"][0], lambda k, d: fmttpl.parse_const(d["c"]) if k == "const" and "[u8" in d["ty"] else None)
    arr = _through_refs(body, allowed, t["args"][1],
                        lambda k, d: d["rv"]["ops"] if k == "assign" and d["rv"]["k"] == "agg" and d["rv"].get("agg") == "array" else None)
    if tpl is None or arr is None:
        return None
    pieces = fmttpl.decode(tpl)
    if pieces is None:
        return None
    args = []
    for o in arr:
        a = _through_refs(body, allowed, o, lambda k, d: (callee_names(d), d["args"]) if k == "call" else None)
        if a is None or len(a[1]) != 1:
            return None
        args.append(a)
    phs = [i for i, pc in enumerate(pieces) if pc[0] == "ph"]
    if len(phs) != len(args):
        return None
    folded = False
    keep = []
    for n, i in enumerate(phs):
        ns, aops = args[n]
        d = describe(prog, body, aops[0], allowed, depth + 1) if pieces[i][2] and "core::fmt::rt::Argument::new_display" in ns else ""
        if len(d) >= 2 and d[0] == '"' and d[-1] == '"' and "|" not in d:
            pieces[i] = ("lit", d[1:-1].encode())
            folded = True
        else:
            keep.append(aops[0])
    if not folded:
        return None
    return "tpl:" + fmttpl.rust_repr(fmttpl.encode(pieces)), keep


def shapes_of(prog, body, max_paths=400):
    """Set of shapes (tuples: word, arg descriptors...) over all paths of a command() body.
    A loop body is traversed at most once per path (arguments inside it are marked with '*')."""
    succs = body.succs()
    results = set()
    problems = []
    npaths = [0]
    loops_blocks = set()
    from .cfg import sccs
    for l in sccs(succs, body.reachable()):
        loops_blocks |= l

    def resolve_ref(state, l):
        v = state.get(l)
        hops = 0
        while v is not None and v[0] == "ref" and hops < 5:
            l = v[1]
            v = state.get(l)
            hops += 1
        return l, v

    def run(bb, state, visited, path):
        while True:
            if npaths[0] > max_paths:
                problems.append("too many paths")
                return
            path = path | {bb}
            visited = dict(visited)
            visited[bb] = visited.get(bb, 0) + 1
            if visited[bb] > 2:
                return
            blk = body.blocks[bb]
            for s in blk["s"]:
                if s["k"] != "assign" or s["place"]["p"]:
                    continue
                dst = s["place"]["l"]
                rv = s["rv"]
                if rv["k"] == "use":
                    src = op_local(rv["op"])
                    if src is not None and src in state:
                        state = dict(state)
                        state[dst] = state[src]
                    elif dst in state:
                        state = dict(state)
                        del state[dst]
                elif rv["k"] == "ref" and rv["place"]["p"] in ([], ["*"]):
                    state = dict(state)
                    base = rv["place"]["l"]
                    state[dst] = ("ref", base) if not rv["place"]["p"] else state.get(base, ("ref", base))
            t = blk["t"]
            k = t["k"]
            if k == "call":
                ns = callee_names(t)
                dst = t["dest"]["l"]
                state = dict(state)
                if RAW + "new" in ns or RAW + "build" in ns:
                    w = const_value_of(prog, body, t["args"][0])
                    state[dst] = ("cmd", w if w is not None else "?", ())
                elif RAW + "argument" in ns or RAW + "add_argument" in ns:
                    l0 = op_local(t["args"][0])
                    tgt, v = resolve_ref(state, l0)
                    if v is None or v[0] != "cmd":
                        problems.append("argument added to an untracked command at bb%d" % bb)
                        return
                    d = describe(prog, body, t["args"][1], path)
                    if bb in loops_blocks:
                        d += "*"
                    # a loop over an empty array literal (`("all", &[])`) runs zero times
                    nv = ("cmd", v[1], v[2] + (d,)) if d != "empty[]*" else v
                    if RAW + "argument" in ns:
                        state[dst] = nv
                    else:
                        state[tgt] = nv
                elif dst in state:
                    del state[dst]
                if t["target"] is None:
                    return
                bb = t["target"]
            elif k == "goto":
                bb = t["target"]
            elif k == "drop":
                bb = t["target"]
            elif k == "assert":
                bb = t["target"]
            elif k == "switch":
                for nb in succs[bb]:
                    run(nb, state, visited, path)
                return
            elif k == "return":
                npaths[0] += 1
                v = state.get(0)
                if v is None or v[0] != "cmd":
                    problems.append("a path returns an untracked command")
                else:
                    results.add((v[1],) + v[2])
                return
            else:
                return

    run(0, {}, {}, frozenset())
    return results, problems


def render_shapes(prog, body, max_paths=200):
    """Per path of an `Argument::render` body: the ordered write events."""
    succs = body.succs()
    results = set()
    problems = []
    n = [0]

    def fmt_event(bb, t, path):
        # Arguments::new(template, args) feeding this write_fmt
        tpl = "?"
        args = []
        l = op_local(t["args"][1])
        for pb in path:
            pt = body.blocks[pb]["t"]
            if pt["k"] == "call" and pt["dest"]["l"] == l and any(x.startswith("core::fmt::Arguments::") for x in callee_names(pt)):
                tpl = describe(prog, body, pt["args"][0], path)
                if len(pt["args"]) > 1:
                    # the array of fmt::Argument values, in order
                    al = op_local(pt["args"][1])
                    arr = None
                    work = [al]
                    seen = set()
                    while work and arr is None:
                        x = work.pop()
                        if x in seen or x is None:
                            continue
                        seen.add(x)
                        for b2 in path:
                            for s in body.blocks[b2]["s"]:
                                if s["k"] == "assign" and s["place"]["l"] == x:
                                    if s["rv"]["k"] == "agg" and s["rv"]["agg"] == "array":
                                        arr = s["rv"]["ops"]
                                    elif s["rv"]["k"] == "ref":
                                        work.append(s["rv"]["place"]["l"])
                                    elif s["rv"]["k"] == "use":
                                        work.append(op_local(s["rv"]["op"]))
                    for o in arr or []:
                        args.append(describe(prog, body, o, path))
        return "fmt(%s; %s)" % (tpl, ", ".join(args))

    def run(bb, visited, path, events):
        while True:
            if n[0] > max_paths:
                problems.append("too many paths")
                return
            path = path | {bb}
            visited = dict(visited)
            visited[bb] = visited.get(bb, 0) + 1
            if visited[bb] > 2:
                return
            t = body.blocks[bb]["t"]
            k = t["k"]
            if k == "call":
                ns = callee_names(t)
                if "core::fmt::Write::write_fmt" in ns:
                    events = events + (fmt_event(bb, t, path),)
                elif "bytes::buf::buf_mut::BufMut::put_u8" in ns:
                    events = events + ("u8(%s)" % describe(prog, body, t["args"][1], path),)
                elif "bytes::buf::buf_mut::BufMut::put_slice" in ns or "bytes::bytes_mut::BytesMut::extend_from_slice" in ns:
                    events = events + ("slice(%s)" % describe(prog, body, t["args"][1], path),)
                elif "mpd_protocol::command::Argument::render" in ns:
                    events = events + ("render(%s)" % describe(prog, body, t["args"][0], path),)
                else:
                    f = callee(t)
                    if f and f["def"] in prog.bodies and any(a for a in t["args"] if "BytesMut" in body.local_ty(op_local(a) or 0)):
                        events = events + ("call(%s)" % ns[0].rsplit("::", 1)[-1],)
                if t["target"] is None:
                    return
                bb = t["target"]
            elif k in ("goto", "drop", "assert"):
                bb = t["target"]
            elif k == "switch":
                for nb in succs[bb]:
                    run(nb, visited, path, events)
                return
            elif k == "return":
                n[0] += 1
                results.add(events)
                return
            else:
                return

    run(0, {}, frozenset(), ())
    return results, problems
