"""Helpers shared by the property modules."""
from .callgraph import CallGraph, norm
from .facts import callee, op_const, op_local, op_place, const_int

_CG = {}


def callgraph(prog):
    cg = _CG.get(id(prog))
    if cg is None:
        cg = CallGraph(prog)
        _CG[id(prog)] = cg
    return cg


def body_by_name(prog, name):
    """Bodies (fn / assoc fn) whose normalised pretty name equals `name`."""
    return [b for b in prog.bodies.values() if b.kind in ("Fn", "AssocFn") and norm(b.name) == name]


def one_body(rep, prog, name, rule):
    bs = body_by_name(prog, name)
    if len(bs) != 1:
        rep.fail(rule + ".anchor", name, name,
                 "anchor function %s not found exactly once (found %d): failing closed" % (name, len(bs)))
        return None
    return bs[0]


def family(prog, body):
    """The body plus all closures / coroutines nested in it (tracing wrappers, async blocks)."""
    return [b for b in prog.bodies.values() if b.root == body.root]


def impl_methods(prog, trait_suffix, method):
    """[(impl record, body)] for every workspace impl of `trait` that defines `method`."""
    out = []
    for imp in prog.impls_of(trait_suffix):
        for it in imp["items"]:
            if it["name"] == method and it["def"] in prog.bodies:
                out.append((imp, prog.bodies[it["def"]]))
    return out


def callee_norm(t):
    f = callee(t)
    if f is None:
        return None
    return norm(f["name"])


def callee_names(t):
    """Normalised names under which a call may be matched: trait path and resolved instance."""
    f = callee(t)
    if f is None:
        return []
    out = [norm(f["name"])]
    if f.get("inst_name"):
        out.append(norm(f["inst_name"]))
    return out


def div_by_nonzero_const(body, bb):
    """div/rem-by-zero assert whose divisor is a non-zero constant (never fires)."""
    blk = body.blocks[bb]
    t = blk["t"]
    cl = op_local(t["cond"])
    if cl is None:
        return False
    for s in blk["s"]:
        if s["k"] == "assign" and s["place"]["l"] == cl and not s["place"]["p"] and s["rv"]["k"] == "binop" \
                and s["rv"]["op"] == "Eq":
            a = const_int(op_const(s["rv"]["a"]))
            b = const_int(op_const(s["rv"]["b"]))
            if a is not None and b == 0 and a != 0:
                return True
    return False
